"""asimap/pop3_client.py -- C20"""


def declare(reg):
    P = "asimap/pop3_client.py"
    H = "ref:POP3CommandHandler"
    T = dict(trusted=True)
    reg.contract("asimap/generator.py", "msg_as_bytes", params={"msg": "opaque:EmailMessage", "render_headers": "bool"}, ret="str",
                 ensures={"det": "result == rendered(msg, render_headers)", "crlf": "result.endswith('\\r\\n')"}, **T,
                 note="A-EMAIL: deterministic renderer; ends with CRLF (generator._msg_as_bytes appends it when missing)")
    reg.contract("asimap/generator.py", "get_msg_size", params={"msg": "opaque:EmailMessage"}, ret="int",
                 ensures={"size": "result == len(rendered(msg, True))", "nonneg": "result >= 0"}, **T, note="C16 (a): same renderer as msg_as_bytes")
    reg.contract(P, "dot_stuff", params={"data": "str"}, ret="str", ensures={"spec": "result == stuffed(data)", "crlf-kept": "result.endswith('\\r\\n') == data.endswith('\\r\\n')"}, **T,
                 note="bounded tier (harness.pop3:DotStuff): unstuff(dot_stuff(d)) == d and no line of the result is a lone '.'")
    # the body of dot_stuff, line by line (the contract above, used at call sites, names the result `stuffed(data)`; this second contract on the
    # same real body says what that is: one output line per input line, a '.' put in front of exactly the lines that start with one, joined by CRLF)
    reg.contract(P, "dot_stuff#lines", params={"data": "str"}, ret="str",
                 ensures={
                     "joined": "result == '\\r\\n'.join(local('result'))",
                     "one-line-per-line": "len(local('result')) == len(data.split('\\r\\n'))",
                     "each-line-stuffed": "forall(lambda j: implies(0 <= j and j < len(local('result')), local('result')[j] == "
                                          "ite(data.split('\\r\\n')[j].startswith('.'), '.' + data.split('\\r\\n')[j], data.split('\\r\\n')[j])))",
                     "no-lone-dot-line": "forall(lambda j: implies(0 <= j and j < len(local('result')), local('result')[j] != '.'))",
                 },
                 raises={}, locals_={"result": "list[str]", "lines": "list[str]"},
                 loops={0: {"invariant": {
                     "count": "len(result) == _i",
                     "stuffed-so-far": "forall(lambda j: implies(0 <= j and j < _i, result[j] == ite(_it[j].startswith('.'), '.' + _it[j], _it[j])))",
                 }}},
                 props=["C20"],
                 note="assumes of CPython only that bytes.split / bytes.join are deterministic functions (uninterpreted); that joining with CRLF and splitting at CRLF "
                      "are inverse on lines without CRLF is what the bounded oracle harness.pop3:DotStuff exercises")
    reg.specfn("rendered", "msg: opaque:EmailMessage, hdrs: bool", "str", doc="A-EMAIL: the bytes generator's rendering (uninterpreted, deterministic)")
    reg.specfn("stuffed", "data: str", "str", doc="RFC 1939 dot-stuffing of a CRLF-separated text (uninterpreted here; bounded tier checks dot_stuff)")
    reg.specfn("msg_of", "m: ref:Mailbox, key: int", "opaque:EmailMessage", doc="the message stored under MH key `key` (uninterpreted)")
    # --------------------------------------------------------------
    reg.contract(
        P, "POP3CommandHandler._valid_msg_num", uses_invariant=True,
        params={"self": H, "num_str": "str"}, ret="opt[int]",
        ensures={"valid": "is_none(result) or (1 <= some(result) and some(result) <= self.msg_count and some(result) not in self.deleted)"},
        props=["C20"],
    )
    reg.contract(
        P, "POP3CommandHandler.do_dele", uses_invariant=True, keeps_invariant=True,
        params={"self": H, "args": "str"}, ret="bool",
        ensures={
            "marks-only": "self.deleted == old(self.deleted) or exists(lambda n: 1 <= n and n <= self.msg_count and n not in old(self.deleted) and self.deleted == old(self.deleted) | {n})",
            "continues": "result == True",
        },
        modifies=["self.deleted", "ClientProxy.g_out"],
        props=["C20"],
    )
    reg.contract(
        P, "POP3CommandHandler.do_rset", uses_invariant=True, keeps_invariant=True,
        params={"self": H, "args": "str"}, ret="bool",
        ensures={"cleared": "forall(lambda n: n not in self.deleted)", "continues": "result == True"},
        modifies=["self.deleted", "ClientProxy.g_out"],
        props=["C20"],
    )
    reg.contract(
        P, "POP3CommandHandler.do_uidl", uses_invariant=True, keeps_invariant=True,
        params={"self": H, "args": "str"}, ret="bool",
        ensures={"continues": "result == True"},
        modifies=["ClientProxy.g_out"],
        loops={0: {"invariant": {}}},
        locals_={"lines": "list[str]"},
        props=["C20"],
    )
    reg.contract(
        P, "POP3CommandHandler.do_quit", uses_invariant=True,
        params={"self": H, "args": "str"}, ret="bool",
        requires={"disk-has-keys": "subset(elems(some(self.mbox).msg_keys), some(self.mbox).mailbox.g_keys)"},
        ensures={
            # QUIT removes exactly the marked messages that still exist (by snapshot UID); everything else stays
            "marked-go": "forall(lambda k, n: implies(n in self.deleted and k in old(some(self.mbox).msg_keys) and "
                         "old(uid_at(some(self.mbox), k)) == self.snapshot_uids[n - 1], k not in some(self.mbox).msg_keys))",
            "unmarked-stay": "forall(lambda k: implies(k in old(some(self.mbox).msg_keys) and "
                             "forall(lambda n: implies(n in self.deleted, old(uid_at(some(self.mbox), k)) != self.snapshot_uids[n - 1])), k in some(self.mbox).msg_keys))",
            "nothing-added": "forall(lambda k: implies(k in some(self.mbox).msg_keys, k in old(some(self.mbox).msg_keys)))",
            "disconnects": "result == False",
        },
        raises={},
        modifies=["Mailbox.msg_keys", "Mailbox.uids", "Mailbox.num_msgs", "Mailbox.num_recent", "Mailbox._msg_key_to_idx", "Mailbox._uid_to_idx",
                  "Mailbox.sequences", "Mailbox.optional_resync", "*.pending_notifications", "MH.g_keys", "MH.g_seqs", "ClientProxy.g_out", "Mailbox.g_db_seqs", "Mailbox.g_db_exists", "Mailbox.g_db_uid_vv", "Mailbox.g_db_next_uid", "Mailbox.g_db_uids", "Mailbox.g_db_msg_keys", "Mailbox.g_db_subscribed", "Mailbox.g_db_num_msgs"],
        props=["C20"],
    )
    reg.contract(
        P, "POP3CommandHandler._get_msg_size", uses_invariant=True,
        params={"self": H, "pop3_num": "int"}, ret="int",
        requires={"valid": "1 <= pop3_num and pop3_num <= self.msg_count"},
        modifies=["self.msg_sizes"],
        props=["C20"],
    )
    reg.contract(
        P, "POP3CommandHandler.do_retr", uses_invariant=True, keeps_invariant=True,
        params={"self": H, "args": "str"}, ret="bool",
        ensures={
            "continues": "result == True",
            "one-reply": "len(self.client.g_out) == len(old(self.client.g_out)) + 1",
            # RFC 1939 framing: status line, the dot-stuffed message (which ends in CRLF), then the terminator line
            # RFC 1939 framing: unless one of the two -ERR replies was sent, the reply is the status line with the octet
            # count, the dot-stuffed message (it ends in CRLF) and the terminator line
            "framing": "implies(self.client.g_out[len(self.client.g_out) - 1] != '-ERR no such message\\r\\n' and "
                       "self.client.g_out[len(self.client.g_out) - 1] != '-ERR message not available\\r\\n', "
                       "1 <= some(local('n')) and some(local('n')) <= self.msg_count and some(local('n')) not in self.deleted and "
                       "self.client.g_out[len(self.client.g_out) - 1] == "
                       "'+OK ' + str(len(rendered(msg_of(some(self.mbox), self.snapshot_msg_keys[some(local('n')) - 1]), True))) + ' octets\\r\\n' + "
                       "stuffed(rendered(msg_of(some(self.mbox), self.snapshot_msg_keys[some(local('n')) - 1]), True)) + '.\\r\\n')",
        },
        modifies=["ClientProxy.g_out"],
        props=["C20"],
    )

    b = reg.properties.setdefault("C20", {}).setdefault("bounded", [])
    b.append({"name": "dot_stuff-exhaustive", "module": "harness.pop3", "func": "DotStuff"})
    b.append({"name": "pop3-real-session", "module": "harness.pop3", "func": "Pop3Session"})
