"""asimap/constants.py -- flag <-> MH sequence name mapping (C04)."""

SYS = {r"\Answered": "replied", r"\Deleted": "Deleted", r"\Draft": "Draft", r"\Flagged": "flagged", r"\Recent": "Recent", r"\Seen": "Seen"}
RESERVED = sorted(set(SYS.values()) | {"unseen"})


def declare(reg):
    P = "asimap/constants.py"
    lit = lambda s: repr(s)  # noqa: E731
    reg.specfn("is_sysflag", "f: str", "bool", " or ".join(f"f == {lit(k)}" for k in SYS))
    reg.specfn("is_sysflag_ci", "f: str", "bool", " or ".join(f"eq_ci(f, {lit(k)})" for k in SYS))
    reg.specfn("reserved_seq", "s: str", "bool", " or ".join(f"s == {lit(k)}" for k in RESERVED),
               doc="MH sequence names that carry system-flag meaning")
    mh = "''"
    for k, v in SYS.items():
        mh = f"ite(f == {lit(k)}, {lit(v)}, {mh})"
    reg.specfn("mh_of_sysflag", "f: str", "str", mh)
    reg.contract(
        P, "flag_to_seq", params={"flag": "str"}, ret="str",
        ensures={
            "system": "implies(is_sysflag(flag), result == mh_of_sysflag(flag))",
            # keywords are stored under their own name and never collide with a system sequence
            # (known findings F05/F06 carve out exactly: keyword atoms equal to a reserved sequence
            #  name, and case variants of system flags)
            "keyword": "implies(not is_sysflag_ci(flag) and not reserved_seq(flag), result == flag and not reserved_seq(result))",
        },
        props=["C04"],
        ghost={"harness": "harness.flags:FlagMap"},
    )
    inv = "''"
    for k, v in SYS.items():
        inv = f"ite(s == {lit(v)}, {lit(k)}, {inv})"
    reg.specfn("sysflag_of_mh", "s: str", "str", inv)
    reg.contract(
        P, "seq_to_flag", params={"seq": "str"}, ret="str",
        ensures={
            "system": "implies(reserved_seq(seq) and seq != 'unseen', result == sysflag_of_mh(seq))",
            "other": "implies(not (reserved_seq(seq) and seq != 'unseen'), result == seq)",
        },
        props=["C04"],
        ghost={"harness": "harness.flags:FlagMap"},
    )
    b = reg.properties.setdefault("C04", {}).setdefault("bounded", [])
    b.append({"name": "flag-helpers-exact", "module": "harness.flags", "func": "FlagHelpers"})
    b.append({"name": "flag-map", "module": "harness.flags", "func": "FlagMap"})
    # the exact function flag_to_seq computes (used by callers; the property-level clauses above carve out the known findings)
    seq = "f"
    for k, v in SYS.items():
        seq = f"ite(f == {lit(k)}, {lit(v)}, {seq})"
    reg.specfn("seq_of_flag", "f: str", "str", seq)
    reg.contracts["flag_to_seq"].ensures["exact"] = "result == seq_of_flag(flag)"
    reg.contract(
        P, "flags_to_seqs", params={"flags": "opt[list[str]]"}, ret="list[str]",
        ensures={"mapped": "ite(is_none(flags), len(result) == 0, len(result) == len(some(flags)) and "
                           "forall(lambda j: implies(0 <= j and j < len(result), result[j] == seq_of_flag(some(flags)[j]))))"},
        props=["C04"],
    )
