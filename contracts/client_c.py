"""asimap/client.py -- BaseClientHandler.command: exactly one tagged reply, last, CRLF-terminated (C06 a, C07 a)."""


def declare(reg):
    C = "asimap/client.py"
    # DESIGN 2.1 rule 6: per-command statistics counters are dropped by the extraction
    reg.dropped_stmts += [
        r"if self\.server and imap_command\.command:\n\s+self\.server\.(num_rcvd_commands|num_failed_commands)\[imap_command\.command\] \+= 1",
        r"if self\.server and imap_command\.command:\n\s+self\.server\.command_durations\[imap_command\.command\]\.append\(\s*cmd_duration\s*\)",
    ]
    reg.dynamic_dispatch[r"getattr\(self, f'do_\{imap_command\.command\}'\)\(imap_command\)"] = "BaseClientHandler.do_any"
    reg.specfn("tagged", "line: str, tag: str", "bool", "line.startswith(tag + ' ')", doc="a tagged response line of this command")
    NEW = "len(old(self.client.g_out)) <= i and i < len(self.client.g_out)"
    reg.contract(
        C, "BaseClientHandler.do_any",
        params={"self": "ref:BaseClientHandler", "imap_command": "ref:IMAPClientCommand"}, ret="HandlerResult",
        ensures={
            "only-untagged": f"forall(lambda i: implies({NEW}, not tagged(self.client.g_out[i], imap_command.tag)))",
            "keeps-earlier": "len(self.client.g_out) >= len(old(self.client.g_out)) and forall(lambda i: implies(0 <= i and i < len(old(self.client.g_out)), self.client.g_out[i] == old(self.client.g_out)[i]))",
            "same-connection": "self.client == old(self.client)",
        },
        exc_ensures={
            "only-untagged": f"forall(lambda i: implies({NEW}, not tagged(self.client.g_out[i], imap_command.tag)))",
            "keeps-earlier": "len(self.client.g_out) >= len(old(self.client.g_out)) and forall(lambda i: implies(0 <= i and i < len(old(self.client.g_out)), self.client.g_out[i] == old(self.client.g_out)[i]))",
            "same-connection": "self.client == old(self.client)",
        },
        raises={"No": None, "Bad": None, "TimeoutError": None, "ConnectionResetError": None, "CancelledError": None, "KeyboardInterrupt": None, "Exception": None},
        modifies=["ClientProxy.g_out", "self.mbox", "self.state", "self.server", "IMAPClientCommand.completed", "*.pending_notifications"],
        trusted=True, yields=True,
        note="abstraction of every do_<command> handler reached through getattr: returns None | False | str or raises; assumed to push only untagged lines "
             "(the tagged line is command()'s job) -- cross-checked by the bounded end-to-end oracle harness.e2e:Answered",
    )
    G = "self.client.g_out"
    N0 = f"len(old({G}))"
    reg.contract(
        C, "BaseClientHandler.command",
        params={"self": "ref:BaseClientHandler", "imap_command": "ref:IMAPClientCommand"},
        requires={"tag-non-empty": "len(imap_command.tag) > 0"},
        ensures={
            # (a) at most one tagged line, and it comes after all untagged data of the command
            "tagged-only-last": f"forall(lambda i: implies({N0} <= i and i < len({G}) - 1, not tagged({G}[i], imap_command.tag)))",
            # exactly one unless the handler asked for a deferred reply (IDLE returns False; DONE answers later)
            "answered": f"implies(not isinstance(local('result', None), bool), len({G}) > {N0} and tagged({G}[len({G}) - 1], imap_command.tag))",
            "status-word": f"implies(len({G}) > {N0} and tagged({G}[len({G}) - 1], imap_command.tag), "
                           f"{G}[len({G}) - 1].startswith(imap_command.tag + ' OK ') or {G}[len({G}) - 1].startswith(imap_command.tag + ' NO ') or {G}[len({G}) - 1].startswith(imap_command.tag + ' BAD '))",
            # C07 (a): the tagged line is a complete CRLF-terminated line
            "reply-ends-crlf": f"implies(len({G}) > {N0} and tagged({G}[len({G}) - 1], imap_command.tag), {G}[len({G}) - 1].endswith('\\r\\n'))",
            "earlier-output-kept": f"len({G}) >= {N0} and forall(lambda i: implies(0 <= i and i < {N0}, {G}[i] == old({G})[i]))",
        },
        raises={"ConnectionResetError": None, "CancelledError": None, "SystemExit": None, "Exception": None},
        exc_ensures={
            "tagged-only-last": f"forall(lambda i: implies({N0} <= i and i < len({G}) - 1, not tagged({G}[i], imap_command.tag)))",
            "reply-ends-crlf": f"implies(len({G}) > {N0} and tagged({G}[len({G}) - 1], imap_command.tag), {G}[len({G}) - 1].endswith('\\r\\n'))",
        },
        modifies=["ClientProxy.g_out", "self.tag", "self.mbox", "self.state", "self.server", "IMAPClientCommand.timeout_cm", "IMAPClientCommand.completed", "*.pending_notifications"],
        is_async=True,
        props=["C06", "C07"],
        ghost={"harness": "harness.e2e:Answered"},
    )

    reg.properties.setdefault("C06", {}).setdefault("bounded", []).append(
        {"name": "answered-e2e", "module": "harness.e2e", "func": "Answered"})

    # ---- C01: the gate for non-UID FETCH/STORE/SEARCH and the flush -------------------------------------------
    PN = "self.pending_notifications"
    reg.contract(
        C, "BaseClientHandler.pending_expunges", params={"self": "ref:BaseClientHandler"}, ret="bool",
        # true exactly when ANY queued notification is an EXPUNGE (not just the last one)
        ensures={"any-expunge": f"result == exists(lambda j: 0 <= j and j < len({PN}) and 'EXPUNGE' in {PN}[j])"},
        props=["C01"],
    )
    reg.contract(
        C, "BaseClientHandler.send_pending_notifications", params={"self": "ref:BaseClientHandler"},
        ensures={
            # everything queued is sent, in order, and the queue is emptied (the synchronisation point of NOOP/CHECK/...)
            "flushed-in-order": f"appended(self.client.g_out, old(self.client.g_out), old({PN})) and len({PN}) == 0",
        },
        modifies=["self.pending_notifications", "ClientProxy.g_out"],
        is_async=True,
        props=["C01"],
    )

    # ---- Authenticated.do_expunge (C06: the 'pretend idling' flag is always restored; C05/C15 f: UID restriction) -------
    reg.contract(C, "Authenticated.unceremonious_bye", params={"self": "ref:Authenticated", "msg": "str"}, trusted=True, yields=True,
                 modifies=["ClientProxy.g_out"], note="assumed: sends BYE and closes; touches no mailbox state")
    reg.contract(C, "Authenticated.send_pending_notifications", params={"self": "ref:Authenticated"}, trusted=True, yields=True,
                 ensures={"flushed-in-order": f"appended(self.client.g_out, old(self.client.g_out), old({PN})) and len({PN}) == 0"},
                 modifies=["self.pending_notifications", "ClientProxy.g_out"], note="inherited: same body as BaseClientHandler.send_pending_notifications (verified there, same postcondition)")
    reg.contract(C, "Authenticated.pending_expunges", params={"self": "ref:Authenticated"}, ret="bool", trusted=True,
                 ensures={"any-expunge": f"result == exists(lambda j: 0 <= j and j < len({PN}) and 'EXPUNGE' in {PN}[j])"},
                 note="inherited: same body as BaseClientHandler.pending_expunges (verified there, same postcondition)")
    MB = "some(self.mbox)"
    reg.contract(
        C, "Authenticated.do_expunge",
        params={"self": "ref:Authenticated", "cmd": "ref:IMAPClientCommand"},
        requires={
            # what the management task's resolution guarantees (msg_set_to_msg_seq_set: positions of existing messages)
            "resolved-in-range": f"is_none(self.mbox) or is_none(cmd.msg_set_as_set) or forall(lambda x: implies(x in some(cmd.msg_set_as_set), 1 <= x and x <= len({MB}.uids)))",
            "uids-ascending": f"is_none(self.mbox) or asc({MB}.uids)",
            "disk-has-keys": f"is_none(self.mbox) or subset(elems({MB}.msg_keys), {MB}.mailbox.g_keys)",
        },
        ensures={"idling-restored": "self.idling == old(self.idling)"},
        raises={"No": None, "Bad": None},
        exc_ensures={"idling-restored": "self.idling == old(self.idling)"},
        modifies=["self.idling", "self.pending_notifications", "ClientProxy.g_out", "*.pending_notifications", "IMAPClientCommand.completed",
                  "Mailbox.msg_keys", "Mailbox.uids", "Mailbox.num_msgs", "Mailbox.num_recent", "Mailbox._msg_key_to_idx", "Mailbox._uid_to_idx", "Mailbox.sequences",
                  "Mailbox.optional_resync", "MH.g_keys", "MH.g_seqs", "Mailbox.g_db_seqs", "Mailbox.g_db_exists", "Mailbox.g_db_uid_vv", "Mailbox.g_db_next_uid", "Mailbox.g_db_uids",
                  "Mailbox.g_db_msg_keys", "Mailbox.g_db_subscribed", "Mailbox.g_db_num_msgs"],
        ghost={"call_asserts": {"expunge": {
            # C05 / C15 (f): UID EXPUNGE restricts to exactly the UIDs of the resolved positions; plain EXPUNGE passes no restriction
            "uid-form-passes-the-resolved-uids": f"implies(cmd.uid_command, not is_none(uid_msg_set) and forall(lambda u: (u in some(uid_msg_set)) == "
                                                 f"exists(lambda x: (not is_none(cmd.msg_set_as_set)) and x in some(cmd.msg_set_as_set) and {MB}.uids[x - 1] == u)))",
            "plain-form-unrestricted": "implies(not cmd.uid_command, is_none(uid_msg_set))",
        }}},
        is_async=True,
        props=["C06", "C05", "C15", "C01"],
    )

    # ---- Authenticated.do_select (C01): the queue of the previous selection is dropped BEFORE the new snapshot is taken ----
    reg.contract(
        C, "Authenticated.do_select",
        params={"self": "ref:Authenticated", "cmd": "ref:IMAPClientCommand", "examine": "bool"}, ret="opt[str]",
        requires={"from-parser": "cmd.mailbox_name == '' or safe_rel(rel_name(cmd.mailbox_name))",
                  "has-server": "not is_none(self.server)",
                  # a session is registered with a mailbox only while it has that mailbox selected (established by selected()/unselected(), do_close, do_unselect)
                  "registered-only-where-selected": "forall(lambda m: implies(self.client.name in m.clients, self.state == ClientState.SELECTED and not is_none(self.mbox) and some(self.mbox) == m), 'ref:Mailbox')"},
        ensures={
            # what the session is told on a successful SELECT is exactly the snapshot selected() took
            "selected-state": "implies(not is_none(result), self.state == ClientState.SELECTED and not is_none(self.mbox) and self.examine == examine)",
            "mode-code": "implies(not is_none(result), some(result) == ite(examine, '[READ-ONLY]', '[READ-WRITE]'))",
            "not-idling": "not self.idling",
        },
        raises={"No": None, "Bad": None, "NoSuchMailbox": None},
        # "even if the attempt fails, [SELECT] deselects any already selected mailbox"
        exc_ensures={"deselected-on-failure": "self.state != ClientState.SELECTED", "not-idling": "not self.idling"},
        modifies=["self.pending_notifications", "self.idling", "self.state", "self.mbox", "self.examine", "self.select_while_selected_count",
                  "Mailbox.clients", "ClientProxy.g_out"],
        ghost={
            "harness": "harness.e2e:ViewReplay",
            "assume_pre_of": {"selected": ["fresh-client"]},
            "call_asserts": {"selected": {
                # replaying the new view starts from this snapshot: nothing queued for the previous selection may survive into it
                "queue-empty-at-snapshot": "arg_client == self and len(self.pending_notifications) == 0",
                # ... and while this SELECT waited for its turn the session was registered nowhere (re-SELECT of the same mailbox included): no
                # notification computed against the old view can have been queued for it behind the `pending_notifications = []` above
                "registered-nowhere-while-waiting": "forall(lambda m: self.client.name not in m.clients, 'ref:Mailbox')",
            }},
        },
        is_async=True,
        props=["C01"],
    )

    # ---- mailbox names in LIST / LSUB / STATUS responses (C07 c, e) ---------------------------------------------------------
    reg.specfn("cquoted", "s: str", "str", doc="client.quoted: the IMAP quoted form of s (bounded tier harness.fetchdata:NameQuoting)")
    WFQ = r'''r'"([^"\\\r\n]|\\[\\"])*"' '''.strip()
    reg.contract(C, "quoted", params={"value": "str"}, ret="str",
                 ensures={"is": "result == cquoted(value)", "well-formed-unless-crlf": f"implies(matches(value, r'[^\\r\\n]*'), matches(result, {WFQ}))"},
                 trusted=True, note="two chained replace_all calls, undecided by z3 and cvc5 against the quoted-string grammar: exhaustive bounded check instead (harness.fetchdata:NameQuoting)")
    reg.contract(
        C, "Authenticated._fmt_list_response", params={"mbox_name": "str", "attributes": "set[str]", "child_info": "opt[set[str]]"}, ret="str",
        ensures={
            "one-line": r"result.endswith('\r\n') and result.startswith('* LIST (')",
            # the name is sent as the escaped quoted string, directly after the hierarchy delimiter
            "name-quoted": r"""result == '* LIST (' + local('attrs_str') + ') "/" ' + cquoted(mbox_name) + '\r\n' or """
                           r"""(result.startswith('* LIST (' + local('attrs_str') + ') "/" ' + cquoted(mbox_name) + ' ("CHILDINFO" (') and result.endswith('))\r\n'))""",
        },
        props=["C07"],
        ghost={"harness": "harness.fetchdata:NameQuoting"},
    )
    reg.properties.setdefault("C07", {}).setdefault("bounded", []).append(
        {"name": "mailbox-name-quoting", "module": "harness.fetchdata", "func": "NameQuoting"})

    # ---- the gate of the sequence-numbered commands (C01): no EXPUNGE reaches a session while its non-UID FETCH / STORE / SEARCH runs ----
    HAS_EXP = f"exists(lambda j: 0 <= j and j < len(old({PN})) and 'EXPUNGE' in old({PN})[j])"
    NEWOUT = "len(old(self.client.g_out)) <= i and i < len(self.client.g_out)"
    # C05 (e): a session that opened the mailbox with EXAMINE changes no flag -- STORE never reaches the mailbox, and a body fetch is a peek
    EXTRA = {
        "do_store": {"read-only-session-never-stores": "not self.examine"},
        "do_fetch": {"read-only-session-only-peeks": "implies(self.examine, cmd.fetch_peek and forall(lambda j: implies(0 <= j and j < len(cmd.fetch_atts), cmd.fetch_atts[j].peek)))"},
        "do_search": {},
    }
    MODS = {"do_fetch": ["FetchAtt.peek", "cmd.fetch_peek"], "do_store": [], "do_search": []}
    for fn in ("do_fetch", "do_store", "do_search"):
        reg.contract(
            C, f"Authenticated.{fn}", params={"self": "ref:Authenticated", "cmd": "ref:IMAPClientCommand"},
            raises={"No": None, "Bad": None},
            # refused with NO: nothing was sent, nothing dropped from the queue
            exc_ensures={"refusal-sends-nothing": f"implies(raised('No') and (not cmd.uid_command) and self.state == ClientState.SELECTED and not is_none(self.mbox) and {HAS_EXP}, "
                                                  f"same(self.client.g_out, old(self.client.g_out)) and same({PN}, old({PN})))"},
            modifies=["self.pending_notifications", "self.fetch_while_pending_count", "ClientProxy.g_out"] + MODS[fn],
            loops=({0: {"invariant": {"peeks-so-far": "forall(lambda j: implies(0 <= j and j < _i, _it[j].peek))"}}} if fn == "do_fetch" else {}),
            ghost={"cut": {"before_with": r"cmd\.ready_and_okay\(self\.mbox\)", "asserts": {
                # the command proper starts only when no EXPUNGE is queued for this session ...
                "no-expunge-queued-when-it-runs": f"implies(not cmd.uid_command, forall(lambda j: implies(0 <= j and j < len({PN}), 'EXPUNGE' not in {PN}[j])))",
                # ... and, for the sequence-numbered form, none has been sent on the way in either
                "no-expunge-sent-on-entry": f"implies(not cmd.uid_command, forall(lambda i: implies({NEWOUT}, 'EXPUNGE' not in self.client.g_out[i])))",
                "selected": "self.state == ClientState.SELECTED and not is_none(self.mbox)",
                **EXTRA[fn],
            }}},
            is_async=True,
            props=["C01", "C05"] if EXTRA[fn] else ["C01"],
            note="verified up to the point where the command queues on the mailbox (cut at `async with cmd.ready_and_okay(self.mbox)`): the gate in front of the command body",
        )

    # ---- Authenticated.do_close (C05, C01): CLOSE of an EXAMINEd mailbox removes nothing; otherwise a plain, silent EXPUNGE -------------
    reg.contract(
        C, "Authenticated.do_close", params={"self": "ref:Authenticated", "cmd": "ref:IMAPClientCommand"},
        requires={"disk-has-keys": f"is_none(self.mbox) or subset(elems({MB}.msg_keys), {MB}.mailbox.g_keys)"},
        ensures={
            "back-to-authenticated": "self.state == ClientState.AUTHENTICATED and is_none(self.mbox)",
            "queue-dropped": "implies(self.examine or is_none(old(self.mbox)), len(self.pending_notifications) == 0)",
            # the session is no longer registered with the mailbox it had selected: no further notifications reach it
            "unregistered": "implies(not is_none(old(self.mbox)), self.name not in some(old(self.mbox)).clients)",
            # read-only selection: nothing is removed, in memory or in the folder
            "examine-removes-nothing": "implies(self.examine and not is_none(old(self.mbox)), same(some(old(self.mbox)).msg_keys, old(some(self.mbox).msg_keys)) and "
                                       "same(some(old(self.mbox)).uids, old(some(self.mbox).uids)) and some(old(self.mbox)).mailbox.g_keys == old(some(self.mbox).mailbox.g_keys))",
            # no untagged response is sent to the closing session
            "silent": "implies(self.examine or is_none(old(self.mbox)), same(self.client.g_out, old(self.client.g_out)))",
        },
        raises={"No": None, "Bad": None},
        exc_ensures={"refused-before-selected": "implies(old(self.state) != ClientState.SELECTED, same(self.pending_notifications, old(self.pending_notifications)) and self.state == old(self.state))"},
        modifies=["self.pending_notifications", "self.state", "self.mbox", "Mailbox.clients", "*.pending_notifications", "ClientProxy.g_out", "IMAPClientCommand.completed",
                  "Mailbox.msg_keys", "Mailbox.uids", "Mailbox.num_msgs", "Mailbox.num_recent", "Mailbox._msg_key_to_idx", "Mailbox._uid_to_idx", "Mailbox.sequences",
                  "Mailbox.optional_resync", "MH.g_keys", "MH.g_seqs", "Mailbox.g_db_seqs", "Mailbox.g_db_exists", "Mailbox.g_db_uid_vv", "Mailbox.g_db_next_uid", "Mailbox.g_db_uids",
                  "Mailbox.g_db_msg_keys", "Mailbox.g_db_subscribed", "Mailbox.g_db_num_msgs"],
        ghost={"call_asserts": {"expunge": {
            # CLOSE expunges like a plain EXPUNGE: every \\Deleted message, no UID restriction -- and never for a read-only selection
            "plain-expunge-only": "is_none(arg_uid_msg_set) and arg_check_deleted",
            "never-when-examined": "not self.examine",
        }}},
        is_async=True,
        props=["C05", "C01"],
    )

    # ---- Authenticated.do_append (C02 d, C04 d): the message goes to append() with exactly the parsed flags and date; APPENDUID reports what append returned ----
    reg.contract(
        C, "Authenticated.do_append", params={"self": "ref:Authenticated", "cmd": "ref:IMAPClientCommand"}, ret="str",
        requires={"from-parser": "cmd.mailbox_name == '' or safe_rel(rel_name(cmd.mailbox_name))", "has-server": "not is_none(self.server)"},
        ensures={"appenduid": "exists(lambda m, u: result == '[APPENDUID ' + str(m.uid_vv) + ' ' + str(u) + ']' and u < m.next_uid and u >= 1, 'ref:Mailbox', 'int')"},
        raises={"No": None, "Bad": None},
        modifies=["self.pending_notifications", "ClientProxy.g_out", "*.pending_notifications", "IMAPClientCommand.completed",
                  "Mailbox.last_resync", "Mailbox.mtime", "Mailbox.optional_resync", "Mailbox.msg_keys", "Mailbox.uids", "Mailbox.num_msgs", "Mailbox.num_recent", "Mailbox.sequences", "Mailbox.next_uid",
                  "Mailbox._msg_key_to_idx", "Mailbox._uid_to_idx", "Mailbox.attributes", "MH.g_seqs", "MH.g_keys", "MH.g_content",
                  "Mailbox.g_db_seqs", "Mailbox.g_db_exists", "Mailbox.g_db_uid_vv", "Mailbox.g_db_next_uid", "Mailbox.g_db_uids", "Mailbox.g_db_msg_keys", "Mailbox.g_db_subscribed", "Mailbox.g_db_num_msgs"],
        ghost={"assume_pre_of": ["append"],
               "call_asserts": {"append": {
                   "stores-the-parsed-message": "arg_msg == cmd.message",
                   "with-the-parsed-flags": "not is_none(arg_flags) and same(some(arg_flags), cmd.flag_list)",
                   "and-the-parsed-date": "arg_date_time == cmd.date_time",
               }}},
        is_async=True,
        props=["C02", "C04"],
        note="the preconditions of Mailbox.append (environment assumption E1, folder and memory in step) are assumed at the call site",
    )

    # ---- Authenticated.do_status (C02 b, C12): STATUS reports the mailbox's own counters, one item per requested attribute, in order ----
    def _item(att, text):
        return f"implies(cmd.status_att_list[j] == StatusAtt.{att}, local('result')[j] == {text})"
    ITEMS = " and ".join([
        _item("MESSAGES", "'MESSAGES ' + str(local('mbox').num_msgs)"), _item("RECENT", "'RECENT ' + str(local('mbox').num_recent)"),
        _item("UIDNEXT", "'UIDNEXT ' + str(local('mbox').next_uid)"), _item("UIDVALIDITY", "'UIDVALIDITY ' + str(local('mbox').uid_vv)"),
        _item("UNSEEN", "'UNSEEN ' + str(card(get(local('mbox').sequences, 'unseen')))")])
    ITEMS_INV = ITEMS.replace("local('result')", "result").replace("local('mbox')", "mbox")
    reg.contract(
        C, "Authenticated.do_status", params={"self": "ref:Authenticated", "cmd": "ref:IMAPClientCommand"},
        requires={"from-parser": "cmd.mailbox_name == '' or safe_rel(rel_name(cmd.mailbox_name))", "has-server": "not is_none(self.server)"},
        ensures={
            "one-item-per-attribute": f"len(local('result')) == len(cmd.status_att_list) and forall(lambda j: implies(0 <= j and j < len(cmd.status_att_list), {ITEMS}))",
            "status-line": "len(self.client.g_out) >= 1 and self.client.g_out[len(self.client.g_out) - 1] == '* STATUS ' + cquoted(cmd.mailbox_name) + ' (' + ' '.join(local('result')) + ')\\r\\n'",
        },
        raises={"No": None, "Bad": None, "NoSuchMailbox": None},
        loops={0: {"invariant": {
            "items-so-far": f"len(result) == _i and forall(lambda j: implies(0 <= j and j < _i, {ITEMS_INV}))",
            "counters-untouched": "same(mbox.sequences, lpre(mbox.sequences)) or forall(lambda k: (k in get(mbox.sequences, 'unseen')) == (k in get(lpre(mbox.sequences), 'unseen')))",
        }}},
        locals_={"result": "list[str]"},
        modifies=["self.pending_notifications", "ClientProxy.g_out", "Mailbox.sequences", "IMAPClientCommand.completed"],
        is_async=True,
        props=["C02", "C12"],
    )

    # ---- Authenticated.do_copy / do_move (C05, C10, C15): the parsed set, mailbox and UID-ness are what copy() gets; MOVE removes exactly what was copied ----
    reg.contract(C, "Authenticated._format_copyuid", params={"self": "ref:Authenticated", "dest_mbox": "ref:Mailbox", "src_uids": "list[int]", "dst_uids": "list[int]"}, ret="str",
                 trusted=True, note="string builder for the COPYUID response code (not under contract)")
    COPY_ARGS = {
        "copies-the-parsed-set": "not is_none(cmd.msg_set) and same(arg_msg_set, some(cmd.msg_set))",
        "uid-form-as-parsed": "arg_uid_command == cmd.uid_command",
        # the command itself is handed over, so that copy() can release the source mailbox before it queues on the destination (C10)
        "hands-over-the-command": "not is_none(arg_imap_cmd) and some(arg_imap_cmd) == cmd",
        "from-the-selected-mailbox": "not is_none(self.mbox) and arg_self == some(self.mbox)",
    }
    COMMON_MOD = ["self.pending_notifications", "self.idling", "ClientProxy.g_out", "*.pending_notifications", "IMAPClientCommand.completed", "IMAPClientCommand.command",
                  "Mailbox.msg_keys", "Mailbox.uids", "Mailbox.num_msgs", "Mailbox.num_recent", "Mailbox._msg_key_to_idx", "Mailbox._uid_to_idx", "Mailbox.sequences",
                  "Mailbox.optional_resync", "MH.g_keys", "MH.g_seqs", "Mailbox.g_db_seqs", "Mailbox.g_db_exists", "Mailbox.g_db_uid_vv", "Mailbox.g_db_next_uid", "Mailbox.g_db_uids",
                  "Mailbox.g_db_msg_keys", "Mailbox.g_db_subscribed", "Mailbox.g_db_num_msgs"]
    reg.contract(
        C, "Authenticated.do_copy", params={"self": "ref:Authenticated", "cmd": "ref:IMAPClientCommand"}, ret="opt[str]",
        requires={"from-parser": "cmd.mailbox_name == '' or safe_rel(rel_name(cmd.mailbox_name))", "has-server": "not is_none(self.server)",
                  "parsed-set": "not is_none(cmd.msg_set)"},
        raises={"No": None, "Bad": None, "MailboxInconsistency": None},
        modifies=COMMON_MOD,
        ghost={"assume_pre_of": ["copy"], "call_asserts": {"copy": COPY_ARGS}},
        is_async=True,
        props=["C05", "C10", "C15"],
        note="Mailbox.copy's own preconditions (well-formed set: established by the parser's _p_msg_set contract; non-empty mailbox) are assumed at the call site",
    )
    reg.contract(
        C, "Authenticated.do_move", params={"self": "ref:Authenticated", "cmd": "ref:IMAPClientCommand"}, ret="opt[str]",
        requires={"from-parser": "cmd.mailbox_name == '' or safe_rel(rel_name(cmd.mailbox_name))", "has-server": "not is_none(self.server)",
                  "parsed-set": "not is_none(cmd.msg_set)"},
        ensures={"idling-restored": "self.idling == old(self.idling)"},
        raises={"No": None, "Bad": None, "MailboxInconsistency": None},
        exc_ensures={"idling-restored": "self.idling == old(self.idling)"},
        modifies=COMMON_MOD,
        ghost={"assume_pre_of": ["copy", "expunge"],
               "call_asserts": {"copy": COPY_ARGS, "expunge": {
                   # MOVE removes exactly the messages whose UIDs copy() reported as copied, whether or not they carry \\Deleted
                   "removes-what-was-copied": "not is_none(arg_uid_msg_set) and forall(lambda u: (u in some(arg_uid_msg_set)) == exists(lambda j: 0 <= j and j < len(src_uids) and (not is_none(src_uids[j])) and some(src_uids[j]) == u))",
                   "regardless-of-deleted": "not arg_check_deleted",
                   "on-the-source-mailbox": "not is_none(self.mbox) and arg_self == some(self.mbox)",
               }}},
        is_async=True,
        props=["C05", "C10"],
        note="read-only selection refused; the preconditions of copy() and expunge() are assumed at the call sites",
    )

    # ---- the synchronisation points (C01): NOOP, IDLE and DONE deliver everything that is queued, in order, and leave the queue empty ----
    OUTB = "self.client.g_out"
    reg.contract(
        C, "BaseClientHandler.do_noop", params={"self": "ref:BaseClientHandler", "cmd": "ref:IMAPClientCommand"},
        ensures={"flushed-when-selected": f"implies(not is_none(self.mbox), appended({OUTB}, old({OUTB}), old({PN})) and len({PN}) == 0)",
                 "nothing-otherwise": f"implies(is_none(self.mbox), same({OUTB}, old({OUTB})) and same({PN}, old({PN})))"},
        raises={"No": None, "Bad": None},
        exc_ensures={"refused-sends-nothing": f"same({OUTB}, old({OUTB})) and same({PN}, old({PN}))"},
        modifies=["self.pending_notifications", "ClientProxy.g_out"],
        is_async=True, props=["C01"],
    )
    reg.contract(
        C, "BaseClientHandler.do_idle", params={"self": "ref:BaseClientHandler", "cmd": "ref:IMAPClientCommand"}, ret="bool",
        ensures={
            "continuation-then-queue": f"len({OUTB}) == len(old({OUTB})) + 1 + len(old({PN})) and {OUTB}[len(old({OUTB}))] == '+ idling\\r\\n' and "
                                       f"forall(lambda i: implies(0 <= i and i < len(old({PN})), {OUTB}[len(old({OUTB})) + 1 + i] == old({PN})[i])) and "
                                       f"forall(lambda i: implies(0 <= i and i < len(old({OUTB})), {OUTB}[i] == old({OUTB})[i]))",
            "queue-empty-and-idling": f"len({PN}) == 0 and self.idling",
            "reply-deferred": "result == False",
        },
        modifies=["self.pending_notifications", "self.idling", "ClientProxy.g_out"],
        is_async=True, props=["C01", "C06"],
    )
    reg.contract(
        C, "BaseClientHandler.do_done", params={"self": "ref:BaseClientHandler", "cmd": "opt[ref:IMAPClientCommand]"},
        requires={"idle-was-tagged": "not is_none(self.tag)"},
        ensures={
            "one-line-after-the-queue": f"len({OUTB}) == len(old({OUTB})) + len(old({PN})) + 1",
            "tagged-ok-last": f"{OUTB}[len({OUTB}) - 1] == some(self.tag) + ' OK IDLE terminated\\r\\n'",
            "queue-in-order": f"forall(lambda i: implies(0 <= i and i < len(old({OUTB})) + len(old({PN})), {OUTB}[i] == ite(i < len(old({OUTB})), old({OUTB})[i], old({PN})[i - len(old({OUTB}))])))",
            "queue-empty-not-idling": f"len({PN}) == 0 and not self.idling",
        },
        modifies=["self.pending_notifications", "self.idling", "ClientProxy.g_out"],
        # writing to the client is a suspension point: while the tagged OK is on its way the session must already count as not idling,
        # or another session's EXPUNGE would be written straight to it behind the tagged line, outside of any command (C06: tagged line last)
        ghost={"call_asserts": {"push": {"no-longer-idling-when-the-tagged-line-is-written": "not self.idling"}}},
        is_async=True, props=["C01", "C06"],
    )
    reg.contract(
        C, "Authenticated.do_unselect", params={"self": "ref:Authenticated", "cmd": "ref:IMAPClientCommand"},
        ensures={"deselected": f"self.state == ClientState.AUTHENTICATED and is_none(self.mbox) and len({PN}) == 0 and not self.idling",
                 "unregistered": "implies(not is_none(old(self.mbox)), self.client.name not in some(old(self.mbox)).clients)"},
        raises={"Bad": "self.state != ClientState.SELECTED"},
        exc_ensures={"untouched": f"self.state == old(self.state) and same({PN}, old({PN}))"},
        modifies=["self.pending_notifications", "self.idling", "self.state", "self.mbox", "self.select_while_selected_count", "Mailbox.clients"],
        is_async=True, props=["C01"],
    )

    # ---- thin handlers: the parsed arguments are what the mailbox operation gets (C17, C09, C01) ---------------------------------
    SUBS_MOD = ["self.pending_notifications", "ClientProxy.g_out", "Mailbox.subscribed", "Mailbox.sequences", "Mailbox.g_db_seqs", "Mailbox.g_db_exists", "Mailbox.g_db_uid_vv",
                "Mailbox.g_db_next_uid", "Mailbox.g_db_uids", "Mailbox.g_db_msg_keys", "Mailbox.g_db_subscribed", "Mailbox.g_db_num_msgs"]
    for fn, val in (("do_subscribe", "True"), ("do_unsubscribe", "False")):
        reg.contract(
            C, f"Authenticated.{fn}", params={"self": "ref:Authenticated", "cmd": "ref:IMAPClientCommand"},
            requires={"from-parser": "cmd.mailbox_name == '' or safe_rel(rel_name(cmd.mailbox_name))", "has-server": "not is_none(self.server)"},
            raises={"NoSuchMailbox": None},
            ghost={"call_asserts": {"commit_to_db": {
                # the subscription bit of the named mailbox is set and then committed
                "bit-set-before-commit": f"arg_self.subscribed == {val}",
            }}},
            modifies=SUBS_MOD, is_async=True, props=["C17"],
        )
    reg.contract(
        C, "Authenticated.do_examine", params={"self": "ref:Authenticated", "cmd": "ref:IMAPClientCommand"}, ret="opt[str]",
        requires={"from-parser": "cmd.mailbox_name == '' or safe_rel(rel_name(cmd.mailbox_name))", "has-server": "not is_none(self.server)",
                  "registered-only-where-selected": "forall(lambda m: implies(self.client.name in m.clients, self.state == ClientState.SELECTED and not is_none(self.mbox) and some(self.mbox) == m), 'ref:Mailbox')"},
        raises={"No": None, "Bad": None, "NoSuchMailbox": None},
        ghost={"call_asserts": {"do_select": {"read-only": "arg_examine and arg_cmd == cmd"}}},
        modifies=["self.pending_notifications", "self.idling", "self.state", "self.mbox", "self.examine", "self.select_while_selected_count", "Mailbox.clients", "ClientProxy.g_out"],
        is_async=True, props=["C05", "C01"],
    )
    for fn, callee, args in (("do_create", "create", {"name": "cmd.mailbox_name"}), ("do_delete", "delete", {"name": "cmd.mailbox_name"}),
                             ("do_rename", "rename", {"old_name": "cmd.mailbox_src_name", "new_name": "cmd.mailbox_dst_name"})):
        names = list(args.values())
        reg.contract(
            C, f"Authenticated.{fn}", params={"self": "ref:Authenticated", "cmd": "ref:IMAPClientCommand"},
            requires={**{f"from-parser-{i}": f"{n} == '' or safe_rel(rel_name({n}))" for i, n in enumerate(names)}, "has-server": "not is_none(self.server)"},
            raises={"No": None, "Bad": None, "NoSuchMailbox": None, "InvalidMailbox": None, "MailboxExists": None, "MailboxException": None},
            ghost={"call_asserts": {callee: {f"operates-on-the-parsed-name-{p}": f"arg_{p} == {v}" for p, v in args.items()} | {"on-this-server": "arg_server == some(self.server)"}}},
            modifies=["self.pending_notifications", "ClientProxy.g_out", "IMAPClientCommand.completed"],
            is_async=True, props=["C17", "C09"],
        )
