"""asimap/client.py -- BaseClientHandler.command: exactly one tagged reply, last, CRLF-terminated (C06 a, C07 a)."""


def declare(reg):
    C = "asimap/client.py"
    # DESIGN 2.1 rule 6: per-command statistics counters are dropped by the extraction
    reg.dropped_stmts += [
        r"if self\.server and imap_command\.command:\n\s+self\.server\.(num_rcvd_commands|num_failed_commands)\[imap_command\.command\] \+= 1",
        r"if self\.server and imap_command\.command:\n\s+self\.server\.command_durations\[imap_command\.command\]\.append\(\s*cmd_duration\s*\)",
    ]
    reg.dynamic_dispatch[r"getattr\(self, f'do_\{imap_command\.command\}'\)\(imap_command\)"] = "BaseClientHandler.do_any"
    reg.specfn("tagged", "line: str, tag: str", "bool", "line.startswith(tag + ' ')", doc="a tagged response line of this command")
    NEW = "len(old(self.client.g_out)) <= i and i < len(self.client.g_out)"
    reg.contract(
        C, "BaseClientHandler.do_any",
        params={"self": "ref:BaseClientHandler", "imap_command": "ref:IMAPClientCommand"}, ret="HandlerResult",
        ensures={
            "only-untagged": f"forall(lambda i: implies({NEW}, not tagged(self.client.g_out[i], imap_command.tag)))",
            "keeps-earlier": "len(self.client.g_out) >= len(old(self.client.g_out)) and forall(lambda i: implies(0 <= i and i < len(old(self.client.g_out)), self.client.g_out[i] == old(self.client.g_out)[i]))",
            "same-connection": "self.client == old(self.client)",
        },
        exc_ensures={
            "only-untagged": f"forall(lambda i: implies({NEW}, not tagged(self.client.g_out[i], imap_command.tag)))",
            "keeps-earlier": "len(self.client.g_out) >= len(old(self.client.g_out)) and forall(lambda i: implies(0 <= i and i < len(old(self.client.g_out)), self.client.g_out[i] == old(self.client.g_out)[i]))",
            "same-connection": "self.client == old(self.client)",
        },
        raises={"No": None, "Bad": None, "TimeoutError": None, "ConnectionResetError": None, "CancelledError": None, "KeyboardInterrupt": None, "Exception": None},
        modifies=["ClientProxy.g_out", "self.mbox", "self.state", "self.server", "IMAPClientCommand.completed", "*.pending_notifications"],
        trusted=True, yields=True,
        note="abstraction of every do_<command> handler reached through getattr: returns None | False | str or raises; assumed to push only untagged lines "
             "(the tagged line is command()'s job) -- cross-checked by the bounded end-to-end oracle harness.e2e:Answered",
    )
    G = "self.client.g_out"
    N0 = f"len(old({G}))"
    reg.contract(
        C, "BaseClientHandler.command",
        params={"self": "ref:BaseClientHandler", "imap_command": "ref:IMAPClientCommand"},
        requires={"tag-non-empty": "len(imap_command.tag) > 0"},
        ensures={
            # (a) at most one tagged line, and it comes after all untagged data of the command
            "tagged-only-last": f"forall(lambda i: implies({N0} <= i and i < len({G}) - 1, not tagged({G}[i], imap_command.tag)))",
            # exactly one unless the handler asked for a deferred reply (IDLE returns False; DONE answers later)
            "answered": f"implies(not isinstance(local('result', None), bool), len({G}) > {N0} and tagged({G}[len({G}) - 1], imap_command.tag))",
            "status-word": f"implies(len({G}) > {N0} and tagged({G}[len({G}) - 1], imap_command.tag), "
                           f"{G}[len({G}) - 1].startswith(imap_command.tag + ' OK ') or {G}[len({G}) - 1].startswith(imap_command.tag + ' NO ') or {G}[len({G}) - 1].startswith(imap_command.tag + ' BAD '))",
            # C07 (a): the tagged line is a complete CRLF-terminated line
            "reply-ends-crlf": f"implies(len({G}) > {N0} and tagged({G}[len({G}) - 1], imap_command.tag), {G}[len({G}) - 1].endswith('\\r\\n'))",
            "earlier-output-kept": f"len({G}) >= {N0} and forall(lambda i: implies(0 <= i and i < {N0}, {G}[i] == old({G})[i]))",
        },
        raises={"ConnectionResetError": None, "CancelledError": None, "SystemExit": None, "Exception": None},
        exc_ensures={
            "tagged-only-last": f"forall(lambda i: implies({N0} <= i and i < len({G}) - 1, not tagged({G}[i], imap_command.tag)))",
            "reply-ends-crlf": f"implies(len({G}) > {N0} and tagged({G}[len({G}) - 1], imap_command.tag), {G}[len({G}) - 1].endswith('\\r\\n'))",
        },
        modifies=["ClientProxy.g_out", "self.tag", "self.mbox", "self.state", "self.server", "IMAPClientCommand.timeout_cm", "IMAPClientCommand.completed", "*.pending_notifications"],
        is_async=True,
        props=["C06", "C07"],
        ghost={"harness": "harness.e2e:Answered"},
    )

    reg.properties.setdefault("C06", {}).setdefault("bounded", []).append(
        {"name": "answered-e2e", "module": "harness.e2e", "func": "Answered"})

    # ---- C01: the gate for non-UID FETCH/STORE/SEARCH and the flush -------------------------------------------
    PN = "self.pending_notifications"
    reg.contract(
        C, "BaseClientHandler.pending_expunges", params={"self": "ref:BaseClientHandler"}, ret="bool",
        # true exactly when ANY queued notification is an EXPUNGE (not just the last one)
        ensures={"any-expunge": f"result == exists(lambda j: 0 <= j and j < len({PN}) and 'EXPUNGE' in {PN}[j])"},
        props=["C01"],
    )
    reg.contract(
        C, "BaseClientHandler.send_pending_notifications", params={"self": "ref:BaseClientHandler"},
        ensures={
            # everything queued is sent, in order, and the queue is emptied (the synchronisation point of NOOP/CHECK/...)
            "flushed-in-order": f"appended(self.client.g_out, old(self.client.g_out), old({PN})) and len({PN}) == 0",
        },
        modifies=["self.pending_notifications", "ClientProxy.g_out"],
        is_async=True,
        props=["C01"],
    )

    # ---- Authenticated.do_expunge (C06: the 'pretend idling' flag is always restored; C05/C15 f: UID restriction) -------
    reg.contract(C, "Authenticated.unceremonious_bye", params={"self": "ref:Authenticated", "msg": "str"}, trusted=True, yields=True,
                 modifies=["ClientProxy.g_out"], note="assumed: sends BYE and closes; touches no mailbox state")
    reg.contract(C, "Authenticated.send_pending_notifications", params={"self": "ref:Authenticated"}, trusted=True, yields=True,
                 ensures={"flushed-in-order": f"appended(self.client.g_out, old(self.client.g_out), old({PN})) and len({PN}) == 0"},
                 modifies=["self.pending_notifications", "ClientProxy.g_out"], note="inherited: same body as BaseClientHandler.send_pending_notifications (verified there, same postcondition)")
    reg.contract(C, "Authenticated.pending_expunges", params={"self": "ref:Authenticated"}, ret="bool", trusted=True,
                 ensures={"any-expunge": f"result == exists(lambda j: 0 <= j and j < len({PN}) and 'EXPUNGE' in {PN}[j])"},
                 note="inherited: same body as BaseClientHandler.pending_expunges (verified there, same postcondition)")
    MB = "some(self.mbox)"
    reg.contract(
        C, "Authenticated.do_expunge",
        params={"self": "ref:Authenticated", "cmd": "ref:IMAPClientCommand"},
        requires={
            # what the management task's resolution guarantees (msg_set_to_msg_seq_set: positions of existing messages)
            "resolved-in-range": f"is_none(self.mbox) or is_none(cmd.msg_set_as_set) or forall(lambda x: implies(x in some(cmd.msg_set_as_set), 1 <= x and x <= len({MB}.uids)))",
            "uids-ascending": f"is_none(self.mbox) or asc({MB}.uids)",
            "disk-has-keys": f"is_none(self.mbox) or subset(elems({MB}.msg_keys), {MB}.mailbox.g_keys)",
        },
        ensures={"idling-restored": "self.idling == old(self.idling)"},
        raises={"No": None, "Bad": None},
        exc_ensures={"idling-restored": "self.idling == old(self.idling)"},
        modifies=["self.idling", "self.pending_notifications", "ClientProxy.g_out", "*.pending_notifications", "IMAPClientCommand.completed",
                  "Mailbox.msg_keys", "Mailbox.uids", "Mailbox.num_msgs", "Mailbox.num_recent", "Mailbox._msg_key_to_idx", "Mailbox._uid_to_idx", "Mailbox.sequences",
                  "Mailbox.optional_resync", "MH.g_keys", "MH.g_seqs", "Mailbox.g_db_seqs", "Mailbox.g_db_exists", "Mailbox.g_db_uid_vv", "Mailbox.g_db_next_uid", "Mailbox.g_db_uids",
                  "Mailbox.g_db_msg_keys", "Mailbox.g_db_subscribed", "Mailbox.g_db_num_msgs"],
        ghost={"call_asserts": {"expunge": {
            # C05 / C15 (f): UID EXPUNGE restricts to exactly the UIDs of the resolved positions; plain EXPUNGE passes no restriction
            "uid-form-passes-the-resolved-uids": f"implies(cmd.uid_command, not is_none(uid_msg_set) and forall(lambda u: (u in some(uid_msg_set)) == "
                                                 f"exists(lambda x: (not is_none(cmd.msg_set_as_set)) and x in some(cmd.msg_set_as_set) and {MB}.uids[x - 1] == u)))",
            "plain-form-unrestricted": "implies(not cmd.uid_command, is_none(uid_msg_set))",
        }}},
        is_async=True,
        props=["C06", "C05", "C15"],
    )

    # ---- Authenticated.do_select (C01): the queue of the previous selection is dropped BEFORE the new snapshot is taken ----
    reg.contract(
        C, "Authenticated.do_select",
        params={"self": "ref:Authenticated", "cmd": "ref:IMAPClientCommand", "examine": "bool"}, ret="opt[str]",
        requires={"from-parser": "cmd.mailbox_name == '' or safe_rel(rel_name(cmd.mailbox_name))",
                  "has-server": "not is_none(self.server)"},
        ensures={
            # what the session is told on a successful SELECT is exactly the snapshot selected() took
            "selected-state": "implies(not is_none(result), self.state == ClientState.SELECTED and not is_none(self.mbox) and self.examine == examine)",
            "mode-code": "implies(not is_none(result), some(result) == ite(examine, '[READ-ONLY]', '[READ-WRITE]'))",
            "not-idling": "not self.idling",
        },
        raises={"No": None, "Bad": None, "NoSuchMailbox": None},
        # "even if the attempt fails, [SELECT] deselects any already selected mailbox"
        exc_ensures={"deselected-on-failure": "self.state != ClientState.SELECTED", "not-idling": "not self.idling"},
        modifies=["self.pending_notifications", "self.idling", "self.state", "self.mbox", "self.examine", "self.select_while_selected_count",
                  "Mailbox.clients", "ClientProxy.g_out"],
        ghost={
            "harness": "harness.e2e:ViewReplay",
            "assume_pre_of": {"selected": ["fresh-client"]},
            "call_asserts": {"selected": {
                # replaying the new view starts from this snapshot: nothing queued for the previous selection may survive into it
                "queue-empty-at-snapshot": "arg_client == self and len(self.pending_notifications) == 0",
            }},
        },
        is_async=True,
        props=["C01"],
    )

    # ---- mailbox names in LIST / LSUB / STATUS responses (C07 c, e) ---------------------------------------------------------
    reg.specfn("cquoted", "s: str", "str", doc="client.quoted: the IMAP quoted form of s (bounded tier harness.fetchdata:NameQuoting)")
    WFQ = r'''r'"([^"\\\r\n]|\\[\\"])*"' '''.strip()
    reg.contract(C, "quoted", params={"value": "str"}, ret="str",
                 ensures={"is": "result == cquoted(value)", "well-formed-unless-crlf": f"implies(matches(value, r'[^\\r\\n]*'), matches(result, {WFQ}))"},
                 trusted=True, note="two chained replace_all calls, undecided by z3 and cvc5 against the quoted-string grammar: exhaustive bounded check instead (harness.fetchdata:NameQuoting)")
    reg.contract(
        C, "Authenticated._fmt_list_response", params={"mbox_name": "str", "attributes": "set[str]", "child_info": "opt[set[str]]"}, ret="str",
        ensures={
            "one-line": r"result.endswith('\r\n') and result.startswith('* LIST (')",
            # the name is sent as the escaped quoted string, directly after the hierarchy delimiter
            "name-quoted": r"""result == '* LIST (' + local('attrs_str') + ') "/" ' + cquoted(mbox_name) + '\r\n' or """
                           r"""(result.startswith('* LIST (' + local('attrs_str') + ') "/" ' + cquoted(mbox_name) + ' ("CHILDINFO" (') and result.endswith('))\r\n'))""",
        },
        props=["C07"],
        ghost={"harness": "harness.fetchdata:NameQuoting"},
    )
    reg.properties.setdefault("C07", {}).setdefault("bounded", []).append(
        {"name": "mailbox-name-quoting", "module": "harness.fetchdata", "func": "NameQuoting"})

    # ---- the gate of the sequence-numbered commands (C01): no EXPUNGE reaches a session while its non-UID FETCH / STORE / SEARCH runs ----
    HAS_EXP = f"exists(lambda j: 0 <= j and j < len(old({PN})) and 'EXPUNGE' in old({PN})[j])"
    NEWOUT = "len(old(self.client.g_out)) <= i and i < len(self.client.g_out)"
    for fn in ("do_fetch", "do_store", "do_search"):
        reg.contract(
            C, f"Authenticated.{fn}", params={"self": "ref:Authenticated", "cmd": "ref:IMAPClientCommand"},
            raises={"No": None, "Bad": None},
            # refused with NO: nothing was sent, nothing dropped from the queue
            exc_ensures={"refusal-sends-nothing": f"implies(raised('No') and (not cmd.uid_command) and self.state == ClientState.SELECTED and not is_none(self.mbox) and {HAS_EXP}, "
                                                  f"same(self.client.g_out, old(self.client.g_out)) and same({PN}, old({PN})))"},
            modifies=["self.pending_notifications", "self.fetch_while_pending_count", "ClientProxy.g_out"],
            ghost={"cut": {"before_with": r"cmd\.ready_and_okay\(self\.mbox\)", "asserts": {
                # the command proper starts only when no EXPUNGE is queued for this session ...
                "no-expunge-queued-when-it-runs": f"implies(not cmd.uid_command, forall(lambda j: implies(0 <= j and j < len({PN}), 'EXPUNGE' not in {PN}[j])))",
                # ... and, for the sequence-numbered form, none has been sent on the way in either
                "no-expunge-sent-on-entry": f"implies(not cmd.uid_command, forall(lambda i: implies({NEWOUT}, 'EXPUNGE' not in self.client.g_out[i])))",
                "selected": "self.state == ClientState.SELECTED and not is_none(self.mbox)",
            }}},
            is_async=True,
            props=["C01"],
            note="verified up to the point where the command queues on the mailbox (cut at `async with cmd.ready_and_okay(self.mbox)`): the gate in front of the command body",
        )

    # ---- Authenticated.do_close (C05, C01): CLOSE of an EXAMINEd mailbox removes nothing; otherwise a plain, silent EXPUNGE -------------
    reg.contract(
        C, "Authenticated.do_close", params={"self": "ref:Authenticated", "cmd": "ref:IMAPClientCommand"},
        requires={"disk-has-keys": f"is_none(self.mbox) or subset(elems({MB}.msg_keys), {MB}.mailbox.g_keys)"},
        ensures={
            "back-to-authenticated": "self.state == ClientState.AUTHENTICATED and is_none(self.mbox)",
            "queue-dropped": "implies(self.examine or is_none(old(self.mbox)), len(self.pending_notifications) == 0)",
            # the session is no longer registered with the mailbox it had selected: no further notifications reach it
            "unregistered": "implies(not is_none(old(self.mbox)), self.name not in some(old(self.mbox)).clients)",
            # read-only selection: nothing is removed, in memory or in the folder
            "examine-removes-nothing": "implies(self.examine and not is_none(old(self.mbox)), same(some(old(self.mbox)).msg_keys, old(some(self.mbox).msg_keys)) and "
                                       "same(some(old(self.mbox)).uids, old(some(self.mbox).uids)) and some(old(self.mbox)).mailbox.g_keys == old(some(self.mbox).mailbox.g_keys))",
            # no untagged response is sent to the closing session
            "silent": "implies(self.examine or is_none(old(self.mbox)), same(self.client.g_out, old(self.client.g_out)))",
        },
        raises={"No": None, "Bad": None},
        exc_ensures={"refused-before-selected": "implies(old(self.state) != ClientState.SELECTED, same(self.pending_notifications, old(self.pending_notifications)) and self.state == old(self.state))"},
        modifies=["self.pending_notifications", "self.state", "self.mbox", "Mailbox.clients", "*.pending_notifications", "ClientProxy.g_out", "IMAPClientCommand.completed",
                  "Mailbox.msg_keys", "Mailbox.uids", "Mailbox.num_msgs", "Mailbox.num_recent", "Mailbox._msg_key_to_idx", "Mailbox._uid_to_idx", "Mailbox.sequences",
                  "Mailbox.optional_resync", "MH.g_keys", "MH.g_seqs", "Mailbox.g_db_seqs", "Mailbox.g_db_exists", "Mailbox.g_db_uid_vv", "Mailbox.g_db_next_uid", "Mailbox.g_db_uids",
                  "Mailbox.g_db_msg_keys", "Mailbox.g_db_subscribed", "Mailbox.g_db_num_msgs"],
        ghost={"call_asserts": {"expunge": {
            # CLOSE expunges like a plain EXPUNGE: every \\Deleted message, no UID restriction -- and never for a read-only selection
            "plain-expunge-only": "is_none(arg_uid_msg_set) and arg_check_deleted",
            "never-when-examined": "not self.examine",
        }}},
        is_async=True,
        props=["C05", "C01"],
    )
