"""Persistence of the mailbox row: shutdown commits, restore reads back (C12), wake-up of queued commands on shutdown (C06)."""


def declare(reg):
    P = "asimap/mbox.py"
    T = dict(trusted=True)
    ROW = "tuple[int,int,str,int,int,int,int,str,str,float,bool]"
    # codec (bounded tier harness.persist:Codec checks the round trip on the real functions)
    reg.specfn("seq_enc", "xs: list[int]", "str", doc="utils.compact_sequence")
    reg.specfn("seq_dec", "s: str", "list[int]", doc="utils.expand_sequence")
    reg.contract("asimap/utils.py", "expand_sequence", params={"contents": "str"}, ret="list[int]",
                 ensures={"dec": "same(result, seq_dec(contents))"}, **T,
                 note="bounded: expand_sequence(compact_sequence(xs)) == xs exhaustively for all subsets of 0..12 (harness.persist:Codec)")
    reg.specfn("persisted", "m: ref:Mailbox", "bool",
               "m.g_db_exists and m.g_db_uid_vv == m.uid_vv and m.g_db_next_uid == m.next_uid and m.g_db_uids == m.uids and "
               "m.g_db_msg_keys == m.msg_keys and m.g_db_subscribed == m.subscribed and m.g_db_num_msgs == m.num_msgs",
               doc="the committed sqlite row of the mailbox decodes to its current UID state")
    # ---- commit_to_db: verified against a ghost model of this mailbox's rows (C11/C12: UID state and flags persist) -----------
    # Ghost model: g_db_* is the mailboxes row as decoded columns, g_db_seqs the rows of the sequences table with this mailbox's id
    # (name -> set of message keys). Every SQL statement is an assumed contract PINNED TO ITS EXACT TEXT by the dispatch regex:
    # a statement that is edited no longer matches and the function leaves the verified subset (the check then falls back to the
    # concrete oracles and reports what they find, or UNDECIDED).
    reg.specfn("sset_dec", "s: str", "set[int]", "elems(seq_dec(s))", doc="the set a compact_sequence() string decodes to: the elements of expand_sequence(s)")
    VALUES = "tuple[int,str,int,int,int,int,str,str,float,bool,opt[int]]"
    reg.contract("asimap/utils.py", "compact_sequence", params={"keys": "list[int]"}, ret="str",
                 ensures={"enc": "result == seq_enc(keys)",
                          "codec": "implies(asc(keys), (len(result) == 0) == (len(keys) == 0) and implies(len(keys) > 0, seq_dec(result) == keys))"},
                 **T, note="bounded: expand_sequence(compact_sequence(xs)) == xs exhaustively for ascending lists over 0..12 (harness.persist:Codec)")
    reg.dynamic_dispatch[r"compact_sequence\(self\.sequences\[name\]\)"] = "utils.compact_sequence_of_set"
    reg.contract("<utils>", "utils.compact_sequence_of_set", params={"self": "ref:Mailbox", "keys": "set[int]"}, ret="str",
                 ensures={"codec": "sset_dec(result) == keys"}, **T, note="compact_sequence on a set of keys; same bounded codec check (sorted first)")
    reg.dynamic_dispatch[r"self\.server\.db\.execute\('UPDATE mailboxes SET uid_vv=\?, attributes=\?, next_uid=\?,mtime=\?, num_msgs=\?, num_recent=\?, uids=\?, msg_keys=\?, last_resync=\?, subscribed=\? WHERE id=\?', values\)"] = "Database.update_mailbox_row"
    reg.contract("<sqlite>", "Database.update_mailbox_row", params={"self": "ref:Mailbox", "sql": "str", "values": VALUES},
                 requires={"own-row": "values[10] == self.id"},
                 ensures={"row": "self.g_db_exists and self.g_db_uid_vv == values[0] and self.g_db_next_uid == values[2] and self.g_db_num_msgs == values[4] and self.g_db_subscribed == values[9] and "
                                 "(len(values[6]) == 0) == (len(self.g_db_uids) == 0) and implies(len(values[6]) > 0, self.g_db_uids == seq_dec(values[6])) and "
                                 "(len(values[7]) == 0) == (len(self.g_db_msg_keys) == 0) and implies(len(values[7]) > 0, self.g_db_msg_keys == seq_dec(values[7]))"},
                 modifies=["self.g_db_exists", "self.g_db_uid_vv", "self.g_db_next_uid", "self.g_db_uids", "self.g_db_msg_keys", "self.g_db_subscribed", "self.g_db_num_msgs"],
                 yields=True, **T, note="A-DB: UPDATE mailboxes ... WHERE id=?: the row of this mailbox (created at activation) takes the given column values")
    reg.dynamic_dispatch[r"self\.server\.db\.query\('SELECT name FROM sequences WHERE mailbox_id=\?', \(self\.id,\)\)"] = "Database.query_seq_names"
    reg.contract("<sqlite>", "Database.query_seq_names", params={"self": "ref:Mailbox", "sql": "str", "params": "tuple[opt[int]]"}, ret="list[tuple[str]]",
                 ensures={"names": "forall(lambda n: (n in self.g_db_seqs) == exists(lambda j: 0 <= j and j < len(result) and result[j][0] == n), 'str')"},
                 yields=True, **T, note="A-DB: the names of this mailbox's rows in the sequences table")
    reg.dynamic_dispatch[r"self\.server\.db\.execute\(f'DELETE FROM sequences  WHERE mailbox_id=\? AND name in \(\{qms\}\)', \(self\.id, \*list\(names_to_delete\)\)\)"] = "Database.delete_seq_rows"
    reg.contract("<sqlite>", "Database.delete_seq_rows", params={"self": "ref:Mailbox", "names": "set[str]"},
                 ensures={"deleted": "forall(lambda n: (n in self.g_db_seqs) == (n in old(self.g_db_seqs) and n not in names), 'str')",
                          "others-kept": "forall(lambda n: implies(n not in names, get(self.g_db_seqs, n) == get(old(self.g_db_seqs), n)), 'str')"},
                 modifies=["self.g_db_seqs"], yields=True, **T, ghost={"skip_args": True, "bind_locals": {"names": "names_to_delete"}},
                 note="A-DB: DELETE FROM sequences WHERE mailbox_id=<this mailbox> AND name IN (<names_to_delete>): only this mailbox's rows, only those names")
    reg.dynamic_dispatch[r"self\.server\.db\.execute\('INSERT INTO sequences\(name,mailbox_id,sequence\)   VALUES \(\?,\?,\?\)  ON CONFLICT DO UPDATE SET    sequence=\?  WHERE mailbox_id=\? AND name=\?', \(name, self\.id, sequence, sequence, self\.id, name\)\)"] = "Database.upsert_seq_row"
    reg.contract("<sqlite>", "Database.upsert_seq_row", params={"self": "ref:Mailbox", "sql": "str", "params": "tuple[str,opt[int],str,str,opt[int],str]"},
                 ensures={"dom": "forall(lambda n: (n in self.g_db_seqs) == (n in old(self.g_db_seqs) or n == params[0]), 'str')",
                          "row": "get(self.g_db_seqs, params[0]) == sset_dec(params[2])",
                          "others-kept": "forall(lambda n: implies(n != params[0], get(self.g_db_seqs, n) == get(old(self.g_db_seqs), n)), 'str')"},
                 modifies=["self.g_db_seqs"], yields=True, **T,
                 note="A-DB: INSERT ... ON CONFLICT DO UPDATE: afterwards this mailbox has exactly one row of that name, holding the given sequence text")
    reg.contract(
        P, "Mailbox.commit_to_db", params={"self": "ref:Mailbox"},
        ensures={
            # (the codec round trip is stated for ascending lists, which is what the class invariant gives every caller)
            "row-written": "implies(asc(self.uids) and asc(self.msg_keys), persisted(self))",
            # acknowledged flag changes persist: the committed rows are exactly the non-empty sequences in memory
            "flags-written": "forall(lambda n, k: mem(self.g_db_seqs, n, k) == mem(self.sequences, n, k), 'str', 'int')",
            "no-empty-rows": "forall(lambda n: implies(n in self.g_db_seqs, n in self.sequences), 'str')",
            "flags-in-memory-kept": "forall(lambda n, k: mem(self.sequences, n, k) == mem(old(self.sequences), n, k), 'str', 'int')",
        },
        modifies=["self.sequences", "self.g_db_seqs", "self.g_db_exists", "self.g_db_uid_vv", "self.g_db_next_uid", "self.g_db_uids", "self.g_db_msg_keys", "self.g_db_subscribed", "self.g_db_num_msgs"],
        loops={
            0: {"invariant": {"flags-kept": "forall(lambda n, k: mem(self.sequences, n, k) == mem(lpre(self.sequences), n, k), 'str', 'int')"}},
            1: {"invariant": {"names-so-far": "forall(lambda n: (n in old_names) == exists(lambda j: 0 <= j and j < _i and _it[j][0] == n), 'str')"}},
            2: {"lemmas": {
                    # when the insert loop starts no row is left whose sequence is empty or gone (deleted above, or there was none)
                    "no-stale-rows": "forall(lambda n: implies(n in self.g_db_seqs, n in new_names), 'str')",
                },
                "invariant": {
                "written-so-far": "forall(lambda n: implies(n in _it and pos(_it, n) < _i, n in self.g_db_seqs and get(self.g_db_seqs, n) == get(self.sequences, n)), 'str')",
                "dom-so-far": "forall(lambda n: (n in self.g_db_seqs) == (n in lpre(self.g_db_seqs) or (n in _it and pos(_it, n) < _i)), 'str')",
                "memory-kept": "same(self.sequences, lpre(self.sequences))",
                "flags-so-far": "forall(lambda n, k: implies(n in _it and pos(_it, n) < _i, mem(self.g_db_seqs, n, k) == mem(self.sequences, n, k)), 'str', 'int')",
                "rest-untouched": "forall(lambda n, k: implies(not (n in _it and pos(_it, n) < _i), mem(self.g_db_seqs, n, k) == mem(lpre(self.g_db_seqs), n, k)), 'str', 'int')",
            }},
        },
        locals_={"old_names": "set[str]"},
        is_async=True,
        props=["C12", "C11", "C04"],
        ghost={"harness": "harness.persist:CrashFlags"},
    )
    # ---- shutdown ------------------------------------------------------------------------------
    reg.contract("<asyncio>", "Queue.get_nowait", params={"self": "ref:Queue"}, ret="ref:IMAPClientCommand",
                 raises={"QueueEmpty": "len(self.g_items) == 0"},
                 ensures={"head": "result == old(self.g_items)[0]",
                          "rest": "len(self.g_items) == len(old(self.g_items)) - 1",
                          "nothing-lost": "forall(lambda x: implies(x in old(self.g_items), x == result or x in self.g_items), 'ref:IMAPClientCommand')"},
                 exc_ensures={"untouched": "same(self.g_items, old(self.g_items))"},
                 modifies=["self.g_items"], **T, note="A-ASYNC: asyncio.Queue is FIFO; get_nowait raises QueueEmpty exactly when empty")
    reg.contract("<asyncio>", "Event.set", params={"self": "ref:Event"}, ensures={"set": "self.g_set"}, modifies=["self.g_set"], **T, note="A-ASYNC")
    reg.exc_parents["QueueEmpty"] = "Exception"
    reg.contract("<asyncio>", "Task.done", params={"self": "opaque:Task"}, ret="bool", **T, note="A-ASYNC")
    reg.contract("<asyncio>", "Task.cancel", params={"self": "opaque:Task"}, ret="bool", **T, note="A-ASYNC")
    reg.contract(
        P, "Mailbox.shutdown", uses_invariant=True,
        params={"self": "ref:Mailbox", "commit_db": "bool"},
        ensures={
            "marked-deleted": "self.deleted == True",
            # C06 (wake-up): every command still waiting in the queue is released (it then sees `deleted` and fails with NO)
            "queue-released": "len(self.task_queue.g_items) == 0 and forall(lambda j: implies(0 <= j and j < len(old(self.task_queue.g_items)), old(self.task_queue.g_items)[j].ready.g_set))",
            # C12: an orderly shutdown leaves the committed row equal to the in-memory UID state
            "committed": "implies(commit_db, persisted(self))",
            "flags-committed": "implies(commit_db, forall(lambda n, k: mem(self.g_db_seqs, n, k) == mem(self.sequences, n, k), 'str', 'int'))",
        },
        loops={0: {"invariant": {
            "released": "forall(lambda j: implies(0 <= j and j < len(old(self.task_queue.g_items)), "
                        "old(self.task_queue.g_items)[j] in self.task_queue.g_items or old(self.task_queue.g_items)[j].ready.g_set))",
            "same-queue": "self.task_queue == old(self.task_queue)",
        }}},
        modifies=["self.deleted", "self.sequences", "Queue.g_items", "Event.g_set", "self.g_db_seqs", "self.g_db_exists", "self.g_db_uid_vv", "self.g_db_next_uid", "self.g_db_uids", "self.g_db_msg_keys", "self.g_db_subscribed", "self.g_db_num_msgs"],
        is_async=True,
        props=["C12", "C06"],
    )

    # ---- _restore_from_db: reads the committed row back (C12) ------------------------------------------
    reg.dynamic_dispatch[r"self\.server\.db\.fetchone\('select id, uid_vv,attributes,mtime,next_uid,num_msgs,num_recent,uids,msg_keys,last_resync,subscribed from mailboxes where name=\?', \(self\.name,\)\)"] = "Database.fetch_mailbox_row"
    reg.contract(
        "<sqlite>", "Database.fetch_mailbox_row", params={"self": "ref:Mailbox", "sql": "str", "params": "tuple[str]"}, ret=f"opt[{ROW}]",
        ensures={
            "exists": "is_none(result) == (not self.g_db_exists)",
            "row": "implies(self.g_db_exists, some(result)[1] == self.g_db_uid_vv and some(result)[4] == self.g_db_next_uid and some(result)[5] == self.g_db_num_msgs and "
                   "some(result)[10] == self.g_db_subscribed and "
                   "(len(some(result)[7]) == 0) == (len(self.g_db_uids) == 0) and implies(len(self.g_db_uids) > 0, same(seq_dec(some(result)[7]), self.g_db_uids)) and "
                   "(len(some(result)[8]) == 0) == (len(self.g_db_msg_keys) == 0) and implies(len(self.g_db_msg_keys) > 0, same(seq_dec(some(result)[8]), self.g_db_msg_keys)))",
        },
        **T, yields=True,
        note="A-DB + codec: SELECT returns the committed row; the uids/msg_keys columns hold compact_sequence() of the lists "
             "(expand(compact(xs)) == xs is the bounded codec lemma; '' encodes the empty list)",
    )
    reg.dynamic_dispatch[r"self\.server\.db\.query\('SELECT name, sequence FROM sequences WHERE mailbox_id=\?', \(self\.id,\)\)"] = "Database.query_sequences"
    reg.specfn("py_strip", "s: str", "str", doc="str.strip(): same z3 symbol the engine uses for that call")
    reg.contract("<sqlite>", "Database.query_sequences", params={"self": "ref:Mailbox", "sql": "str", "params": "tuple[opt[int]]"}, ret="list[tuple[str,str]]",
                 ensures={
                     "one-row-per-name": "forall(lambda i, j: implies(0 <= i and i < j and j < len(result), result[i][0] != result[j][0]))",
                     "names": "forall(lambda n: (n in self.g_db_seqs) == exists(lambda j: 0 <= j and j < len(result) and result[j][0] == n), 'str')",
                     "texts": "forall(lambda j: implies(0 <= j and j < len(result), len(result[j][1]) > 0 and py_strip(result[j][1]) == result[j][1] and sset_dec(result[j][1]) == get(self.g_db_seqs, result[j][0])))",
                 },
                 **T, yields=True, note="A-DB: the rows of the sequences table with this mailbox's id: one per name, each holding the compact_sequence() text that commit_to_db stored (non-empty, digits/commas/dashes only)")
    reg.dynamic_dispatch[r"self\.server\.db\.execute\('INSERT INTO mailboxes .*"] = "Database.insert_mailbox_row"
    reg.contract("<sqlite>", "Database.insert_mailbox_row", params={"self": "ref:Mailbox", "sql": "str"}, **T, yields=True,
                 ghost={"varargs": None}, note="A-DB: creates the row for a mailbox seen for the first time")
    reg.dynamic_dispatch[r"self\.server\.db\.commit\(\)"] = "Database.commit_any"
    reg.contract("<sqlite>", "Database.commit_any", params={"self": "ref:Mailbox"}, **T, yields=True, note="A-DB")
    reg.contract(
        P, "Mailbox._restore_from_db", params={"self": "ref:Mailbox"}, ret="bool",
        requires={
            # the restore path (the first-activation path that INSERTs a fresh row is not under contract)
            "row-exists": "self.g_db_exists",
            # a mailbox object is restored once, right after it is constructed: no flags in memory yet
            "fresh-object": "forall(lambda n, k: not mem(self.sequences, n, k), 'str', 'int')",
            # what commit_to_db wrote came from a state satisfying the representation invariant
            "row-from-inv-state": "implies(self.g_db_exists, len(self.g_db_uids) == len(self.g_db_msg_keys) and asc(self.g_db_uids) and asc(self.g_db_msg_keys))",
        },
        ensures={
            "created-iff-absent": "result == (not old(self.g_db_exists))",
            # restore(persist(s)) == s on the UID state a client can observe
            "uid-state-restored": "implies(not result, self.uid_vv == self.g_db_uid_vv and self.next_uid == self.g_db_next_uid and self.uids == self.g_db_uids and "
                                  "self.msg_keys == self.g_db_msg_keys and self.subscribed == self.g_db_subscribed and self.num_msgs == self.g_db_num_msgs)",
            "index-rebuilt": "implies(not result, index_of(self._msg_key_to_idx, self.msg_keys) and index_of(self._uid_to_idx, self.uids))",
            # restore(persist(flags)) == flags: with commit_to_db's `flags-written` this is the round trip of every flag of every message
            "flags-restored": "implies(not result, forall(lambda n, k: mem(self.sequences, n, k) == mem(self.g_db_seqs, n, k), 'str', 'int'))",
        },
        loops={1: {"invariant": {
            "rows-done": "forall(lambda j, k: implies(0 <= j and j < _i, mem(self.sequences, _it[j][0], k) == (k in get(self.g_db_seqs, _it[j][0]))))",
            "others-empty": "forall(lambda n, k: implies(forall(lambda j: implies(0 <= j and j < _i, _it[j][0] != n)), not mem(self.sequences, n, k)), 'str', 'int')",
            "uid-state-kept": "same(self.uids, lpre(self.uids)) and same(self.msg_keys, lpre(self.msg_keys)) and self.uid_vv == lpre(self.uid_vv) and self.next_uid == lpre(self.next_uid) "
                              "and self.subscribed == lpre(self.subscribed) and self.num_msgs == lpre(self.num_msgs) and same(self._msg_key_to_idx, lpre(self._msg_key_to_idx)) and same(self._uid_to_idx, lpre(self._uid_to_idx))",
        }}},
        modifies=["self.id", "self.uid_vv", "self.attributes", "self.mtime", "self.next_uid", "self.num_msgs", "self.num_recent", "self.uids", "self.msg_keys",
                  "self.last_resync", "self.subscribed", "self.sequences", "self._msg_key_to_idx", "self._uid_to_idx", "IMAPUserServer.uid_vv", "Database.g_uid_vv", "MH.g_keys"],
        is_async=True,
        props=["C12"],
    )
    b = reg.properties.setdefault("C12", {}).setdefault("bounded", [])
    b.append({"name": "sequence-codec-exhaustive", "module": "harness.persist", "func": "Codec"})
    b.append({"name": "restart-e2e", "module": "harness.persist", "func": "Restart"})

    # ---- management_task: every dequeued command is released (C06 wake-up obligation, safety form of 'answered promptly') ----
    reg.contract("<random>", "random.randrange", params={"a": "int", "b": "int"}, ret="int", ensures={"range": "a <= result and result < b"}, **T, note="stdlib")
    reg.contract("<asyncio>", "Queue.get", params={"self": "ref:Queue"}, ret="ref:IMAPClientCommand", yields=True, **T,
                 note="A-ASYNC: waits for the next queued command (may be cut short by the enclosing asyncio.timeout)")
    reg.contract("<asyncio>", "Queue.task_done", params={"self": "ref:Queue"}, **T, note="A-ASYNC: bookkeeping for Queue.join (which nothing awaits); the queued items are untouched")
    # the list of commands the admission relation (would_conflict, C10) compares a new command with: a command may leave it only once it has completed
    reg.contract(
        P, "Mailbox._cleanup_executing_tasks", params={"self": "ref:Mailbox"},
        ensures={
            "running-kept": "forall(lambda j: implies(0 <= j and j < len(old(self.executing_tasks)) and not old(self.executing_tasks)[j].completed, old(self.executing_tasks)[j] in self.executing_tasks))",
            "only-completed-dropped": "forall(lambda j: implies(0 <= j and j < len(self.executing_tasks), not self.executing_tasks[j].completed and self.executing_tasks[j] in old(self.executing_tasks)))",
            "none-invented": "len(self.executing_tasks) <= len(old(self.executing_tasks))",
        },
        raises={},
        modifies=["self.executing_tasks"],
        loops={0: {"invariant": {"list-kept": "same(self.executing_tasks, lpre(self.executing_tasks))"}}},
        props=["C10"],
    )
    # ---- IMAPClientCommand.ready_and_okay: however the wait or the command body ends, the command is marked completed (C10: otherwise it
    #      stays on the executing list for ever and every later exclusive command starves; C06) ----
    reg.contract("<asyncio>", "Queue.put_nowait", params={"self": "ref:Queue", "item": "ref:IMAPClientCommand"}, modifies=["self.g_items"], **T, note="A-ASYNC: appends to the FIFO")
    reg.contract("<asyncio>", "Event.wait", params={"self": "ref:Event"}, yields=True, **T, note="A-ASYNC: returns once the event is set")
    reg.contract(
        "asimap/parse.py", "IMAPClientCommand.ready_and_okay", params={"self": "ref:IMAPClientCommand", "mbox": "ref:Mailbox"},
        ensures={"completed": "self.completed"},
        raises={"CancelledError": None, "Exception": None, "NoSuchMailbox": None},
        exc_ensures={"completed-however-it-ended": "self.completed"},
        modifies=["self.completed", "Queue.g_items"],
        ghost={"cancellable": True},
        is_async=True,
        props=["C10", "C06"],
        note="body of the async context manager, with `yield` read as: the with-block runs (may suspend, may raise anything); cancellation "
             "(command watchdog, shutdown) is possible at every suspension point, including while the command is still waiting in the queue",
    )
    HD_ = "('Deleted' in self.sequences and card(get(self.sequences, 'Deleted')) > 0)"
    reg.contract(
        P, "Mailbox.command_can_proceed", params={"self": "ref:Mailbox", "imap_cmd": "ref:IMAPClientCommand"},
        ensures={
            # the admission gate: when the management task is told to go ahead, the command does not have to be serialised behind
            # anything still on the executing list -- there is no suspension point between the last look and the return
            "admitted-is-safe": f"forall(lambda j: implies(0 <= j and j < len(self.executing_tasks), not must_conflict(imap_cmd, self.executing_tasks[j], {HD_})))",
            # a command that is still running has not been forgotten (it would stop counting for every later admission)
            "running-kept": "forall(lambda j: implies(0 <= j and j < len(old(self.executing_tasks)) and not old(self.executing_tasks)[j].completed, old(self.executing_tasks)[j] in self.executing_tasks))",
            "nothing-added": "forall(lambda j: implies(0 <= j and j < len(self.executing_tasks), self.executing_tasks[j] in old(self.executing_tasks)))",
        },
        raises={"RuntimeError": None},
        modifies=["self.executing_tasks"],
        loops={0: {"invariant": {
            "running-kept": "forall(lambda j: implies(0 <= j and j < len(old(self.executing_tasks)) and not old(self.executing_tasks)[j].completed, old(self.executing_tasks)[j] in self.executing_tasks))",
            "nothing-added": "forall(lambda j: implies(0 <= j and j < len(self.executing_tasks), self.executing_tasks[j] in old(self.executing_tasks)))",
        }}, 1: {"invariant": {
            "running-kept": "forall(lambda j: implies(0 <= j and j < len(old(self.executing_tasks)) and not old(self.executing_tasks)[j].completed, old(self.executing_tasks)[j] in self.executing_tasks))",
            "nothing-added": "forall(lambda j: implies(0 <= j and j < len(self.executing_tasks), self.executing_tasks[j] in old(self.executing_tasks)))",
        }}},
        is_async=True,
        props=["C10"],
        note="the commands on the executing list run while this coroutine sleeps: the flags `completed` and the mailbox's sequences are not havocked at those "
             "suspension points (writer exclusivity, DESIGN 12.2), so `running-kept` is stated over the entry values of `completed`",
    )
    REL = "cur_path('imap_cmd', 'ready.g_set', True)"
    reg.contract(
        P, "Mailbox.management_task", params={"self": "ref:Mailbox"},
        raises={},
        # when the task ends (it is cancelled by Mailbox.shutdown, possibly while it holds a command it has taken off the queue and is waiting
        # to admit), no dequeued command is left waiting for its `ready` event: it would only be answered by the command watchdog (C06)
        ensures={"no-dequeued-command-left-waiting": "cur_path_final('imap_cmd', 'ready.g_set', True)"},
        loops={0: {"invariant": {
            # wake-up obligation: whatever happened in an iteration (normal admission, BAD for an unresolvable set, resync),
            # the command taken from the queue in that iteration has been released
            "dequeued-command-released": REL,
            # admission is recorded (C10): a command that was released without an error is on the executing list, where would_conflict()
            # sees it, until it has completed (the default values stand for 'no command has been dequeued yet')
            "admitted-command-registered": "not is_none(cur_path('imap_cmd', 'resolve_error', None)) or cur_path('imap_cmd', 'completed', True) "
                                           "or cur('imap_cmd', self.executing_tasks[0]) in self.executing_tasks",
        }}},
        modifies=["self.executing_tasks", "IMAPClientCommand.msg_set_as_set", "IMAPClientCommand.resolve_error", "Event.g_set", "Queue.g_items",
                  "self.last_resync", "self.mtime", "self.optional_resync", "self.msg_keys", "self.uids", "self.num_msgs", "self.num_recent", "self.sequences", "self.next_uid",
                  "self._msg_key_to_idx", "self._uid_to_idx", "self.attributes", "MH.g_seqs", "MH.g_keys", "MH.g_content", "*.pending_notifications", "ClientProxy.g_out",
                  "self.g_db_seqs", "self.g_db_exists", "self.g_db_uid_vv", "self.g_db_next_uid", "self.g_db_uids", "self.g_db_msg_keys", "self.g_db_subscribed", "self.g_db_num_msgs"],
        ghost={"cancellable": True, "assume_pre_of": ["_pack_if_necessary", "check_new_msgs_and_flags", "msg_set_to_msg_seq_set"],
               # the wake-up obligation must not depend on what the resync found: in particular not on "the mailbox only grows" (E1),
               # which would make the second message-set resolution infallible and its BAD branch dead
               "forget_post_of": {"check_new_msgs_and_flags": "*"}},
        is_async=True,
        props=["C06", "C10"],
        note="the preconditions of the resync/pack callees (environment assumption E1, Inv(Mailbox)) are assumed at their call sites here; "
             "exceptions other than Bad raised by callees between dequeue and release are not modelled (the blanket `except Exception: ignore` would then leave the command waiting)",
    )

    # ---- IMAPUserServer.shutdown (C12): every active mailbox is shut down WITH a commit ------------------------------------
    U = "asimap/user_server.py"
    reg.context_managers.append((r"asyncio\.TaskGroup\(\)", "opaque"))
    reg.contract("<asyncio>", "ctx_tg.create_task", params={"self": "opaque:ctx_tg", "coro": "None"}, **T,
                 note="A-ASYNC: the task runs to completion before the TaskGroup block is left; modelled as running when it is created "
                      "(the mailboxes are distinct objects and Mailbox.shutdown touches only its own mailbox's row and queue)")
    for nm in ("Database.commit", "Database.close"):
        if nm not in reg.contracts:
            reg.contract("<sqlite>", nm, params={"self": "ref:Database"}, yields=True, **T, note="A-DB: flushes / closes the connection; no row changes")
    reg.contract("<stdlib>", "MH.close", params={"self": "ref:MH"}, **T, note="A-MH: no-op flush")
    reg.contract(
        U, "IMAPUserServer.shutdown", params={"self": "ref:IMAPUserServer"},
        ensures={
            "every-active-mailbox-committed": "forall(lambda k: implies(k in old(self.active_mailboxes), persisted(get(old(self.active_mailboxes), k))), 'str')",
            "none-left-active": "forall(lambda k: k not in self.active_mailboxes, 'str')",
        },
        loops={
            1: {"invariant": {"collected": "forall(lambda k: implies(k in _it and pos(_it, k) < _i, get(lpre(self.active_mailboxes), k) in mboxes), 'str')",
                              "dict-kept": "same(self.active_mailboxes, lpre(self.active_mailboxes))"}},
            2: {"invariant": {"done-prefix": "forall(lambda j: implies(0 <= j and j < _i, persisted(mboxes[j])))", "list-kept": "same(mboxes, lpre(mboxes))"}},
        },
        locals_={"mboxes": "list[ref:Mailbox]"},
        modifies=["self.active_mailboxes", "Mailbox.deleted", "Mailbox.sequences", "Queue.g_items", "Event.g_set", "Mailbox.g_db_seqs", "Mailbox.g_db_exists", "Mailbox.g_db_uid_vv", "Mailbox.g_db_next_uid", "Mailbox.g_db_uids",
                  "Mailbox.g_db_msg_keys", "Mailbox.g_db_subscribed", "Mailbox.g_db_num_msgs"],
        ghost={"start_at": "mboxes = []",
               "call_asserts": {"shutdown": {"orderly-shutdown-commits": "arg_commit_db"}}},
        is_async=True,
        props=["C12"],
        note="verified from `mboxes = []` on (cancelling the management task and closing the client connections are outside the subset and touch no mailbox state)",
    )
