"""Persistence of the mailbox row: shutdown commits, restore reads back (C12), wake-up of queued commands on shutdown (C06)."""


def declare(reg):
    P = "asimap/mbox.py"
    T = dict(trusted=True)
    ROW = "tuple[int,int,str,int,int,int,int,str,str,float,bool]"
    # codec (bounded tier harness.persist:Codec checks the round trip on the real functions)
    reg.specfn("seq_enc", "xs: list[int]", "str", doc="utils.compact_sequence")
    reg.specfn("seq_dec", "s: str", "list[int]", doc="utils.expand_sequence")
    reg.contract("asimap/utils.py", "expand_sequence", params={"contents": "str"}, ret="list[int]",
                 ensures={"dec": "same(result, seq_dec(contents))"}, **T,
                 note="bounded: expand_sequence(compact_sequence(xs)) == xs exhaustively for all subsets of 0..12 (harness.persist:Codec)")
    reg.specfn("persisted", "m: ref:Mailbox", "bool",
               "m.g_db_exists and m.g_db_uid_vv == m.uid_vv and m.g_db_next_uid == m.next_uid and same(m.g_db_uids, m.uids) and "
               "same(m.g_db_msg_keys, m.msg_keys) and m.g_db_subscribed == m.subscribed and m.g_db_num_msgs == m.num_msgs",
               doc="the committed sqlite row of the mailbox decodes to its current UID state")
    # commit_to_db: replace the earlier bare assumption by its C12 contract (still assumed: SQL is outside the subset)
    reg.contract(P, "Mailbox.commit_to_db", params={"self": "ref:Mailbox"},
                 ensures={"row-written": "persisted(self)"},
                 modifies=["self.g_db_exists", "self.g_db_uid_vv", "self.g_db_next_uid", "self.g_db_uids", "self.g_db_msg_keys", "self.g_db_subscribed", "self.g_db_num_msgs"],
                 yields=True, **T,
                 note="A-DB + codec: UPDATE mailboxes SET ... ; COMMIT stores (uid_vv, next_uid, compact(uids), compact(msg_keys), subscribed, ...); assumed, the SQL text is not interpreted")
    # ---- shutdown ------------------------------------------------------------------------------
    reg.contract("<asyncio>", "Queue.get_nowait", params={"self": "ref:Queue"}, ret="ref:IMAPClientCommand",
                 raises={"QueueEmpty": "len(self.g_items) == 0"},
                 ensures={"head": "result == old(self.g_items)[0]",
                          "rest": "len(self.g_items) == len(old(self.g_items)) - 1",
                          "nothing-lost": "forall(lambda x: implies(x in old(self.g_items), x == result or x in self.g_items), 'ref:IMAPClientCommand')"},
                 exc_ensures={"untouched": "same(self.g_items, old(self.g_items))"},
                 modifies=["self.g_items"], **T, note="A-ASYNC: asyncio.Queue is FIFO; get_nowait raises QueueEmpty exactly when empty")
    reg.contract("<asyncio>", "Event.set", params={"self": "ref:Event"}, ensures={"set": "self.g_set"}, modifies=["self.g_set"], **T, note="A-ASYNC")
    reg.exc_parents["QueueEmpty"] = "Exception"
    reg.contract("<asyncio>", "Task.done", params={"self": "opaque:Task"}, ret="bool", **T, note="A-ASYNC")
    reg.contract("<asyncio>", "Task.cancel", params={"self": "opaque:Task"}, ret="bool", **T, note="A-ASYNC")
    reg.contract(
        P, "Mailbox.shutdown",
        params={"self": "ref:Mailbox", "commit_db": "bool"},
        ensures={
            "marked-deleted": "self.deleted == True",
            # C06 (wake-up): every command still waiting in the queue is released (it then sees `deleted` and fails with NO)
            "queue-released": "len(self.task_queue.g_items) == 0 and forall(lambda j: implies(0 <= j and j < len(old(self.task_queue.g_items)), old(self.task_queue.g_items)[j].ready.g_set))",
            # C12: an orderly shutdown leaves the committed row equal to the in-memory UID state
            "committed": "implies(commit_db, persisted(self))",
        },
        loops={0: {"invariant": {
            "released": "forall(lambda j: implies(0 <= j and j < len(old(self.task_queue.g_items)), "
                        "old(self.task_queue.g_items)[j] in self.task_queue.g_items or old(self.task_queue.g_items)[j].ready.g_set))",
            "same-queue": "self.task_queue == old(self.task_queue)",
        }}},
        modifies=["self.deleted", "Queue.g_items", "Event.g_set", "self.g_db_exists", "self.g_db_uid_vv", "self.g_db_next_uid", "self.g_db_uids", "self.g_db_msg_keys", "self.g_db_subscribed", "self.g_db_num_msgs"],
        is_async=True,
        props=["C12", "C06"],
    )

    # ---- _restore_from_db: reads the committed row back (C12) ------------------------------------------
    reg.dynamic_dispatch[r"self\.server\.db\.fetchone\('select id, uid_vv,attributes,mtime,next_uid,num_msgs,num_recent,uids,msg_keys,last_resync,subscribed from mailboxes where name=\?', \(self\.name,\)\)"] = "Database.fetch_mailbox_row"
    reg.contract(
        "<sqlite>", "Database.fetch_mailbox_row", params={"self": "ref:Mailbox", "sql": "str", "params": "tuple[str]"}, ret=f"opt[{ROW}]",
        ensures={
            "exists": "is_none(result) == (not self.g_db_exists)",
            "row": "implies(self.g_db_exists, some(result)[1] == self.g_db_uid_vv and some(result)[4] == self.g_db_next_uid and some(result)[5] == self.g_db_num_msgs and "
                   "some(result)[10] == self.g_db_subscribed and "
                   "(len(some(result)[7]) == 0) == (len(self.g_db_uids) == 0) and implies(len(self.g_db_uids) > 0, same(seq_dec(some(result)[7]), self.g_db_uids)) and "
                   "(len(some(result)[8]) == 0) == (len(self.g_db_msg_keys) == 0) and implies(len(self.g_db_msg_keys) > 0, same(seq_dec(some(result)[8]), self.g_db_msg_keys)))",
        },
        **T, yields=True,
        note="A-DB + codec: SELECT returns the committed row; the uids/msg_keys columns hold compact_sequence() of the lists "
             "(expand(compact(xs)) == xs is the bounded codec lemma; '' encodes the empty list)",
    )
    reg.dynamic_dispatch[r"self\.server\.db\.query\('SELECT name, sequence FROM sequences WHERE mailbox_id=\?', \(self\.id,\)\)"] = "Database.query_sequences"
    reg.contract("<sqlite>", "Database.query_sequences", params={"self": "ref:Mailbox", "sql": "str", "params": "tuple[opt[int]]"}, ret="list[tuple[str,str]]",
                 **T, yields=True, note="A-DB: rows of the sequences table for this mailbox (not interpreted here)")
    reg.dynamic_dispatch[r"self\.server\.db\.execute\('INSERT INTO mailboxes .*"] = "Database.insert_mailbox_row"
    reg.contract("<sqlite>", "Database.insert_mailbox_row", params={"self": "ref:Mailbox", "sql": "str"}, **T, yields=True,
                 ghost={"varargs": None}, note="A-DB: creates the row for a mailbox seen for the first time")
    reg.dynamic_dispatch[r"self\.server\.db\.commit\(\)"] = "Database.commit_any"
    reg.contract("<sqlite>", "Database.commit_any", params={"self": "ref:Mailbox"}, **T, yields=True, note="A-DB")
    reg.contract(
        P, "Mailbox._restore_from_db", params={"self": "ref:Mailbox"}, ret="bool",
        requires={
            # the restore path (the first-activation path that INSERTs a fresh row is not under contract)
            "row-exists": "self.g_db_exists",
            # what commit_to_db wrote came from a state satisfying the representation invariant
            "row-from-inv-state": "implies(self.g_db_exists, len(self.g_db_uids) == len(self.g_db_msg_keys) and asc(self.g_db_uids) and asc(self.g_db_msg_keys))",
        },
        ensures={
            "created-iff-absent": "result == (not old(self.g_db_exists))",
            # restore(persist(s)) == s on the UID state a client can observe
            "uid-state-restored": "implies(not result, self.uid_vv == self.g_db_uid_vv and self.next_uid == self.g_db_next_uid and self.uids == self.g_db_uids and "
                                  "self.msg_keys == self.g_db_msg_keys and self.subscribed == self.g_db_subscribed and self.num_msgs == self.g_db_num_msgs)",
            "index-rebuilt": "implies(not result, index_of(self._msg_key_to_idx, self.msg_keys) and index_of(self._uid_to_idx, self.uids))",
        },
        loops={1: {"invariant": {
            "uid-state-kept": "same(self.uids, lpre(self.uids)) and same(self.msg_keys, lpre(self.msg_keys)) and self.uid_vv == lpre(self.uid_vv) and self.next_uid == lpre(self.next_uid) "
                              "and self.subscribed == lpre(self.subscribed) and self.num_msgs == lpre(self.num_msgs) and same(self._msg_key_to_idx, lpre(self._msg_key_to_idx)) and same(self._uid_to_idx, lpre(self._uid_to_idx))",
        }}},
        modifies=["self.id", "self.uid_vv", "self.attributes", "self.mtime", "self.next_uid", "self.num_msgs", "self.num_recent", "self.uids", "self.msg_keys",
                  "self.last_resync", "self.subscribed", "self.sequences", "self._msg_key_to_idx", "self._uid_to_idx", "IMAPUserServer.uid_vv", "Database.g_uid_vv", "MH.g_keys"],
        is_async=True,
        props=["C12"],
    )
    b = reg.properties.setdefault("C12", {}).setdefault("bounded", [])
    b.append({"name": "sequence-codec-exhaustive", "module": "harness.persist", "func": "Codec"})
    b.append({"name": "restart-e2e", "module": "harness.persist", "func": "Restart"})

    # ---- management_task: every dequeued command is released (C06 wake-up obligation, safety form of 'answered promptly') ----
    reg.contract("<random>", "random.randrange", params={"a": "int", "b": "int"}, ret="int", ensures={"range": "a <= result and result < b"}, **T, note="stdlib")
    reg.contract("<asyncio>", "Queue.get", params={"self": "ref:Queue"}, ret="ref:IMAPClientCommand", yields=True, **T,
                 note="A-ASYNC: waits for the next queued command (may be cut short by the enclosing asyncio.timeout)")
    reg.contract(P, "Mailbox._cleanup_executing_tasks", params={"self": "ref:Mailbox"}, modifies=["self.executing_tasks"], **T,
                 note="assumed: drops completed commands from executing_tasks")
    reg.contract(P, "Mailbox.command_can_proceed", params={"self": "ref:Mailbox", "imap_cmd": "ref:IMAPClientCommand"}, modifies=["self.executing_tasks"],
                 yields=True, **T, note="assumed: polls would_conflict until the command may run (would_conflict itself is proved under C10)")
    REL = "cur_path('imap_cmd', 'ready.g_set', True)"
    reg.contract(
        P, "Mailbox.management_task", params={"self": "ref:Mailbox"},
        raises={},
        loops={0: {"invariant": {
            # wake-up obligation: whatever happened in an iteration (normal admission, BAD for an unresolvable set, resync),
            # the command taken from the queue in that iteration has been released
            "dequeued-command-released": REL,
        }}},
        modifies=["self.executing_tasks", "IMAPClientCommand.msg_set_as_set", "IMAPClientCommand.resolve_error", "Event.g_set", "Queue.g_items",
                  "self.last_resync", "self.mtime", "self.optional_resync", "self.msg_keys", "self.uids", "self.num_msgs", "self.num_recent", "self.sequences", "self.next_uid",
                  "self._msg_key_to_idx", "self._uid_to_idx", "self.attributes", "MH.g_seqs", "MH.g_keys", "MH.g_content", "*.pending_notifications", "ClientProxy.g_out",
                  "self.g_db_exists", "self.g_db_uid_vv", "self.g_db_next_uid", "self.g_db_uids", "self.g_db_msg_keys", "self.g_db_subscribed", "self.g_db_num_msgs"],
        ghost={"assume_pre_of": ["_pack_if_necessary", "check_new_msgs_and_flags", "msg_set_to_msg_seq_set"]},
        is_async=True,
        props=["C06"],
        note="the preconditions of the resync/pack callees (environment assumption E1, Inv(Mailbox)) are assumed at their call sites here; "
             "exceptions other than Bad raised by callees between dequeue and release are not modelled (the blanket `except Exception: ignore` would then leave the command waiting)",
    )

    # ---- IMAPUserServer.shutdown (C12): every active mailbox is shut down WITH a commit ------------------------------------
    U = "asimap/user_server.py"
    reg.context_managers.append((r"asyncio\.TaskGroup\(\)", "opaque"))
    reg.contract("<asyncio>", "ctx_tg.create_task", params={"self": "opaque:ctx_tg", "coro": "None"}, **T,
                 note="A-ASYNC: the task runs to completion before the TaskGroup block is left; modelled as running when it is created "
                      "(the mailboxes are distinct objects and Mailbox.shutdown touches only its own mailbox's row and queue)")
    for nm in ("Database.commit", "Database.close"):
        if nm not in reg.contracts:
            reg.contract("<sqlite>", nm, params={"self": "ref:Database"}, yields=True, **T, note="A-DB: flushes / closes the connection; no row changes")
    reg.contract("<stdlib>", "MH.close", params={"self": "ref:MH"}, **T, note="A-MH: no-op flush")
    reg.contract(
        U, "IMAPUserServer.shutdown", params={"self": "ref:IMAPUserServer"},
        ensures={
            "every-active-mailbox-committed": "forall(lambda k: implies(k in old(self.active_mailboxes), persisted(get(old(self.active_mailboxes), k))), 'str')",
            "none-left-active": "forall(lambda k: k not in self.active_mailboxes, 'str')",
        },
        loops={
            1: {"invariant": {"collected": "forall(lambda k: implies(k in _it and pos(_it, k) < _i, get(lpre(self.active_mailboxes), k) in mboxes), 'str')",
                              "dict-kept": "same(self.active_mailboxes, lpre(self.active_mailboxes))"}},
            2: {"invariant": {"done-prefix": "forall(lambda j: implies(0 <= j and j < _i, persisted(mboxes[j])))", "list-kept": "same(mboxes, lpre(mboxes))"}},
        },
        locals_={"mboxes": "list[ref:Mailbox]"},
        modifies=["self.active_mailboxes", "Mailbox.deleted", "Queue.g_items", "Event.g_set", "Mailbox.g_db_exists", "Mailbox.g_db_uid_vv", "Mailbox.g_db_next_uid", "Mailbox.g_db_uids",
                  "Mailbox.g_db_msg_keys", "Mailbox.g_db_subscribed", "Mailbox.g_db_num_msgs"],
        ghost={"start_at": "mboxes = []",
               "call_asserts": {"shutdown": {"orderly-shutdown-commits": "arg_commit_db"}}},
        is_async=True,
        props=["C12"],
        note="verified from `mboxes = []` on (cancelling the management task and closing the client connections are outside the subset and touch no mailbox state)",
    )
