"""asimap/utils.py"""


def declare(reg):
    reg.contract(
        "asimap/utils.py", "sequence_set_to_list",
        params={"seq_set": "list[MsgElt]", "seq_max": "int", "uid_cmd": "bool"},
        ret="list[int]",
        requires={"mx-nonneg": "seq_max >= 0", "wf": "wf_msgset(seq_set)"},
        ensures={
            "asc": "asc(result)",
            "denote": "forall(lambda x: (x in result) == denotes(seq_set, seq_max, x))",
        },
        raises={"Bad": "has_bad(seq_set, seq_max, uid_cmd, len(seq_set))"},
        loops={0: {"invariant": {
            "denote-prefix": "forall(lambda x: (x in result) == denote_upto(seq_set, seq_max, x, _i))",
            "no-bad-prefix": "not has_bad(seq_set, seq_max, uid_cmd, _i)",
        }}},
        locals_={"result": "list[int]"},
        props=["C15"],
        ghost={"harness": "harness.seqset:SequenceSetToList"},
    )

    reg.properties.setdefault("C15", {}).setdefault("bounded", []).append(
        {"name": "sequence_set_to_list-vs-denote", "module": "harness.seqset", "func": "SequenceSetToList"}
    )
