"""asimap/db.py -- schema migration is crash-safe (C11 a)."""


def declare(reg):
    D = "asimap/db.py"
    T = dict(trusted=True)
    reg.opaque_names["MIGRATIONS"] = "list[opaque:Migration]"
    reg.exc_parents["OperationalError"] = "Exception"
    C = "ref:Connection"
    # --- A-DB: the sqlite operations apply_migrations uses, over the ghost (committed, pending) pair -------------
    reg.dynamic_dispatch[r"self\.fetchone\('SELECT version FROM versions ORDER BY version DESC LIMIT 1'\)"] = "Database.fetch_version"
    reg.contract("<sqlite>", "Database.fetch_version", params={"self": "ref:Database", "sql": "str"}, ret="opt[tuple[str]]",
                 raises={"OperationalError": "not self.conn.g_has_versions"},
                 ensures={"highest": "ite(self.conn.g_c_ver == 0, is_none(result), (not is_none(result)) and some(result)[0] == str(self.conn.g_c_ver - 1))"},
                 **T, yields=True, note="A-DB: the highest committed version row, OperationalError('no such table: versions') when the table does not exist")
    reg.dynamic_dispatch[r"self\.conn\.execute\('BEGIN'\)"] = "Connection.begin"
    reg.contract("<sqlite>", "Connection.begin", params={"self": "ref:Database", "sql": "str"},
                 ensures={"txn": "self.conn.g_in_txn and self.conn.g_p_ver == self.conn.g_c_ver and self.conn.g_p_schema == self.conn.g_c_schema"},
                 modifies=["Connection.g_in_txn", "Connection.g_p_ver", "Connection.g_p_schema"], **T, yields=True, note="A-DB: BEGIN opens a transaction")
    reg.dynamic_dispatch[r"migration\(self\.conn\)"] = "Connection.run_migration"
    reg.contract("<sqlite>", "Connection.run_migration", params={"self": "ref:Database", "conn": C},
                 ensures={
                     # sqlite DDL is transactional: inside a transaction it is pending, outside it is durable at once
                     "ddl": "ite(old(self.conn.g_in_txn), self.conn.g_p_schema == old(self.conn.g_p_schema) + 1 and self.conn.g_c_schema == old(self.conn.g_c_schema), "
                            "self.conn.g_c_schema == old(self.conn.g_c_schema) + 1 and self.conn.g_p_schema == self.conn.g_c_schema)",
                 },
                 raises={"OperationalError": None},
                 exc_ensures={"failed-inside-txn-leaves-durable-state": "implies(old(self.conn.g_in_txn), self.conn.g_c_schema == old(self.conn.g_c_schema) and self.conn.g_in_txn)"},
                 modifies=["Connection.g_p_schema", "Connection.g_c_schema", "Connection.g_has_versions"], **T, yields=True,
                 note="A-DB: one schema migration (CREATE TABLE / ALTER TABLE ...); every statement inside it is a crash point of its own in the bounded oracle")
    reg.dynamic_dispatch[r"self\.conn\.execute\('insert into versions \(version\) values \(\?\)', str\(idx\)\)"] = "Connection.insert_version"
    reg.contract("<sqlite>", "Connection.insert_version", params={"self": "ref:Database", "sql": "str", "v": "str"},
                 ensures={"row": "self.conn.g_p_ver == old(self.conn.g_p_ver) + 1 and self.conn.g_in_txn"},
                 modifies=["Connection.g_p_ver", "Connection.g_in_txn"], **T, yields=True, note="A-DB: DML is pending until COMMIT (opens an implicit transaction if none is open)")
    reg.dynamic_dispatch[r"self\.execute\('insert into versions \(version\) values \(\?\)', str\(idx\), commit=True\)"] = "Connection.insert_version_commit"
    reg.contract("<sqlite>", "Connection.insert_version_commit", params={"self": "ref:Database", "sql": "str", "v": "str", "commit": "bool"},
                 ensures={"row": "self.conn.g_c_ver == old(self.conn.g_p_ver) + 1 and self.conn.g_p_ver == self.conn.g_c_ver and self.conn.g_c_schema == old(self.conn.g_p_schema) and not self.conn.g_in_txn"},
                 modifies=["Connection.g_p_ver", "Connection.g_c_ver", "Connection.g_c_schema", "Connection.g_in_txn"], **T, yields=True, note="A-DB: INSERT then COMMIT")
    reg.dynamic_dispatch[r"self\.conn\.commit\(\)"] = "Connection.commit"
    reg.contract("<sqlite>", "Connection.commit", params={"self": "ref:Database"},
                 ensures={"durable": "self.conn.g_c_ver == old(self.conn.g_p_ver) and self.conn.g_c_schema == old(self.conn.g_p_schema) and not self.conn.g_in_txn and "
                                     "self.conn.g_p_ver == self.conn.g_c_ver and self.conn.g_p_schema == self.conn.g_c_schema"},
                 modifies=["Connection.g_c_ver", "Connection.g_c_schema", "Connection.g_in_txn", "Connection.g_p_ver", "Connection.g_p_schema"], **T, yields=True,
                 note="A-DB: COMMIT makes everything pending durable atomically")
    reg.dynamic_dispatch[r"self\.conn\.rollback\(\)"] = "Connection.rollback"
    reg.contract("<sqlite>", "Connection.rollback", params={"self": "ref:Database"},
                 ensures={"discarded": "self.conn.g_p_ver == self.conn.g_c_ver and self.conn.g_p_schema == self.conn.g_c_schema and not self.conn.g_in_txn"},
                 modifies=["Connection.g_in_txn", "Connection.g_p_ver", "Connection.g_p_schema"], **T, yields=True, note="A-DB")
    CONS = "self.conn.g_c_schema == self.conn.g_c_ver"
    reg.contract(
        D, "Database.apply_migrations", params={"self": "ref:Database"},
        requires={
            "durable-state-consistent": CONS,
            "no-open-txn": "not self.conn.g_in_txn and self.conn.g_p_ver == self.conn.g_c_ver and self.conn.g_p_schema == self.conn.g_c_schema",
            "versions-table": "self.conn.g_has_versions == (self.conn.g_c_ver > 0)",
            "not-ahead": "0 <= self.conn.g_c_ver and self.conn.g_c_ver <= len(MIGRATIONS)",
        },
        ensures={"all-applied": "self.conn.g_c_ver == len(MIGRATIONS) and " + CONS},
        raises={"OperationalError": None},
        # C11 (a): at EVERY point where the process can die, what is durable is a schema that start-up can continue from:
        # the number of durably applied migrations equals the number of durable version rows
        ghost={"crash_invariant": {"schema-matches-version-rows": CONS}},
        loops={0: {"invariant": {
            "progress": "self.conn.g_c_ver == version + _i and " + CONS + " and not self.conn.g_in_txn and self.conn.g_p_ver == self.conn.g_c_ver and self.conn.g_p_schema == self.conn.g_c_schema",
            "same-conn": "self.conn == old(self.conn)",
        }}},
        modifies=["Connection.g_c_ver", "Connection.g_c_schema", "Connection.g_in_txn", "Connection.g_p_ver", "Connection.g_p_schema", "Connection.g_has_versions"],
        is_async=True,
        props=["C11"],
    )

    reg.properties.setdefault("C11", {}).setdefault("bounded", []).append(
        {"name": "migration-kill-at-every-statement", "module": "harness.persist", "func": "MigrationCrash"})
