"""C09: mailbox names cannot reach outside the mail directory (parser + get_mailbox chain)."""


def declare(reg):
    T = dict(trusted=True)
    # the part of a mailbox name that is joined onto the mail directory (one leading "/" is our hierarchy prefix)
    reg.specfn("rel_name", "n: str", "str", "ite(n.startswith('/'), n[1:], n)")
    # joining `r` onto a directory stays inside it: not absolute, no `..` component
    reg.specfn("safe_rel", "r: str", "bool",
               "not r.startswith('/') and r != '..' and not r.startswith('../') and not ('/../' in r) and not r.endswith('/..')")
    reg.contract("<stdlib>", "os.path.normpath", params={"path": "str"}, ret="str",
                 ensures={
                     "non-empty": "len(result) > 0",
                     # `..` survives normalisation only as a leading run of a relative path
                     "dotdot-only-leading": "implies(not (result == '..' or result.startswith('../')), not ('/../' in result) and not result.endswith('/..'))",
                 }, **T, note="A-OS: posixpath.normpath collapses '.', '' and 'x/..'; '..' remains only at the start of a relative path")
    P = "asimap/parse.py"
    # the fixed-token matcher every command parser is built from (C08): it consumes exactly the token, only when the input starts with it
    # (case-insensitively unless told otherwise), and otherwise leaves the input alone
    reg.specfn("tok_match", "inp: str, tok: str, cs: bool", "bool",
               "len(inp) >= len(tok) and ite(cs, inp[:len(tok)] == tok, inp[:len(tok)].lower() == tok.lower())")
    reg.contract(P, "IMAPClientCommand._p_simple_string",
                 params={"self": "ref:IMAPClientCommand", "string": "str", "silent": "bool", "swallow": "bool", "case_matters": "bool", "syntax_error": "opt[str]"}, ret="opt[str]",
                 ensures={
                     "none-iff-no-match": "is_none(result) == (not tok_match(old(self.input), string, case_matters))",
                     "token-returned": "implies(not is_none(result), some(result) == ite(case_matters, string, string.lower()))",
                     "exactly-the-token-consumed": "self.input == ite(not is_none(result) and swallow, old(self.input)[len(string):], old(self.input))",
                 },
                 raises={"NoMatch": "not silent and not tok_match(self.input, string, case_matters)"},
                 exc_ensures={"input-kept": "self.input == old(self.input)"},
                 modifies=["self.input"],
                 props=["C08"])
    reg.contract(P, "IMAPClientCommand._p_astring", params={"self": "ref:IMAPClientCommand"}, ret="str",
                 raises={"NoMatch": None, "BadSyntax": None, "BadLiteral": None}, modifies=["self.input"], **T, note="parser primitive: returns an arbitrary string")
    reg.contract(
        P, "IMAPClientCommand._p_mailbox", params={"self": "ref:IMAPClientCommand"}, ret="str",
        ensures={"confined": "result == '' or safe_rel(rel_name(result))"},
        raises={"NoMatch": None, "BadSyntax": None, "BadLiteral": None},
        modifies=["self.input"],
        props=["C09", "C08"],
        ghost={"harness": "harness.confine:ParserNames", "call_asserts": {"_p_simple_string": {
            # C08 (d): the case-insensitive INBOX matcher is consulted only when the five letters are a whole token
            "inbox-is-a-whole-token": "self.input[5:6] == '' or self.input[5:6] == ' ' or self.input[5:6] == '\\r' or self.input[5:6] == '\\n' or self.input[5:6] == ')'",
        }}},
    )
    U = "asimap/user_server.py"
    reg.contract("asimap/mh.py", "MH.get_folder", params={"self": "ref:MH", "folder": "str"}, ret="ref:MH",
                 requires={"stays-inside": "safe_rel(folder)"}, raises={"NoSuchMailboxError": None}, **T,
                 note="path-forming primitive: os.path.join(self._path, folder); the precondition is what C09 demands of every caller")
    reg.contract(
        U, "IMAPUserServer.folder_exists", params={"self": "ref:IMAPUserServer", "name": "str"}, ret="bool",
        requires={"stays-inside": "safe_rel(name)"},
        props=["C09"],
    )
    reg.contract(
        U, "IMAPUserServer.get_mailbox", params={"self": "ref:IMAPUserServer", "name": "str"}, ret="ref:Mailbox",
        requires={"from-parser": "name == '' or safe_rel(rel_name(name))"},
        raises={"NoSuchMailbox": None},
        ghost={"cut": {"before_assign": "creating", "asserts": {
            # the name used for every later path-forming call (Mailbox.new -> MH.get_folder) is confined
            "activation-name-confined": "safe_rel(name)",
        }}},
        is_async=True,
        props=["C09"],
        note="verified up to the activation rendez-vous (cut point); `name` is not reassigned afterwards",
    )
    b = reg.properties.setdefault("C09", {}).setdefault("bounded", [])
    b.append({"name": "parser-names-exhaustive", "module": "harness.confine", "func": "ParserNames"})
    b.append({"name": "jail-e2e", "module": "harness.confine", "func": "Jail"})
    M = "asimap/mbox.py"
    for fn, names in (("create", ["name"]), ("delete", ["name"]), ("rename", ["old_name", "new_name"])):
        params = {n: "str" for n in names}
        params["server"] = "ref:IMAPUserServer"
        extra = {"inbox-is-never-deleted": "not eq_ci(name, 'inbox')"} if fn == "delete" else {}
        reg.contract(
            M, "Mailbox." + fn, params=params,
            requires={f"from-parser-{n}": f"{n} == '' or safe_rel(rel_name({n}))" for n in names},
            raises={"InvalidMailbox": None, "MailboxExists": None, "NoSuchMailbox": None, "MailboxException": None},
            ghost={"cut": {"before_assign": "mbox", "asserts": {
                # every path this classmethod forms afterwards (MH(maildir / name), remove_folder, rmtree, symlink/rename) uses this name
                **{f"path-name-confined-{n}": f"{n} == '' or safe_rel({n})" for n in names}, **extra,
            }}},
            is_async=True,
            props=["C09", "C17"] if fn == "delete" else ["C09"],
            note="verified up to the first mailbox lookup (cut point): after stripping the hierarchy prefix the name used for all later path-forming calls is confined; the names are not reassigned afterwards",
        )
    reg.properties.setdefault("C17", {}).setdefault("bounded", []).append(
        {"name": "namespace-invariants-e2e", "module": "harness.namespace", "func": "Namespace"})
    b17 = reg.properties.setdefault("C17", {}).setdefault("bounded", [])
    b17.append({"name": "rename-moves-subtree-content", "module": "harness.namespace", "func": "RenameSubtree"})
    b17.append({"name": "list-wildcards-vs-rfc-matcher", "module": "harness.namespace", "func": "ListPatterns"})
