"""asimap/user_server.py -- UIDVALIDITY counter (C02 e)."""


def declare(reg):
    U = "asimap/user_server.py"
    # A-DB: the one SQL statement of get_next_uid_vv, with commit=True, makes the new counter durable before it returns
    reg.dynamic_dispatch[r"self\.db\.execute\('UPDATE user_server SET uid_vv = \?', \(str\(self\.uid_vv\),\), commit=True\)"] = "Database.exec_set_uid_vv"
    reg.contract("<sqlite>", "Database.exec_set_uid_vv", params={"self": "ref:IMAPUserServer", "sql": "str", "params": "tuple[str]", "commit": "bool"},
                 ensures={"durable": "implies(commit, self.db.g_uid_vv == params[0])"}, modifies=["Database.g_uid_vv"], trusted=True, yields=True,
                 note="A-DB: UPDATE user_server SET uid_vv = ? followed by COMMIT stores exactly the bound parameter")
    reg.contract(
        U, "IMAPUserServer.get_next_uid_vv", params={"self": "ref:IMAPUserServer"}, ret="int",
        ensures={
            "fresh-and-larger": "result == old(self.uid_vv) + 1 and self.uid_vv == result",
            # the value handed out is the value on disk: after a restart the counter continues above every value ever returned
            "durable-before-use": "self.db.g_uid_vv == str(result)",
        },
        modifies=["self.uid_vv", "Database.g_uid_vv"],
        is_async=True,
        props=["C02", "C11"],
        ghost={"harness": "harness.e2e:UidValidity"},
    )
    reg.properties.setdefault("C02", {}).setdefault("bounded", []).append(
        {"name": "uidvalidity-recreate", "module": "harness.e2e", "func": "UidValidity"})
