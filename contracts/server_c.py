"""asimap/server.py -- framing towards the user process and the pre-authentication gate (C19 c, C18 a)."""


def declare(reg):
    S = "asimap/server.py"
    reg.contract(S, "IMAPSubprocessInterface.push", params={"self": "ref:IMAPSubprocessInterface", "data": "list[str]"},
                 ensures={"appended": "appended(self.g_out, old(self.g_out), data)", "len": "len(self.g_out) == len(old(self.g_out)) + len(data)"},
                 modifies=["self.g_out"], trusted=True, yields=True, ghost={"varargs": "data"},
                 note="A-ASYNC: writes the data, in order, to the user process's socket (ghost g_out records it)")
    reg.contract(S, "IMAPSubprocessInterface.unauthenticated", params={"self": "ref:IMAPSubprocessInterface", "msg": "str"}, ret="bool",
                 modifies=["PreAuthenticated.state", "PreAuthenticated.user", "ClientProxy.g_out"], trusted=True, yields=True,
                 note="assumed: parses and answers the command locally through PreAuthenticated.command; never writes to a user process (it has none before login)")
    G = "self.g_out"
    reg.contract(
        S, "IMAPSubprocessInterface.message",
        params={"self": "ref:IMAPSubprocessInterface", "msg": "str"}, ret="bool",
        ensures={
            # C18 (a): before authentication nothing reaches the per-user process
            "gate": f"implies(old(self.client_handler.state) != ClientState.AUTHENTICATED, same({G}, old({G})))",
            # C19 (c): one frame per message: '{<octets>}\\n' followed by exactly the message
            "frame": f"implies(old(self.client_handler.state) == ClientState.AUTHENTICATED, result == True and len({G}) == len(old({G})) + 2 and "
                     f"{G}[len({G}) - 2] == '{{' + str(len(msg)) + '}}\\n' and {G}[len({G}) - 1] == msg)",
        },
        modifies=["self.g_out", "PreAuthenticated.state", "PreAuthenticated.user", "ClientProxy.g_out"],
        is_async=True,
        props=["C19", "C18"],
    )
    reg.properties.setdefault("C19", {}).setdefault("bounded", []).append(
        {"name": "read-loop-vs-reference-tokenizer", "module": "harness.frontend", "func": "ReadLoop"})
