"""asimap/server.py -- framing towards the user process and the pre-authentication gate (C19 c, C18 a)."""


def declare(reg):
    S = "asimap/server.py"
    reg.contract(S, "IMAPSubprocessInterface.push", params={"self": "ref:IMAPSubprocessInterface", "data": "list[str]"},
                 ensures={"appended": "appended(self.g_out, old(self.g_out), data)", "len": "len(self.g_out) == len(old(self.g_out)) + len(data)"},
                 modifies=["self.g_out"], trusted=True, yields=True, ghost={"varargs": "data"},
                 note="A-ASYNC: writes the data, in order, to the user process's socket (ghost g_out records it)")
    reg.contract(S, "IMAPSubprocessInterface.unauthenticated", params={"self": "ref:IMAPSubprocessInterface", "msg": "str"}, ret="bool",
                 modifies=["PreAuthenticated.state", "PreAuthenticated.user", "ClientProxy.g_out"], trusted=True, yields=True,
                 note="assumed: parses and answers the command locally through PreAuthenticated.command; never writes to a user process (it has none before login)")
    G = "self.g_out"
    reg.contract(
        S, "IMAPSubprocessInterface.message",
        params={"self": "ref:IMAPSubprocessInterface", "msg": "str"}, ret="bool",
        ensures={
            # C18 (a): before authentication nothing reaches the per-user process
            "gate": f"implies(old(self.client_handler.state) != ClientState.AUTHENTICATED, same({G}, old({G})))",
            # C19 (c): one frame per message: '{<octets>}\\n' followed by exactly the message
            "frame": f"implies(old(self.client_handler.state) == ClientState.AUTHENTICATED, result == True and len({G}) == len(old({G})) + 2 and "
                     f"{G}[len({G}) - 2] == '{{' + str(len(msg)) + '}}\\n' and {G}[len({G}) - 1] == msg)",
        },
        modifies=["self.g_out", "PreAuthenticated.state", "PreAuthenticated.user", "ClientProxy.g_out"],
        is_async=True,
        props=["C19", "C18"],
    )
    reg.properties.setdefault("C19", {}).setdefault("bounded", []).append(
        {"name": "read-loop-vs-reference-tokenizer", "module": "harness.frontend", "func": "ReadLoop"})
    # C08 (c) "literals are taken by octet count, nothing is left unparsed": the command text the parser sees is assembled by this read loop
    reg.properties.setdefault("C08", {}).setdefault("bounded", []).append(
        {"name": "read-loop-vs-reference-tokenizer", "module": "harness.frontend", "func": "ReadLoop"})
    reg.properties.setdefault("C19", {}).setdefault("bounded", []).append(
        {"name": "response-relay-unmodified", "module": "harness.frontend", "func": "Relay"})

    # ---- msgs_to_client (C19 d): what the user process sends reaches the IMAP client unmodified and in order -------------------
    reg.classdef("StreamReader", {"g_chunks": "list[str]", "g_pos": "int"})
    reg.classdef("IMAPClientFront", {"g_out": "list[str]"})
    reg.classes["IMAPSubprocessInterface"].fields["reader"] = __import__("pyvc.sorts", fromlist=["parse_ty"]).parse_ty("ref:StreamReader")
    reg.classes["IMAPSubprocessInterface"].fields["imap_client"] = __import__("pyvc.sorts", fromlist=["parse_ty"]).parse_ty("ref:IMAPClientFront")
    for e in ("IncompleteReadError", "LimitOverrunError"):
        reg.exc_parents.setdefault(e, "Exception")
    reg.contract("<asyncio>", "StreamReader.read", params={"self": "ref:StreamReader", "n": "int"}, ret="str",
                 ensures={"next-chunk": "ite(old(self.g_pos) < len(self.g_chunks), result == self.g_chunks[old(self.g_pos)] and len(result) > 0 and self.g_pos == old(self.g_pos) + 1, "
                                        "result == '' and self.g_pos == old(self.g_pos))"},
                 raises={"OSError": None, "IncompleteReadError": None, "ConnectionResetError": None},
                 exc_ensures={"nothing-consumed": "self.g_pos == old(self.g_pos)"},
                 modifies=["self.g_pos"], trusted=True, yields=True,
                 note="A-ASYNC: read(n) returns the next non-empty piece of the byte stream (ghost g_chunks: the pieces in arrival order), b'' at end of stream")
    reg.contract(S, "IMAPClientFront.push", params={"self": "ref:IMAPClientFront", "data": "list[str]"},
                 ensures={"appended": "appended(self.g_out, old(self.g_out), data)", "len": "len(self.g_out) == len(old(self.g_out)) + len(data)"},
                 raises={"OSError": None, "ConnectionResetError": None}, exc_ensures={"nothing-written": "same(self.g_out, old(self.g_out))"},
                 modifies=["self.g_out"], trusted=True, yields=True, ghost={"varargs": "data"},
                 note="A-ASYNC: IMAPClient.push writes the data, in order, to the IMAP client's socket (ghost g_out)")
    reg.contract(S, "IMAPClientFront.close", params={"self": "ref:IMAPClientFront"}, trusted=True, yields=True, note="closes the connection; writes nothing")
    reg.contract(S, "IMAPSubprocessInterface.close", params={"self": "ref:IMAPSubprocessInterface"}, trusted=True, yields=True, note="closes the connection to the user process; writes nothing to the client")
    OUT = "self.imap_client.g_out"
    N0 = f"len(old({OUT}))"
    P0 = "old(self.reader.g_pos)"
    reg.contract(
        S, "IMAPSubprocessInterface.msgs_to_client", params={"self": "ref:IMAPSubprocessInterface"},
        ensures={
            # everything written to the client is, piece by piece and in order, what the user process sent
            "relayed-unmodified-in-order": f"forall(lambda i: implies({N0} <= i and i < len({OUT}), {OUT}[i] == self.reader.g_chunks[{P0} + (i - {N0})]))",
            "earlier-output-kept": f"len({OUT}) >= {N0} and forall(lambda i: implies(0 <= i and i < {N0}, {OUT}[i] == old({OUT})[i]))",
            # nothing is skipped: at most the one piece whose write failed is missing at the end
            "nothing-skipped": f"len({OUT}) - {N0} == self.reader.g_pos - {P0} or len({OUT}) - {N0} == self.reader.g_pos - {P0} - 1",
        },
        requires={"pos-in-range": "0 <= self.reader.g_pos and self.reader.g_pos <= len(self.reader.g_chunks)"},
        loops={0: {"invariant": {
            "relayed-so-far": f"len({OUT}) - {N0} == self.reader.g_pos - {P0} and {P0} <= self.reader.g_pos and self.reader.g_pos <= len(self.reader.g_chunks) and "
                              f"forall(lambda i: implies({N0} <= i and i < len({OUT}), {OUT}[i] == self.reader.g_chunks[{P0} + (i - {N0})])) and "
                              f"len({OUT}) >= {N0} and forall(lambda i: implies(0 <= i and i < {N0}, {OUT}[i] == old({OUT})[i]))",
            "same-streams": "self.reader == old(self.reader) and self.imap_client == old(self.imap_client)",
        }}},
        modifies=["StreamReader.g_pos", "IMAPClientFront.g_out"],
        is_async=True,
        props=["C19"],
        ghost={"harness": "harness.frontend:Relay"},
    )
    for pid in ("C08", "C06", "C19"):
        reg.properties.setdefault(pid, {}).setdefault("bounded", []).append(
            {"name": "proxy-loop-answers-every-command", "module": "harness.frontend", "func": "ProxyLoop"})
