"""asimap/parse.py -- exception safety of the command parser (C08 a): only BadCommand subclasses escape."""


def declare(reg):
    P = "asimap/parse.py"
    T = dict(trusted=True)
    BADS = {"NoMatch": None, "BadSyntax": None, "BadLiteral": None, "UnknownCommand": None, "UnknownSearchKey": None, "BadCommand": None}
    reg.contract(P, "IMAPClientCommand._parse", params={"self": "ref:IMAPClientCommand"},
                 raises={**BADS, "RecursionError": None}, **T,
                 note="the ~70 _p_* recursive-descent functions are not under contract: assumed to raise only BadCommand subclasses, "
                      "or RecursionError for deeply nested search programs / parenthesised lists (observed; bounded oracle harness.parser:Totality)")
    reg.contract(
        P, "IMAPClientCommand.parse", params={"self": "ref:IMAPClientCommand"}, ret="ref:IMAPClientCommand",
        raises=dict(BADS),  # in particular: no RecursionError reaches the caller, who only catches BadCommand
        props=["C08"],
        ghost={"harness": "harness.parser:Totality"},
    )
    # ---- _p_date: a token that matches the date grammar but is not a date must become BAD, not ValueError -----
    reg.contract(P, "IMAPClientCommand._p_re", params={"self": "ref:IMAPClientCommand", "regexp": "opaque:Pattern", "syntax_error": "opt[str]", "silent": "bool"},
                 ret="opt[str]", raises={"NoMatch": None, "BadSyntax": None},
                 ensures={"matched-unless-silent": "implies(not silent, not is_none(result))"}, **T,
                 note="parser primitive (prefix match and consume): returns the matched text, or None only in silent mode")
    reg.dynamic_dispatch[r"self\._p_re\(_date_re\)"] = "IMAPClientCommand.p_re_date"
    reg.contract(P, "IMAPClientCommand.p_re_date", params={"self": "ref:IMAPClientCommand", "regexp": "opaque:Pattern"}, ret="opt[str]",
                 raises={"NoMatch": None, "BadSyntax": None}, ensures={"matched": "not is_none(result) and len(some(result)) > 0"}, **T,
                 note="parser primitive on _date_re: the date pattern cannot match the empty string; a failed match raises NoMatch")
    reg.opaque_names["_date_re"] = "opaque:Pattern"
    reg.opaque_names["_date_time_re"] = "opaque:Pattern"
    reg.dynamic_dispatch[r"_date_re\.match\(date_exp\)"] = "re.date_match"
    reg.contract("<re>", "re.date_match", params={"self": "ref:IMAPClientCommand", "s": "str"}, ret="opt[ref:ReMatch]",
                 ensures={"rematch": "not is_none(result)"}, **T, note="A-RE: re-matching the text the same pattern has just matched succeeds")
    reg.dynamic_dispatch[r"match\.group\('year'\)"] = "re.group_year"
    reg.dynamic_dispatch[r"match\.group\('day'\)"] = "re.group_day"
    reg.dynamic_dispatch[r"match\.group\('month'\)\.lower\(\)"] = "re.group_month_lower"
    DIG = "forall(lambda i: implies(0 <= i and i < len(result), '0' <= result[i] and result[i] <= '9'))"
    reg.contract("<re>", "re.group_year", params={"self": "ref:IMAPClientCommand", "g": "str"}, ret="str",
                 ensures={"four-digits": "len(result) == 4 and is_numeral(result)"}, **T, note="A-RE: (?P<year>\\d{4})")
    reg.contract("<re>", "re.group_day", params={"self": "ref:IMAPClientCommand", "g": "str"}, ret="str",
                 ensures={"digits": "1 <= len(result) and len(result) <= 2 and is_numeral(result)"}, **T, note="A-RE: (?P<day>\\d{1,2})")
    reg.contract("<re>", "re.group_month_lower", params={"self": "ref:IMAPClientCommand"}, ret="str",
                 ensures={"month-name": "result in _month"}, **T, note="A-RE: (?P<month>jan|feb|...) matched case-insensitively, then lower()")
    reg.contract("<datetime>", "datetime.date", params={"year": "int", "month": "int", "day": "int"}, ret="opaque:date",
                 raises={"ValueError": "may:not (1 <= year and year <= 9999 and 1 <= month and month <= 12 and 1 <= day and day <= 28)"}, **T,
                 note="datetime.date raises ValueError for impossible dates (day 29-31 may or may not be valid: treated as possibly raising)")
    reg.contract(
        P, "IMAPClientCommand._p_date", params={"self": "ref:IMAPClientCommand"}, ret="opaque:date",
        raises={"NoMatch": None, "BadSyntax": None},
        props=["C08"],
        ghost={"harness": "harness.parser:Totality"},
    )

    reg.properties.setdefault("C08", {}).setdefault("bounded", []).append(
        {"name": "parser-totality-fuzz", "module": "harness.parser", "func": "Totality"})
    reg.properties.setdefault("C08", {}).setdefault("bounded", []).append(
        {"name": "parser-terminates", "module": "harness.parser", "func": "Terminates"})

    # ---- _p_string (C08): quoted-string escapes are decoded; literals are taken by octet count -----------------------------
    QRE = r'''r'"([^\r\n\\"]|\\["\\])*"' '''.strip()
    reg.specfn("unescaped", "s: str", "str", doc=r's with every \" replaced by " and every \\ by \ (re.sub; bounded tier harness.parser:QuotedStrings)')
    reg.specfn("quoted_prefix", "inp: str", "str", doc="the quoted string the input starts with (what _quoted_re matches at position 0)")
    reg.specfn("lit_digits", "inp: str", "str", doc="the digits of the literal prefix '{<digits>[+]}CRLF' the input starts with")
    reg.opaque_names["_quoted_re"] = "opaque:Pattern"
    reg.opaque_names["_lit_ref_re"] = "opaque:Pattern"
    reg.opaque_names["_quoted_special_re"] = "opaque:Pattern"
    reg.dynamic_dispatch[r"self\._p_re\(_quoted_re\)"] = "IMAPClientCommand.p_re_quoted"
    reg.contract(P, "IMAPClientCommand.p_re_quoted", params={"self": "ref:IMAPClientCommand", "regexp": "opaque:Pattern"}, ret="str",
                 raises={"NoMatch": None}, exc_ensures={"untouched": "self.input == old(self.input)"},
                 ensures={"matched": f"matches(result, {QRE})", "consumed": "old(self.input) == result + self.input", "is": "result == quoted_prefix(old(self.input))"},
                 modifies=["self.input"], **T,
                 note="parser primitive on _quoted_re: the prefix of the input that is a quoted string is consumed and returned; NoMatch when there is none")
    reg.dynamic_dispatch[r"self\._p_re\(_lit_ref_re, group=1\)"] = "IMAPClientCommand.p_re_litref"
    reg.contract(P, "IMAPClientCommand.p_re_litref", params={"self": "ref:IMAPClientCommand", "regexp": "opaque:Pattern", "group": "int"}, ret="str",
                 raises={"NoMatch": None}, exc_ensures={"untouched": "self.input == old(self.input)"},
                 ensures={"digits": "is_numeral(result)", "is": "result == lit_digits(old(self.input))",
                          "consumed": r"old(self.input) == '{' + result + '}\r\n' + self.input or old(self.input) == '{' + result + '+}\r\n' + self.input"},
                 modifies=["self.input"], **T,
                 note="parser primitive on _lit_ref_re: consumes '{<digits>[+]}CRLF' and returns the digits")
    reg.dynamic_dispatch[r"_quoted_special_re\.sub\('\\\\1', .*\)"] = "re.unescape_quoted"
    reg.contract("<re>", "re.unescape_quoted", params={"self": "ref:IMAPClientCommand", "repl": "str", "s": "str"}, ret="str",
                 ensures={"is": "result == unescaped(s)"}, **T, note=r'A-RE: re.sub of \\(["\\]) by its group 1 (bounded tier harness.parser:QuotedStrings)')
    OLD = "old(self.input)"
    reg.contract(
        P, "IMAPClientCommand._p_string", params={"self": "ref:IMAPClientCommand"}, ret="str",
        ensures={
            # a quoted string means its text with the escapes decoded, and exactly the quoted string is consumed
            "quoted-decoded": f"""implies({OLD}.startswith('"'), {OLD} == quoted_prefix({OLD}) + self.input and result == unescaped(quoted_prefix({OLD})[1:len(quoted_prefix({OLD})) - 1]))""",
            # a literal is taken by count: exactly the announced number of characters after the '{n}CRLF' prefix, whatever they are
            "literal-by-count": f"""implies(not {OLD}.startswith('"'), len(result) == int(lit_digits({OLD})) and """
                                f"""({OLD} == '{{' + lit_digits({OLD}) + '}}\\r\\n' + result + self.input or {OLD} == '{{' + lit_digits({OLD}) + '+}}\\r\\n' + result + self.input))""",
        },
        raises={"NoMatch": None, "BadLiteral": None},
        modifies=["self.input"],
        props=["C08"],
        ghost={"harness": "harness.parser:QuotedStrings"},
    )
    reg.properties.setdefault("C08", {}).setdefault("bounded", []).append(
        {"name": "quoted-strings-decoded", "module": "harness.parser", "func": "QuotedStrings"})
    reg.properties.setdefault("C08", {}).setdefault("bounded", []).append(
        {"name": "fetch-attributes-decoded", "module": "harness.parser", "func": "FetchAtts"})

    # ---- is_seq_num (C08, C15): a sequence number token is decoded to exactly its value, '*' stays '*', and nothing is ever raised ----
    reg.contract(
        P, "IMAPClientCommand.is_seq_num", params={"self": "ref:IMAPClientCommand", "val": "str"}, ret="opt[IntOrStar]",
        ensures={
            "numeral-is-its-value": "implies(is_numeral(val), not is_none(result) and isinstance(some(result), int) and int_of(some(result)) == int(val))",
            "star-stays": "implies(val == '*', not is_none(result) and isinstance(some(result), str) and str_of(some(result)) == '*')",
            "anything-else-is-none": "implies(not is_numeral(val) and val != '*', is_none(result))",
            # (true by definition of the named predicate; stated so that callers reasoning with it get the instance for this text)
            "named-predicate": "num_text(val) == is_numeral(val)",
        },
        raises={},  # in particular not the builtin SyntaxError of its unreachable branch: the callers only catch BadCommand
        props=["C08", "C15"],
        ghost={"harness": "harness.parser:Totality"},
    )

    # ---- _p_msg_set (C15, C08): the text of a sequence set is decoded piece by piece into a well-formed message set -------------
    SIDE = r"(\d+|\*)"
    reg.classes["ReMatch"].fields["g1"] = __import__("pyvc.sorts", fromlist=["parse_ty"]).parse_ty("str")
    reg.classes["ReMatch"].fields["g2"] = __import__("pyvc.sorts", fromlist=["parse_ty"]).parse_ty("str")
    reg.opaque_names["_msg_set_re"] = "opaque:Pattern"
    reg.opaque_names["_msg_set_pair_re"] = "opaque:Pattern"
    reg.specfn("msg_set_prefix", "inp: str", "str", doc="the longest prefix of the input made of digits, ',', ':' and '*' (what _msg_set_re matches at position 0)")
    reg.dynamic_dispatch[r"self\._p_re\(_msg_set_re, syntax_error='missing or invalid message sequence set'\)"] = "IMAPClientCommand.p_re_msg_set"
    reg.contract(P, "IMAPClientCommand.p_re_msg_set", params={"self": "ref:IMAPClientCommand", "regexp": "opaque:Pattern", "syntax_error": "str"}, ret="opt[str]",
                 raises={"NoMatch": None, "BadSyntax": None}, exc_ensures={"untouched": "self.input == old(self.input)"},
                 ensures={"matched": r"not is_none(result) and matches(some(result), r'[0-9,:*]+')", "consumed": "old(self.input) == some(result) + self.input",
                          "is": "some(result) == msg_set_prefix(old(self.input))"},
                 modifies=["self.input"], **T, note="parser primitive on _msg_set_re: consumes and returns the longest prefix made of digits, ',', ':' and '*' (at least one character)")
    reg.specfn("pair_left", "t: str", "str", doc="the text before the ':' of a range a:b (group 1 of _msg_set_pair_re)")
    reg.specfn("pair_right", "t: str", "str", doc="the text after the ':' of a range a:b (group 2 of _msg_set_pair_re)")
    reg.dynamic_dispatch[r"_msg_set_pair_re\.search\(seq_num\)"] = "re.pair_search"
    reg.contract("<re>", "re.pair_search", params={"self": "ref:IMAPClientCommand", "s": "str"}, ret="opt[ref:ReMatch]",
                 ensures={"iff": rf"(not is_none(result)) == matches(s, r'{SIDE}:{SIDE}')",
                          "groups": rf"implies(not is_none(result), some(result).g1 == pair_left(s) and some(result).g2 == pair_right(s) and s == pair_left(s) + ':' + pair_right(s) and "
                                    rf"matches(pair_left(s), r'{SIDE}') and matches(pair_right(s), r'{SIDE}'))"},
                 **T, note=r"A-RE: ^(\d+|\*):(\d+|\*)$ matches exactly the texts a:b with a, b a numeral or '*'; groups 1 and 2 are a and b")
    reg.dynamic_dispatch[r"search\.group\(1\)"] = "re.pair_group1"
    reg.dynamic_dispatch[r"search\.group\(2\)"] = "re.pair_group2"
    for g in ("1", "2"):
        reg.contract("<re>", "re.pair_group" + g, params={"self": "ref:IMAPClientCommand", "m": "opt[ref:ReMatch]"}, ret="str",
                     ensures={"is": f"result == some(m).g{g}"}, **T, ghost={"skip_args": True, "bind_locals": {"m": "search"}}, note="A-RE: group " + g + " of the match")
    reg.specfn("num_text", "t: str", "bool", "is_numeral(t)", recursive=True, doc="t is a numeral (a named predicate, so that quantified invariants mention an atom instead of a regular-language membership)")
    reg.specfn("side_of", "b: IntOrStar, t: str", "bool", "ite(t == '*', isinstance(b, str) and str_of(b) == '*', isinstance(b, int) and int_of(b) == int(t))",
               doc="one side of a range, or a single number, as decoded from its text")
    reg.specfn("piece_decoded", "e: MsgElt, t: str", "bool",
               "ite(num_text(t), isinstance(e, int) and int_of(e) == int(t), ite(t == '*', isinstance(e, str) and str_of(e) == '*', "
               "isinstance(e, tuple) and t == pair_left(t) + ':' + pair_right(t) and side_of(e[0], pair_left(t)) and side_of(e[1], pair_right(t))))",
               recursive=True, doc="a message-set element is what its comma-separated piece of text says")
    reg.contract(
        P, "IMAPClientCommand._p_msg_set", params={"self": "ref:IMAPClientCommand"}, ret="list[MsgElt]",
        ensures={
            # what every evaluator of message sets requires (C15): the parser is where that precondition comes from
            "well-formed": "wf_msgset(result)",
            # C08: decoded faithfully, piece by piece, in order
            "piece-by-piece": "old(self.input) == msg_set_prefix(old(self.input)) + self.input and len(result) == len(msg_set_prefix(old(self.input)).split(',')) and "
                              "forall(lambda i: implies(0 <= i and i < len(result), piece_decoded(result[i], msg_set_prefix(old(self.input)).split(',')[i])))",
        },
        raises={"NoMatch": None, "BadSyntax": None},
        modifies=["self.input"],
        loops={0: {"invariant": {
            "count": "len(result) == _i",
            "wf-so-far": "forall(lambda j: implies(0 <= j and j < _i, wf_elt(result[j])))",
            "numbers-so-far": "forall(lambda j: implies(0 <= j and j < _i and num_text(_it[j]), isinstance(result[j], int) and int_of(result[j]) == int(_it[j])))",
            "stars-so-far": "forall(lambda j: implies(0 <= j and j < _i and _it[j] == '*', isinstance(result[j], str) and str_of(result[j]) == '*'))",
            "ranges-so-far": "forall(lambda j: implies(0 <= j and j < _i and not num_text(_it[j]) and _it[j] != '*', isinstance(result[j], tuple) and _it[j] == pair_left(_it[j]) + ':' + pair_right(_it[j]) and "
                             "side_of(result[j][0], pair_left(_it[j])) and side_of(result[j][1], pair_right(_it[j]))))",
            "input-kept": "self.input == lpre(self.input)",
        }}},
        locals_={"result": "list[MsgElt]"},
        props=["C15", "C08"],
    )
