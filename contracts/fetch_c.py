"""asimap/fetch.py -- literal framing and partial slices of BODY[...] (C16 c, d; C07 b)."""


def declare(reg):
    F = "asimap/fetch.py"
    reg.specfn("section_text", "att: ref:FetchAtt, msg: opaque:EmailMessage, section: opaque:Section", "str",
               doc="A-EMAIL: what FetchAtt._body renders for that section (deterministic, uninterpreted)")
    reg.specfn("crlf_terminated", "t: str", "str", "ite(t.endswith('\\r\\n'), t, t + '\\r\\n')")
    reg.contract(F, "FetchAtt._body", params={"self": "ref:FetchAtt", "msg": "opaque:EmailMessage", "section": "opaque:Section"}, ret="str",
                 ensures={"is": "result == section_text(self, msg, section)"}, raises={"BadSection": None}, trusted=True,
                 note="A-EMAIL: section selection over the email package's message tree; deterministic")
    T = "crlf_terminated(section_text(self, msg, section))"
    reg.contract(
        F, "FetchAtt.body",
        params={"self": "ref:FetchAtt", "msg": "opaque:EmailMessage", "section": "opaque:Section"}, ret="str",
        requires={"partial-nonneg": "is_none(self.partial) or (some(self.partial)[0] >= 0 and some(self.partial)[1] >= 0)"},
        ensures={
            # (d) the literal's announced octet count equals its data
            "literal-count": "result == '{' + str(len(local('msg_text'))) + '}\\r\\n' + local('msg_text')",
            # every returned text ends in CRLF when no partial is requested
            "whole-text": f"implies(is_none(self.partial), local('msg_text') == {T})",
            # (c) a <o.n> partial is exactly that slice of the CRLF-terminated text
            "partial-slice": f"implies(not is_none(self.partial), local('msg_text') == {T}[some(self.partial)[0] : some(self.partial)[0] + some(self.partial)[1]])",
        },
        raises={"BadSection": None},
        props=["C16", "C07"],
        ghost={"harness": "harness.fetchdata:BodyFraming"},
    )

    # ---- C07 (c, e): every header value leaves encode_header as a well-formed quoted string of the unwrapped encoding ----
    T = dict(trusted=True)
    WF = r'''matches(result, r'"([^"\\\r\n]|\\[\\"])*"')'''
    reg.classes.get("Header") or reg.classdef("Header", {"src": "str"})
    reg.specfn("decodes_to", "x: str, src: str", "bool", doc="A-EMAIL: x, with CR and LF removed, is RFC 2047 encoded-word text that decodes to src")
    reg.specfn("fquoted", "s: str", "str", doc="fetch.quote_string: the IMAP quoted form (bounded tier: exhaustive over a 7-letter alphabet)")
    reg.specfn("py_latin1_replace", "s: str", "str", doc="str.encode('latin-1', errors='replace'): same z3 symbol the engine uses for that call")
    reg.contract("<email>", "email.header.Header", params={"s": "str"}, ret="ref:Header", ensures={"src": "result.src == s"}, **T, note="A-EMAIL")
    reg.contract("<email>", "Header.encode", params={"self": "ref:Header", "maxlinelen": "int"}, ret="str",
                 ensures={"decodes": "decodes_to(result, self.src)"}, raises={"UnicodeEncodeError": None}, **T,
                 note="A-EMAIL: whatever the line length, the encoded words decode to the source once the folding CR/LF are removed (white space between encoded words is not part of the text)")
    reg.contract(F, "quote_string", params={"value": "str"}, ret="str",
                 ensures={"is": "result == fquoted(value)", "well-formed": WF}, **T,
                 note="bounded tier (harness.fetchdata:QuoteString): a chain of four replace_all calls, which neither z3 nor cvc5 decides against the quoted-string grammar")
    reg.contract(
        F, "encode_header", params={"hdr": "str"}, ret="str",
        ensures={
            # (c) quoted strings contain no raw CR, LF, unescaped double quote or backslash
            "well-formed-quoted": WF,
            # (e) the string is the quoted form of the latin-1 text, or of its unwrapped RFC 2047 encoding
            "latin1-verbatim": "implies(matches(hdr, r'[\\x00-\\xff]*'), result == fquoted(hdr))",
            "faithful": "result == fquoted(hdr) or result == fquoted(py_latin1_replace(hdr)) or exists(lambda x: decodes_to(x, hdr) and result == fquoted(x), 'str')",
        },
        raises={},
        props=["C07"],
        ghost={"harness": "harness.fetchdata:EnvelopeStrings"},
    )
    reg.contract(
        F, "header_or_nil", params={"msg": "opaque:EmailMessage", "field": "str"}, ret="str",
        ensures={"nil-or-quoted": "ite(has_hdr(msg, field), result == fquoted(hdr(msg, field)) or result == fquoted(py_latin1_replace(hdr(msg, field))) or exists(lambda x: decodes_to(x, hdr(msg, field)) and result == fquoted(x), 'str'), result == 'NIL')",
                 "well-formed": "result == 'NIL' or " + WF},
        raises={},
        props=["C07"],
        ghost={"harness": "harness.fetchdata:EnvelopeStrings"},
    )

    reg.properties.setdefault("C16", {}).setdefault("bounded", []).append(
        {"name": "fetch-data-consistency-corpus", "module": "harness.fetchdata", "func": "BodyFraming"})

    b7 = reg.properties.setdefault("C07", {}).setdefault("bounded", [])
    b7.append({"name": "quote-string-exhaustive", "module": "harness.fetchdata", "func": "QuoteString"})
    b7.append({"name": "envelope-strings-round-trip", "module": "harness.fetchdata", "func": "EnvelopeStrings"})
    reg.properties.setdefault("C07", {}).setdefault("bounded", []).append(
        {"name": "responses-tokenise-rfc3501", "module": "harness.fetchdata", "func": "ResponseGrammar"})
    reg.properties.setdefault("C16", {}).setdefault("bounded", []).append(
        {"name": "append-round-trip", "module": "harness.fetchdata", "func": "AppendRoundTrip"})
