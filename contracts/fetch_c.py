"""asimap/fetch.py -- literal framing and partial slices of BODY[...] (C16 c, d; C07 b)."""


def declare(reg):
    F = "asimap/fetch.py"
    reg.specfn("section_text", "att: ref:FetchAtt, msg: opaque:EmailMessage, section: opaque:Section", "str",
               doc="A-EMAIL: what FetchAtt._body renders for that section (deterministic, uninterpreted)")
    reg.specfn("crlf_terminated", "t: str", "str", "ite(t.endswith('\\r\\n'), t, t + '\\r\\n')")
    reg.contract(F, "FetchAtt._body", params={"self": "ref:FetchAtt", "msg": "opaque:EmailMessage", "section": "opaque:Section"}, ret="str",
                 ensures={"is": "result == section_text(self, msg, section)"}, raises={"BadSection": None}, trusted=True,
                 note="A-EMAIL: section selection over the email package's message tree; deterministic")
    T = "crlf_terminated(section_text(self, msg, section))"
    reg.contract(
        F, "FetchAtt.body",
        params={"self": "ref:FetchAtt", "msg": "opaque:EmailMessage", "section": "opaque:Section"}, ret="str",
        requires={"partial-nonneg": "is_none(self.partial) or (some(self.partial)[0] >= 0 and some(self.partial)[1] >= 0)"},
        ensures={
            # (d) the literal's announced octet count equals its data
            "literal-count": "result == '{' + str(len(local('msg_text'))) + '}\\r\\n' + local('msg_text')",
            # every returned text ends in CRLF when no partial is requested
            "whole-text": f"implies(is_none(self.partial), local('msg_text') == {T})",
            # (c) a <o.n> partial is exactly that slice of the CRLF-terminated text
            "partial-slice": f"implies(not is_none(self.partial), local('msg_text') == {T}[some(self.partial)[0] : some(self.partial)[0] + some(self.partial)[1]])",
        },
        raises={"BadSection": None},
        props=["C16", "C07"],
        ghost={"harness": "harness.fetchdata:BodyFraming"},
    )

    reg.properties.setdefault("C16", {}).setdefault("bounded", []).append(
        {"name": "fetch-data-consistency-corpus", "module": "harness.fetchdata", "func": "BodyFraming"})
