"""asimap/mbox.py"""


def declare(reg):
    P = "asimap/mbox.py"
    # the UID paired with an MH key (None when the key is not in the mailbox)
    reg.specfn(
        "uid_of_key", "m: ref:Mailbox, k: int", "opt[int]",
        "ite(k in m._msg_key_to_idx, m.uids[get(m._msg_key_to_idx, k)], None)",
    )
    reg.contract(
        P, "Mailbox.get_uid_from_msg",
        params={"self": "ref:Mailbox", "msg_key": "int"}, ret="tuple[int,opt[int]]",
        ensures={"vv": "result[0] == self.uid_vv", "uid": "result[1] == uid_of_key(self, msg_key)"},
        props=["C14", "C03"],
    )
    reg.specfn("uid_max", "m: ref:Mailbox", "int", "ite(len(m.uids) > 0, m.uids[len(m.uids) - 1], 1)")
    reg.contract(
        P, "Mailbox.msg_set_to_msg_seq_set",
        params={"self": "ref:Mailbox", "msg_set": "opt[list[MsgElt]]", "from_uids": "bool"}, ret="opt[set[int]]",
        requires={"wf": "is_none(msg_set) or wf_msgset(some(msg_set))"},
        ensures={
            "none": "is_none(result) == is_none(msg_set)",
            "seq-denote": "implies(not is_none(msg_set) and not from_uids, "
                          "forall(lambda x: (x in some(result)) == denotes(some(msg_set), self.num_msgs, x)))",
            "uid-denote-sound": "implies(not is_none(msg_set) and from_uids, "
                                "forall(lambda n: implies(n in some(result), 1 <= n and n <= len(self.uids) and denotes(some(msg_set), uid_max(self), self.uids[n - 1]))))",
            "uid-denote-complete": "implies(not is_none(msg_set) and from_uids, "
                                   "forall(lambda n: implies(1 <= n and n <= len(self.uids) and denotes(some(msg_set), uid_max(self), self.uids[n - 1]), n in some(result))))",
        },
        raises={"Bad": "not is_none(msg_set) and has_bad(some(msg_set), ite(from_uids, uid_max(self), self.num_msgs), from_uids, len(some(msg_set)))"},
        props=["C15", "C03"],
        ghost={"harness": "harness.seqset:MsgSetToSeqSet"},
    )
    reg.properties.setdefault("C15", {}).setdefault("bounded", []).append(
        {"name": "msg_set_to_msg_seq_set-vs-denote", "module": "harness.seqset", "func": "MsgSetToSeqSet"}
    )
