"""asimap/mbox.py"""


def declare(reg):
    P = "asimap/mbox.py"
    # the UID paired with an MH key (None when the key is not in the mailbox)
    reg.specfn(
        "uid_of_key", "m: ref:Mailbox, k: int", "opt[int]",
        "ite(k in m._msg_key_to_idx, m.uids[get(m._msg_key_to_idx, k)], None)",
    )
    reg.contract(
        P, "Mailbox.get_uid_from_msg",
        params={"self": "ref:Mailbox", "msg_key": "int"}, ret="tuple[int,opt[int]]",
        ensures={"vv": "result[0] == self.uid_vv", "uid": "result[1] == uid_of_key(self, msg_key)"},
        props=["C14", "C03"],
    )
    reg.specfn("uid_max", "m: ref:Mailbox", "int", "ite(len(m.uids) > 0, m.uids[len(m.uids) - 1], 1)")
    reg.contract(
        P, "Mailbox.msg_set_to_msg_seq_set",
        params={"self": "ref:Mailbox", "msg_set": "opt[list[MsgElt]]", "from_uids": "bool"}, ret="opt[set[int]]",
        requires={"wf": "is_none(msg_set) or wf_msgset(some(msg_set))"},
        ensures={
            "none": "is_none(result) == is_none(msg_set)",
            "seq-denote": "implies(not is_none(msg_set) and not from_uids, "
                          "forall(lambda x: (x in some(result)) == denotes(some(msg_set), self.num_msgs, x)))",
            "uid-denote-sound": "implies(not is_none(msg_set) and from_uids, "
                                "forall(lambda n: implies(n in some(result), 1 <= n and n <= len(self.uids) and denotes(some(msg_set), uid_max(self), self.uids[n - 1]))))",
            "uid-denote-complete": "implies(not is_none(msg_set) and from_uids, "
                                   "forall(lambda n: implies(1 <= n and n <= len(self.uids) and denotes(some(msg_set), uid_max(self), self.uids[n - 1]), n in some(result))))",
        },
        raises={"Bad": "not is_none(msg_set) and has_bad(some(msg_set), ite(from_uids, uid_max(self), self.num_msgs), from_uids, len(some(msg_set)))"},
        props=["C15", "C03"],
        ghost={"harness": "harness.seqset:MsgSetToSeqSet"},
    )
    reg.properties.setdefault("C15", {}).setdefault("bounded", []).append(
        {"name": "msg_set_to_msg_seq_set-vs-denote", "module": "harness.seqset", "func": "MsgSetToSeqSet"}
    )

    # ---- C10: admission relation -------------------------------------------------
    reg.specfn("cmd_set", "c: ref:IMAPClientCommand", "set[int]", "ite(is_none(c.msg_set_as_set), empty_set('int'), some(c.msg_set_as_set))")
    reg.contract(
        P, "intersect",
        params={"a": "ref:IMAPClientCommand", "b": "ref:IMAPClientCommand"}, ret="bool",
        ensures={"exact": "result == exists(lambda x: x in cmd_set(a) and x in cmd_set(b))"},
        props=["C10"],
    )
    reg.specfn("flag_writer", "c: ref:IMAPClientCommand", "bool", "c.command == 'store' or (c.command == 'fetch' and not c.fetch_peek)")
    reg.specfn("is_conflicting_cmd", "c: str", "bool",
               "c == 'append' or c == 'check' or c == 'close' or c == 'delete' or c == 'expunge' or c == 'move' or c == 'rename'")
    reg.specfn("structure_writer", "c: str, has_deleted: bool", "bool",
               "c == 'append' or c == 'check' or c == 'delete' or c == 'move' or c == 'rename' or ((c == 'close' or c == 'expunge') and has_deleted)")
    # pairs that must never run concurrently (sufficient for conflict-serialisability given
    # that STORE's and the FETCH tail's flag updates are single atomic segments; DESIGN C10)
    reg.specfn(
        "must_conflict", "n: ref:IMAPClientCommand, t: ref:IMAPClientCommand, has_deleted: bool", "bool",
        "structure_writer(n.command, has_deleted) or is_conflicting_cmd(t.command) or "
        "(flag_writer(n) and t.command == 'search') or (n.command == 'search' and flag_writer(t))",
    )
    reg.specfn("known_cmd", "c: str", "bool",
               "is_conflicting_cmd(c) or c == 'copy' or c == 'fetch' or c == 'noop' or c == 'select' or c == 'status' or c == 'examine' or c == 'search' or c == 'store'")
    HD = "('Deleted' in self.sequences and card(get(self.sequences, 'Deleted')) > 0)"
    inv = {"safe-so-far": f"forall(lambda j: implies(0 <= j and j < _i, not must_conflict(imap_cmd, self.executing_tasks[j], {HD})))"}
    reg.contract(
        P, "Mailbox.would_conflict",
        params={"self": "ref:Mailbox", "imap_cmd": "ref:IMAPClientCommand"}, ret="bool",
        ensures={
            "admitted-is-safe": f"implies(not result, forall(lambda j: implies(0 <= j and j < len(self.executing_tasks), not must_conflict(imap_cmd, self.executing_tasks[j], {HD}))))",
            "idle-admits": "implies(len(self.executing_tasks) == 0, result == False)",
            "readers-admitted": "implies((imap_cmd.command == 'noop' or imap_cmd.command == 'select' or imap_cmd.command == 'status' or imap_cmd.command == 'examine') and "
                                "forall(lambda j: implies(0 <= j and j < len(self.executing_tasks), not is_conflicting_cmd(self.executing_tasks[j].command))), result == False)",
            "no-deleted-expunge-admitted": f"implies((imap_cmd.command == 'close' or imap_cmd.command == 'expunge') and not {HD} and "
                                "forall(lambda j: implies(0 <= j and j < len(self.executing_tasks), not is_conflicting_cmd(self.executing_tasks[j].command))), result == False)",
        },
        raises={"RuntimeError": "len(self.executing_tasks) > 0 and not known_cmd(imap_cmd.command) and "
                                "forall(lambda j: implies(0 <= j and j < len(self.executing_tasks), not is_conflicting_cmd(self.executing_tasks[j].command)))"},
        loops={0: {"invariant": inv}, 1: {"invariant": inv}, 2: {"invariant": inv}, 3: {"invariant": inv}},
        props=["C10"],
        ghost={"harness": "harness.conflict:WouldConflict"},
    )
    reg.contract("asimap/parse.py", "IMAPClientCommand.qstr", params={"self": "ref:IMAPClientCommand"}, ret="str",
                 trusted=True, note="pure pretty-printer used only in log/error text")
    reg.properties.setdefault("C10", {}).setdefault("bounded", []).append(
        {"name": "would_conflict-vs-must_conflict", "module": "harness.conflict", "func": "WouldConflict"}
    )

    # ---- C04: flag algebra ------------------------------------------------------
    SEQ = "defaultdict[str,set[int]]"
    reg.specfn("mem", f"d: {SEQ}, s: str, k: int", "bool", "s in d and k in get(d, s)", doc="message key k is in sequence s")
    reg.contract(
        P, "Mailbox.msg_sequences",
        params={"self": "ref:Mailbox", "msg_key": "int"}, ret="list[str]",
        ensures={"exact": "forall(lambda s: (s in result) == mem(self.sequences, s, msg_key), 'str')",
                 "unchanged": "forall(lambda s, k: mem(self.sequences, s, k) == mem(old(self.sequences), s, k), 'str', 'int')",
                 "dom-unchanged": "dom(self.sequences) == dom(old(self.sequences))"},
        modifies=["self.sequences"],
        loops={0: {"invariant": {
            "dom": "dom(self.sequences) == dom(old(self.sequences))",
            "unchanged": "forall(lambda s, k: mem(self.sequences, s, k) == mem(old(self.sequences), s, k), 'str', 'int')",
            "collected": "forall(lambda s: (s in seqs) == (mem(self.sequences, s, msg_key) and pos(_it, s) < _i), 'str')",
        }}},
        locals_={"seqs": "list[str]"},
        props=["C04", "C14"],
    )
    for fn, val in (("_help_add_flag", "True"), ("_help_remove_flag", "False")):
        a, b = ("unseen", "Seen")
        reg.contract(
            P, "Mailbox." + fn,
            params={"self": "ref:Mailbox", "key": "int", "flag": "str"},
            ensures={"exact": (
                "forall(lambda s, k: mem(self.sequences, s, k) == "
                f"ite(k == key and s == flag, {val}, "
                f"ite(k == key and flag == 'Seen' and s == 'unseen', not {val}, "
                f"ite(k == key and flag == 'unseen' and s == 'Seen', not {val}, mem(old(self.sequences), s, k)))), 'str', 'int')"
            )},
            modifies=["self.sequences"],
            props=["C04"],
            ghost={"harness": "harness.flags:FlagHelpers"},
        )
    reg.contract(
        P, "Mailbox._help_replace_flags",
        params={"self": "ref:Mailbox", "key": "int", "flags": "list[str]"},
        ensures={"exact": (
            "forall(lambda s, k: mem(self.sequences, s, k) == "
            "ite(k == key, (s in flags) or (s == 'unseen' and 'Seen' not in flags) or (s == 'Recent' and mem(old(self.sequences), 'Recent', key)), "
            "mem(old(self.sequences), s, k)), 'str', 'int')"
        )},
        modifies=["self.sequences"],
        loops={
            0: {"invariant": {"added": "forall(lambda s, k: mem(self.sequences, s, k) == "
                                       "ite(k == key and s in new_msg_seqs and pos(_it, s) < _i, True, mem(lpre(self.sequences), s, k)), 'str', 'int')"}},
            1: {"invariant": {"removed": "forall(lambda s, k: mem(self.sequences, s, k) == "
                                         "ite(k == key and s in to_remove and pos(_it, s) < _i, False, mem(lpre(self.sequences), s, k)), 'str', 'int')"}},
        },
        props=["C04"],
        ghost={"harness": "harness.flags:FlagHelpers"},
    )
