"""asimap/mbox.py"""


def declare(reg):
    P = "asimap/mbox.py"
    # the UID paired with an MH key (None when the key is not in the mailbox)
    reg.specfn(
        "uid_of_key", "m: ref:Mailbox, k: int", "opt[int]",
        "ite(k in m._msg_key_to_idx, m.uids[get(m._msg_key_to_idx, k)], None)",
    )
    reg.contract(
        P, "Mailbox.get_uid_from_msg", uses_invariant=True,
        params={"self": "ref:Mailbox", "msg_key": "int"}, ret="tuple[int,opt[int]]",
        ensures={"vv": "result[0] == self.uid_vv", "uid": "result[1] == uid_of_key(self, msg_key)"},
        props=["C14", "C03"],
    )
    reg.specfn("uid_max", "m: ref:Mailbox", "int", "ite(len(m.uids) > 0, m.uids[len(m.uids) - 1], 1)")
    reg.contract(
        P, "Mailbox.msg_set_to_msg_seq_set", uses_invariant=True,
        params={"self": "ref:Mailbox", "msg_set": "opt[list[MsgElt]]", "from_uids": "bool"}, ret="opt[set[int]]",
        requires={"wf": "is_none(msg_set) or wf_msgset(some(msg_set))"},
        ensures={
            "none": "is_none(result) == is_none(msg_set)",
            "seq-denote": "implies(not is_none(msg_set) and not from_uids, "
                          "forall(lambda x: (x in some(result)) == denotes(some(msg_set), self.num_msgs, x)))",
            "uid-denote-sound": "implies(not is_none(msg_set) and from_uids, "
                                "forall(lambda n: implies(n in some(result), 1 <= n and n <= len(self.uids) and denotes(some(msg_set), uid_max(self), self.uids[n - 1]))))",
            "uid-denote-complete": "implies(not is_none(msg_set) and from_uids, "
                                   "forall(lambda n: implies(1 <= n and n <= len(self.uids) and denotes(some(msg_set), uid_max(self), self.uids[n - 1]), n in some(result))))",
        },
        raises={"Bad": "not is_none(msg_set) and has_bad(some(msg_set), ite(from_uids, uid_max(self), self.num_msgs), from_uids, len(some(msg_set)))"},
        props=["C15", "C03"],
        ghost={"harness": "harness.seqset:MsgSetToSeqSet"},
    )
    reg.properties.setdefault("C15", {}).setdefault("bounded", []).append(
        {"name": "msg_set_to_msg_seq_set-vs-denote", "module": "harness.seqset", "func": "MsgSetToSeqSet"}
    )

    # ---- C10: admission relation -------------------------------------------------
    reg.specfn("cmd_set", "c: ref:IMAPClientCommand", "set[int]", "ite(is_none(c.msg_set_as_set), empty_set('int'), some(c.msg_set_as_set))")
    reg.contract(
        P, "intersect",
        params={"a": "ref:IMAPClientCommand", "b": "ref:IMAPClientCommand"}, ret="bool",
        ensures={"exact": "result == exists(lambda x: x in cmd_set(a) and x in cmd_set(b))"},
        props=["C10"],
    )
    reg.specfn("flag_writer", "c: ref:IMAPClientCommand", "bool", "c.command == 'store' or (c.command == 'fetch' and not c.fetch_peek)")
    reg.specfn("is_conflicting_cmd", "c: str", "bool",
               "c == 'append' or c == 'check' or c == 'close' or c == 'delete' or c == 'expunge' or c == 'move' or c == 'rename'")
    reg.specfn("structure_writer", "c: str, has_deleted: bool", "bool",
               "c == 'append' or c == 'check' or c == 'delete' or c == 'move' or c == 'rename' or ((c == 'close' or c == 'expunge') and has_deleted)")
    # pairs that must never run concurrently (sufficient for conflict-serialisability given
    # that STORE's and the FETCH tail's flag updates are single atomic segments; DESIGN C10)
    reg.specfn(
        "must_conflict", "n: ref:IMAPClientCommand, t: ref:IMAPClientCommand, has_deleted: bool", "bool",
        "structure_writer(n.command, has_deleted) or is_conflicting_cmd(t.command) or "
        "(flag_writer(n) and t.command == 'search') or (n.command == 'search' and flag_writer(t))",
    )
    reg.specfn("known_cmd", "c: str", "bool",
               "is_conflicting_cmd(c) or c == 'copy' or c == 'fetch' or c == 'noop' or c == 'select' or c == 'status' or c == 'examine' or c == 'search' or c == 'store'")
    HD = "('Deleted' in self.sequences and card(get(self.sequences, 'Deleted')) > 0)"
    inv = {"safe-so-far": f"forall(lambda j: implies(0 <= j and j < _i, not must_conflict(imap_cmd, self.executing_tasks[j], {HD})))"}
    reg.contract(
        P, "Mailbox.would_conflict",
        params={"self": "ref:Mailbox", "imap_cmd": "ref:IMAPClientCommand"}, ret="bool",
        ensures={
            "admitted-is-safe": f"implies(not result, forall(lambda j: implies(0 <= j and j < len(self.executing_tasks), not must_conflict(imap_cmd, self.executing_tasks[j], {HD}))))",
            "idle-admits": "implies(len(self.executing_tasks) == 0, result == False)",
            "readers-admitted": "implies((imap_cmd.command == 'noop' or imap_cmd.command == 'select' or imap_cmd.command == 'status' or imap_cmd.command == 'examine') and "
                                "forall(lambda j: implies(0 <= j and j < len(self.executing_tasks), not is_conflicting_cmd(self.executing_tasks[j].command))), result == False)",
            "no-deleted-expunge-admitted": f"implies((imap_cmd.command == 'close' or imap_cmd.command == 'expunge') and not {HD} and "
                                "forall(lambda j: implies(0 <= j and j < len(self.executing_tasks), not is_conflicting_cmd(self.executing_tasks[j].command))), result == False)",
        },
        raises={"RuntimeError": "len(self.executing_tasks) > 0 and not known_cmd(imap_cmd.command) and "
                                "forall(lambda j: implies(0 <= j and j < len(self.executing_tasks), not is_conflicting_cmd(self.executing_tasks[j].command)))"},
        loops={0: {"invariant": inv}, 1: {"invariant": inv}, 2: {"invariant": inv}, 3: {"invariant": inv}},
        props=["C10"],
        ghost={"harness": "harness.conflict:WouldConflict"},
    )
    reg.contract("asimap/parse.py", "IMAPClientCommand.qstr", params={"self": "ref:IMAPClientCommand"}, ret="str",
                 trusted=True, note="pure pretty-printer used only in log/error text")
    reg.properties.setdefault("C10", {}).setdefault("bounded", []).append(
        {"name": "would_conflict-vs-must_conflict", "module": "harness.conflict", "func": "WouldConflict"}
    )

    # ---- C04: flag algebra ------------------------------------------------------
    SEQ = "defaultdict[str,set[int]]"
    reg.specfn("mem", f"d: {SEQ}, s: str, k: int", "bool", "s in d and k in get(d, s)", doc="message key k is in sequence s")
    reg.contract(
        P, "Mailbox.msg_sequences",
        params={"self": "ref:Mailbox", "msg_key": "int"}, ret="list[str]",
        ensures={"exact": "forall(lambda s: (s in result) == mem(self.sequences, s, msg_key), 'str')",
                 "unchanged": "forall(lambda s, k: mem(self.sequences, s, k) == mem(old(self.sequences), s, k), 'str', 'int')",
                 "dom-unchanged": "dom(self.sequences) == dom(old(self.sequences))"},
        modifies=["self.sequences"],
        loops={0: {"invariant": {
            "dom": "dom(self.sequences) == dom(old(self.sequences))",
            "unchanged": "forall(lambda s, k: mem(self.sequences, s, k) == mem(old(self.sequences), s, k), 'str', 'int')",
            "collected": "forall(lambda s: (s in seqs) == (mem(self.sequences, s, msg_key) and pos(_it, s) < _i), 'str')",
        }}},
        locals_={"seqs": "list[str]"},
        props=["C04", "C14"],
    )
    for fn, val in (("_help_add_flag", "True"), ("_help_remove_flag", "False")):
        a, b = ("unseen", "Seen")
        reg.contract(
            P, "Mailbox." + fn,
            params={"self": "ref:Mailbox", "key": "int", "flag": "str"},
            ensures={"exact": (
                "forall(lambda s, k: mem(self.sequences, s, k) == "
                f"ite(k == key and s == flag, {val}, "
                f"ite(k == key and flag == 'Seen' and s == 'unseen', not {val}, "
                f"ite(k == key and flag == 'unseen' and s == 'Seen', not {val}, mem(old(self.sequences), s, k)))), 'str', 'int')"
            )},
            modifies=["self.sequences"],
            props=["C04"],
            ghost={"harness": "harness.flags:FlagHelpers"},
        )
    reg.contract(
        P, "Mailbox._help_replace_flags",
        params={"self": "ref:Mailbox", "key": "int", "flags": "list[str]"},
        ensures={"exact": (
            "forall(lambda s, k: mem(self.sequences, s, k) == "
            "ite(k == key, (s in flags) or (s == 'unseen' and 'Seen' not in flags) or (s == 'Recent' and mem(old(self.sequences), 'Recent', key)), "
            "mem(old(self.sequences), s, k)), 'str', 'int')"
        )},
        modifies=["self.sequences"],
        loops={
            0: {"invariant": {"added": "forall(lambda s, k: mem(self.sequences, s, k) == "
                                       "ite(k == key and s in new_msg_seqs and pos(_it, s) < _i, True, mem(lpre(self.sequences), s, k)), 'str', 'int')"}},
            1: {"invariant": {"removed": "forall(lambda s, k: mem(self.sequences, s, k) == "
                                         "ite(k == key and s in to_remove and pos(_it, s) < _i, False, mem(lpre(self.sequences), s, k)), 'str', 'int')"}},
        },
        props=["C04"],
        ghost={"harness": "harness.flags:FlagHelpers"},
    )

    # ---- trusted / assumed callees ------------------------------------------------
    reg.contract("<stdlib>", "MH.aremove", params={"self": "ref:MH", "key": "int"},
                 ensures={"removed": "self.g_keys == old(self.g_keys) - {key}"}, modifies=["self.g_keys"],
                 trusted=True, yields=True, note="A-MH: mailbox.MH.remove deletes exactly that message file (asimap.mh.MH.aremove wraps it in a thread)")
    # new == old ++ data
    reg.specfn("appended", "new: list[str], old_: list[str], data: list[str]", "bool",
               "len(new) == len(old_) + len(data) and forall(lambda j: implies(0 <= j and j < len(old_), new[j] == old_[j])) and "
               "forall(lambda i: implies(len(old_) <= i and i < len(new), new[i] == data[i - len(old_)]))", recursive=True)
    # stated for one arbitrary selected session p0 (ghost parameter): callers get it for all p0
    C0 = "get(self.clients, p0)"

    def untouched(base):
        return f"same({C0}.pending_notifications, {base}({C0}.pending_notifications)) and same({C0}.client.g_out, {base}({C0}.client.g_out))"

    def delivered(base, nl):
        return (f"ite({C0} == dont_notify, {untouched(base)}, ite({C0}.idling, "
                f"appended({C0}.client.g_out, {base}({C0}.client.g_out), {nl}) and same({C0}.pending_notifications, {base}({C0}.pending_notifications)), "
                f"appended({C0}.pending_notifications, {base}({C0}.pending_notifications), {nl}) and same({C0}.client.g_out, {base}({C0}.client.g_out))))")

    reg.contract(
        P, "Mailbox._dispatch_or_pend_notifications",
        params={"self": "ref:Mailbox", "notifications": "StrOrList", "dont_notify": "opt[ref:Authenticated]"},
        requires={
            # distinct sessions are distinct objects with distinct connections
            "clients-injective": "forall(lambda p, q: implies(p in self.clients and q in self.clients and p != q, "
                                 "get(self.clients, p) != get(self.clients, q) and get(self.clients, p).client != get(self.clients, q).client), 'str', 'str')",
            "p0-selected": "p0 in self.clients",
        },
        # every selected session except `dont_notify` gets the notifications, in order, exactly once:
        # pushed now if idling, otherwise queued behind what is already pending
        ensures={
            "delivered": "implies(truthy_notes(notifications), " + delivered("old", "notes_list(notifications)") + ")",
            "nothing-when-empty": "implies(not truthy_notes(notifications), " + untouched("old") + ")",
        },
        loops={0: {"invariant": {"progress": "ite(pos(_it, p0) < _i, " + delivered("lpre", "notifications") + ", " + untouched("lpre") + ")"}}},
        modifies=["*.pending_notifications", "ClientProxy.g_out"],
        props=["C01", "C04"],
        ghost={"harness": "harness.notify:Dispatch", "ghost_params": {"p0": "str"}, "ghost_requires": {"p0-selected": "p0 in self.clients"}},
    )
    reg.specfn("truthy_notes", "n: StrOrList", "bool", "ite(isinstance(n, str), len(str_of(n)) > 0, len(list_of(n)) > 0)")
    reg.specfn("notes_list", "n: StrOrList", "list[str]", "ite(isinstance(n, str), single(str_of(n)), list_of(n))")
    reg.contract(P, "Mailbox.commit_to_db", params={"self": "ref:Mailbox"}, trusted=True, yields=True,
                 note="assumed: writes the mailbox row to sqlite, changes no Mailbox field (C12 states its contract)")
    reg.contract(
        P, "Mailbox._rebuild_index_dicts", params={"self": "ref:Mailbox"},
        requires={"distinct-keys": "distinct(self.msg_keys)", "distinct-uids": "distinct(self.uids)"},
        ensures={"idx-keys": "index_of(self._msg_key_to_idx, self.msg_keys)", "idx-uids": "index_of(self._uid_to_idx, self.uids)"},
        modifies=["self._msg_key_to_idx", "self._uid_to_idx"], uses_invariant=False,
        props=["C03"],
    )

    # ---- expunge (C05, C03, C02, C13, C01) ---------------------------------------
    reg.specfn("uid_at", "m: ref:Mailbox, k: int", "int", "m.uids[get(m._msg_key_to_idx, k)]", doc="UID paired with MH key k (k in the mailbox)")
    reg.specfn(
        "del_key", "m: ref:Mailbox, L: opt[list[int]], check_deleted: bool, k: int", "bool",
        "k in m.msg_keys and ite(check_deleted, "
        "  mem(m.sequences, 'Deleted', k) and (is_none(L) or uid_at(m, k) in some(L)), "
        "  (not is_none(L)) and uid_at(m, k) in some(L))",
        doc="the messages EXPUNGE / UID EXPUNGE / MOVE's forced expunge must remove -- straight from the property",
    )
    D = "old(del_key(self, uid_msg_set, check_deleted, k))"
    main_inv = {
        "len": "len(self.msg_keys) == len(self.uids) and len(self.msg_keys) == len(old(self.msg_keys)) - _i and self.num_msgs == old(self.num_msgs) - _i",
        "asc-keys": "asc(self.msg_keys)",
        "asc-uids": "asc(self.uids)",
        "idx-stale": "self._msg_key_to_idx == old(self._msg_key_to_idx) and self._uid_to_idx == old(self._uid_to_idx)",
        "seqs-untouched": "self.sequences == old(self.sequences)",
        # positions below the original index of the last deleted key are untouched
        "prefix": "forall(lambda j: implies(0 <= j and j < ite(_i == 0, len(old(self.msg_keys)), get(old(self._msg_key_to_idx), _it[_i - 1])), "
                  "j < len(self.msg_keys) and self.msg_keys[j] == old(self.msg_keys)[j] and self.uids[j] == old(self.uids)[j]))",
        "prefix-bound": "ite(_i == 0, len(old(self.msg_keys)), get(old(self._msg_key_to_idx), _it[_i - 1])) <= len(self.msg_keys)",
        # every survivor keeps its UID
        "pairing": "forall(lambda j: implies(0 <= j and j < len(self.msg_keys), self.msg_keys[j] in old(self.msg_keys) and "
                   "self.uids[j] == old(self.uids)[get(old(self._msg_key_to_idx), self.msg_keys[j])]))",
        "elems": "forall(lambda k: (k in self.msg_keys) == (k in old(self.msg_keys) and not (k in _it and pos(_it, k) < _i)))",
        "disk": "self.mailbox.g_keys == old(self.mailbox.g_keys) - elems(_it) | (elems(_it) & elems(self.msg_keys) & old(self.mailbox.g_keys))",
    }
    reg.contract(
        P, "Mailbox.expunge", uses_invariant=True,
        params={"self": "ref:Mailbox", "uid_msg_set": "opt[list[int]]", "check_deleted": "bool"},
        requires={"distinct-uids-arg": "is_none(uid_msg_set) or distinct(some(uid_msg_set))",
                  "disk-has-keys": "subset(elems(self.msg_keys), self.mailbox.g_keys)"},
        ensures={
            "keys": f"forall(lambda k: (k in self.msg_keys) == (k in old(self.msg_keys) and not {D}))",
            "asc-keys": "asc(self.msg_keys)",
            "asc-uids": "asc(self.uids)",
            "len": "len(self.msg_keys) == len(self.uids) and self.num_msgs == len(self.msg_keys)",
            "pairing": "forall(lambda k: implies(k in self.msg_keys, uid_of_key(self, k) == old(uid_of_key(self, k))))",
            "idx-keys": "index_of(self._msg_key_to_idx, self.msg_keys)",
            "idx-uids": "index_of(self._uid_to_idx, self.uids)",
            "seqs": f"forall(lambda s, k: mem(self.sequences, s, k) == (mem(old(self.sequences), s, k) and not {D}), 'str', 'int')",
            "disk": f"forall(lambda k: (k in self.mailbox.g_keys) == (k in old(self.mailbox.g_keys) and not {D}))",
            # C13 (b): once messages were removed, .mh_sequences mentions no removed message and equals the in-memory flags
            "disk-seqs": f"implies(exists(lambda k: {D}), forall(lambda s, k: mem(self.mailbox.g_seqs, s, k) == mem(self.sequences, s, k), 'str', 'int'))",
        },
        modifies=["self.msg_keys", "self.uids", "self.num_msgs", "self.num_recent", "self._msg_key_to_idx", "self._uid_to_idx",
                  "self.sequences", "self.optional_resync", "*.pending_notifications", "ClientProxy.g_out", "MH.g_keys", "MH.g_seqs", "self.g_db_seqs", "self.g_db_exists", "self.g_db_uid_vv", "self.g_db_next_uid", "self.g_db_uids", "self.g_db_msg_keys", "self.g_db_subscribed", "self.g_db_num_msgs"],
        loops={
            0: {"invariant": {
                "picked": "forall(lambda k: (k in to_delete) == (k in self.msg_keys and uid_at(self, k) in some(uid_msg_set) and pos(some(uid_msg_set), uid_at(self, k)) < _i))",
                "distinct": "distinct(to_delete)",
            }},
            1: {"lemmas": {
                    "uid-injective": "forall(lambda a, b: implies(a in self.msg_keys and b in self.msg_keys and uid_at(self, a) == uid_at(self, b), a == b))",
                    "todel-in-keys": "forall(lambda k: implies(k in to_delete, k in self.msg_keys))",
                    "uids-of-todel": "len(uids_to_delete) == len(to_delete) and forall(lambda j: implies(0 <= j and j < len(to_delete), uids_to_delete[j] == uid_at(self, to_delete[j])))",
                },
                "invariant": {
                "picked": "forall(lambda k: (k in new_to_delete) == (k in to_delete and uid_at(self, k) in some(uid_msg_set) and pos(some(uid_msg_set), uid_at(self, k)) < _i))",
                "distinct": "distinct(new_to_delete)",
            }},
            2: {"invariant": main_inv},
            3: {"invariant": {
                "cleaned": "forall(lambda s, k: mem(self.sequences, s, k) == (mem(lpre(self.sequences), s, k) and not (k in to_delete and s in _it and pos(_it, s) < _i)), 'str', 'int')",
                "dom": "dom(self.sequences) == dom(lpre(self.sequences))",
            }},
            4: {"invariant": {
                "cleaned-inner": "forall(lambda s, k: mem(self.sequences, s, k) == (mem(lpre(self.sequences), s, k) and not (s == seq and k in to_delete and pos(to_delete, k) < _i)), 'str', 'int')",
                "dom": "dom(self.sequences) == dom(lpre(self.sequences))",
            }},
        },
        locals_={"to_delete": "list[int]", "uids_to_delete": "list[int]", "new_to_delete": "list[int]", "new_uids_to_delete": "list[int]"},
        props=["C05", "C03", "C02", "C13", "C01"],
        ghost={"harness": "harness.mboxops:Expunge", "call_asserts": {"_dispatch_or_pend_notifications": {
            # C01: every `* n EXPUNGE` names a position that exists in the list the sessions have replayed so far
            # (the list before this deletion had len(msg_keys)+1 entries), highest first
            "expunge-number-exists": "1 <= which + 1 and which + 1 <= len(self.msg_keys) + 1",
            "expunge-text": "expunge_msg == '* ' + str(which + 1) + ' EXPUNGE\\r\\n'",
        }}},
    )
    b = reg.properties.setdefault("C05", {}).setdefault("bounded", [])
    b.append({"name": "expunge-real-folder", "module": "harness.mboxops", "func": "Expunge"})
    b.append({"name": "uid-expunge-e2e", "module": "harness.e2e", "func": "UidExpunge"})
    b.append({"name": "examine-read-only-e2e", "module": "harness.e2e", "func": "ExamineReadOnly"})

    # ---- check_new_msgs_and_flags (C02 allocation, C13 delivery) ----------------------
    reg.contract(
        P, "Mailbox.marked", params={"self": "ref:Mailbox", "mark": "bool"}, ret="bool",
        ensures={"marked": "ite(mark, '\\\\Marked' in self.attributes, '\\\\Unmarked' in self.attributes)",
                 "others": "forall(lambda a: implies(a != '\\\\Marked' and a != '\\\\Unmarked', (a in self.attributes) == (a in old(self.attributes))), 'str')"},
        modifies=["self.attributes"], uses_invariant=False, props=["C13"],
    )
    T = dict(trusted=True)
    reg.contract(P, "Mailbox.get_actual_mtime", params={"mh": "ref:MH", "name": "str"}, ret="int", yields=True, **T,
                 note="A-OS: max mtime of the folder directory and its .mh_sequences")
    # the light-weight commit used when a resync found nothing new: its one SQL statement is pinned to its exact text (only the mtime and
    # last_resync columns, only this mailbox's row); the body is verified to change nothing of the committed UID / flag state (ghost row)
    reg.dynamic_dispatch[r"self\.server\.db\.execute\('UPDATE mailboxes SET mtime=\?, last_resync=\? WHERE id=\?', \(self\.mtime, self\.last_resync, self\.id\)\)"] = "Database.update_mtime_row"
    reg.contract("<sqlite>", "Database.update_mtime_row", params={"self": "ref:Mailbox", "sql": "str", "params": "tuple[int,float,opt[int]]"}, yields=True, **T,
                 note="A-DB: UPDATE mailboxes SET mtime=?, last_resync=? WHERE id=<this mailbox>: no other column, no other row")
    reg.contract(P, "Mailbox.update_mtime_in_db", params={"self": "ref:Mailbox"}, raises={}, modifies=[], is_async=True, props=["C11", "C12"],
                 note="frame: the committed row's UID state and flag rows (ghost g_db_*) and the in-memory state are untouched")
    reg.contract("<stdlib>", "MH.keys", params={"self": "ref:MH"}, ret="list[int]",
                 ensures={"asc": "asc(result)", "all": "elems(result) == self.g_keys", "count": "len(result) == card(self.g_keys)", "pos": "forall(lambda j: implies(0 <= j and j < len(result), result[j] >= 1))"},
                 **T, note="A-MH: MH.keys() lists the message files in ascending order (since fix F55 through asimap.mh.MH.iterkeys, which skips sub-folders with all-digit names; os.scandir is trusted)")
    reg.contract(P, "Mailbox.get_sequences_from_folder", params={"self": "ref:Mailbox"}, ret="defaultdict[str,set[int]]",
                 ensures={"disk": "forall(lambda s, k: mem(result, s, k) == mem(self.mailbox.g_seqs, s, k), 'str', 'int')",
                          "existing-only": "forall(lambda s, k: implies(mem(result, s, k), k in self.mailbox.g_keys), 'str', 'int')"},
                 **T, note="A-MH: MH.get_sequences returns the .mh_sequences content restricted to existing message files (CPython mailbox.py)")
    reg.contract(P, "Mailbox.set_sequences_in_folder", params={"self": "ref:Mailbox", "seqs": "defaultdict[str,set[int]]"},
                 ensures={"written": "forall(lambda s, k: mem(self.mailbox.g_seqs, s, k) == mem(seqs, s, k), 'str', 'int')"},
                 modifies=["MH.g_seqs"], **T, note="A-MH: MH.set_sequences rewrites .mh_sequences with exactly the non-empty sequences given")
    reg.contract(P, "Mailbox.get_msg", params={"self": "ref:Mailbox", "msg_key": "int"}, ret="opaque:EmailMessage",
                 ensures={"is-msg": "result == msg_of(self, msg_key)"}, raises={"KeyError": "may:msg_key not in self.mailbox.g_keys", "FileNotFoundError": "may:msg_key not in self.mailbox.g_keys"},
                 **T, note="A-EMAIL/A-MH: parses the stored file; KeyError/FileNotFoundError only when the file is gone")
    reg.contract(P, "Mailbox._generate_fetch_msg_for", params={"self": "ref:Mailbox", "msg_key": "int", "publish_uid": "bool"},
                 ret="tuple[str,str]", **T, note="assumed here (pure string builder; C07 states its grammar)")
    reg.contract(P, "Mailbox.check_set_haschildren_attr", params={"self": "ref:Mailbox"}, modifies=["self.attributes"], **T, note="assumed: only attributes")
    reg.contract("<proxy>", "ClientProxy.push", params={"self": "ref:ClientProxy", "data": "list[str]"}, yields=True, **T,
                 ensures={"appended": "appended(self.g_out, old(self.g_out), data)",
                          # direct (quantifier-free) consequences, for the string solver
                          "len": "len(self.g_out) == len(old(self.g_out)) + len(data)",
                          "last": "implies(len(data) > 0, self.g_out[len(self.g_out) - 1] == data[len(data) - 1])"},
                 modifies=["self.g_out"],
                 ghost={"varargs": "data"}, note="A-ASYNC: hands the data to the client's socket in order (ghost g_out records it)")

    # ---- Mailbox.selected: the snapshot a SELECT answers with is taken in the same step that registers the session (C01) ----
    reg.contract(
        P, "Mailbox.selected", uses_invariant=True,
        params={"self": "ref:Mailbox", "client": "ref:Authenticated"}, ret="list[str]",
        requires={
            # DESIGN assumption "distinct sessions are distinct objects": the session is not registered here under another name
            "fresh-client": "forall(lambda p: implies(p in self.clients and p != client.name, get(self.clients, p) != client and get(self.clients, p).client != client.client), 'str')",
        },
        ensures={
            "exists-is-the-message-count": "len(result) >= 1 and result[0] == '* ' + str(len(self.msg_keys)) + ' EXISTS\\r\\n'",
            "registered": "client.name in self.clients and get(self.clients, client.name) == client",
            "others-stay": "forall(lambda p: implies(p != client.name, (p in self.clients) == (p in old(self.clients)) and get(self.clients, p) == get(old(self.clients), p)), 'str')",
        },
        raises={"No": "'\\\\Noselect' in self.attributes"},
        exc_ensures={"not-registered": "same(self.clients, old(self.clients))"},
        modifies=["self.clients"],
        loops={0: {"invariant": {"head-kept": "len(push_data) >= 1 and push_data[0] == lpre(push_data)[0]",
                                  "keys-only": "forall(lambda s: implies(s in _it, s in lpre(self.sequences)), 'str')",
                                  "sequences-untouched": "same(self.sequences, lpre(self.sequences))"}}},
        keeps_invariant=True, is_async=True,
        props=["C01"],
    )

    reg.contract(
        P, "Mailbox.unselected", uses_invariant=True, params={"self": "ref:Mailbox", "client_name": "str"},
        ensures={"gone": "client_name not in self.clients",
                 "others-stay": "forall(lambda p: implies(p != client_name, (p in self.clients) == (p in old(self.clients)) and get(self.clients, p) == get(old(self.clients), p)), 'str')"},
        modifies=["self.clients"], keeps_invariant=True,
        props=["C01"],
    )

    NF = "(s == 'Recent' or ite(s == 'Seen', not mem(msg_seqs, 'unseen', k), mem(msg_seqs, s, k)))"
    reg.contract(
        P, "Mailbox.check_new_msgs_and_flags", uses_invariant=True,
        params={"self": "ref:Mailbox", "dont_notify": "opt[ref:Authenticated]", "optional": "bool"}, ret="bool",
        requires={
            # E1 (DESIGN 6.3): outside asimap only new, larger-numbered files appear
            "E1-superset": "subset(elems(self.msg_keys), self.mailbox.g_keys)",
            "E1-larger": "forall(lambda k: implies(k in self.mailbox.g_keys and k not in self.msg_keys, forall(lambda j: implies(0 <= j and j < len(self.msg_keys), self.msg_keys[j] < k))))",
            # the same assumption in list form (the ascending listing of the folder starts with the known keys) and its
            # finite-cardinality consequences; SMT solvers do not derive pigeonhole facts, so they are stated, not proved
            "E1-prefix": "forall(lambda L: implies(asc(L) and elems(L) == self.mailbox.g_keys, len(L) >= len(self.msg_keys) and "
                         "forall(lambda j: implies(0 <= j and j < len(self.msg_keys), L[j] == self.msg_keys[j]))), 'list[int]')",
            "E1-count": "card(self.mailbox.g_keys - elems(self.msg_keys)) == card(self.mailbox.g_keys) - len(self.msg_keys)",
            # weaker than the class invariant's seq-keys-exist: APPEND/COPY have already listed the message they just
            # added to the folder in the in-memory sequences when they call us
            "seq-keys-on-disk": "forall(lambda s, k: implies(s in self.sequences and k in get(self.sequences, s), k in self.mailbox.g_keys), 'str', 'int')",
        },
        ensures={
            # C02
            "uids-prefix": "len(self.uids) >= len(old(self.uids)) and forall(lambda j: implies(0 <= j and j < len(old(self.uids)), self.uids[j] == old(self.uids)[j]))",
            "keys-prefix": "len(self.msg_keys) >= len(old(self.msg_keys)) and forall(lambda j: implies(0 <= j and j < len(old(self.msg_keys)), self.msg_keys[j] == old(self.msg_keys)[j]))",
            "new-uids-consecutive": "forall(lambda j: implies(len(old(self.uids)) <= j and j < len(self.uids), self.uids[j] == old(self.next_uid) + (j - len(old(self.uids)))))",
            "next-uid": "self.next_uid == old(self.next_uid) + (len(self.uids) - len(old(self.uids)))",
            "uid-vv": "self.uid_vv == old(self.uid_vv)",
            # C13
            "changed-iff-new": "result == (len(self.msg_keys) > len(old(self.msg_keys)))",
            # a forced resync of a selectable mailbox finds every file that is not yet in the list
            "forced-scan-finds-new": "implies(not optional and '\\\\Noselect' not in old(self.attributes) and "
                                     "exists(lambda k: k in old(self.mailbox.g_keys) and k not in old(self.msg_keys)), result)",
            "sees-all-files": "implies(result, elems(self.msg_keys) == self.mailbox.g_keys)",
            "old-flags-kept": "forall(lambda s, k: implies(k in old(self.msg_keys), mem(self.sequences, s, k) == mem(old(self.sequences), s, k)), 'str', 'int')",
            "new-recent": "forall(lambda k: implies(k in self.msg_keys and k not in old(self.msg_keys), mem(self.sequences, 'Recent', k)))",
            "new-seen-iff-not-unseen": "forall(lambda k: implies(k in self.msg_keys and k not in old(self.msg_keys), mem(self.sequences, 'Seen', k) == (not mem(old(self.mailbox.g_seqs), 'unseen', k))))",
            "new-other-flags-from-agent": "forall(lambda s, k: implies(k in self.msg_keys and k not in old(self.msg_keys) and s != 'Recent' and s != 'Seen', mem(self.sequences, s, k) == mem(old(self.mailbox.g_seqs), s, k)), 'str', 'int')",
            "disk-seqs-written": "implies(result, forall(lambda s, k: mem(self.mailbox.g_seqs, s, k) == mem(self.sequences, s, k), 'str', 'int'))",
            "seq-keys-exist-after": "implies(result or old(forall(lambda s, k: implies(s in self.sequences and k in get(self.sequences, s), k in self.msg_keys), 'str', 'int')), "
                                    "forall(lambda s, k: implies(s in self.sequences and k in get(self.sequences, s), k in self.msg_keys), 'str', 'int'))",
        },
        keeps_invariant=True,
        modifies=["self.last_resync", "self.mtime", "self.optional_resync", "self.msg_keys", "self.uids", "self.num_msgs", "self.num_recent",
                  "self.sequences", "self.next_uid", "self._msg_key_to_idx", "self._uid_to_idx", "self.attributes", "MH.g_seqs", "*.pending_notifications", "ClientProxy.g_out", "self.g_db_seqs", "self.g_db_exists", "self.g_db_uid_vv", "self.g_db_next_uid", "self.g_db_uids", "self.g_db_msg_keys", "self.g_db_subscribed", "self.g_db_num_msgs"],
        loops={
            0: {"invariant": {
                "flags": f"forall(lambda s, k: mem(self.sequences, s, k) == ite(k in new_msg_keys and pos(new_msg_keys, k) < _i, {NF}, mem(lpre(self.sequences), s, k)), 'str', 'int')",
                "msg-seqs-kept": "forall(lambda s, k: mem(msg_seqs, s, k) == mem(lpre(msg_seqs), s, k), 'str', 'int')",
                "msgs-loaded": "forall(lambda k: implies(k in new_msg_keys and pos(new_msg_keys, k) < _i, k in new_msgs))",
            }},
            1: {"invariant": {
                "collected": "forall(lambda s: (s in msg_sequences) == (s == 'Recent' or (mem(msg_seqs, s, key) and s in _it and pos(_it, s) < _i)), 'str')",
                "msg-seqs-kept": "forall(lambda s, k: mem(msg_seqs, s, k) == mem(lpre(msg_seqs), s, k), 'str', 'int') and dom(msg_seqs) == dom(lpre(msg_seqs))",
            }},
            2: {"invariant": {
                "added": "forall(lambda s, k: mem(self.sequences, s, k) == ite(k == key and s in msg_sequences and pos(_it, s) < _i, True, mem(lpre(self.sequences), s, k)), 'str', 'int')",
            }},
            3: {"invariant": {
                "removed": "forall(lambda s, k: mem(self.sequences, s, k) == ite(k == key and s not in msg_sequences and s in _it and pos(_it, s) < _i, False, mem(lpre(self.sequences), s, k)), 'str', 'int')",
                "dom": "dom(self.sequences) == dom(lpre(self.sequences))",
            }},
            4: {"invariant": {}},
            5: {"invariant": {}},
        },
        locals_={"new_msgs": "dict[int,opaque:EmailMessage]", "notifications": "list[str]", "msg_sequences": "set[str]", "msg_seqs": "defaultdict[str,set[int]]"},
        props=["C02", "C13", "C01", "C03"],
        ghost={"harness": "harness.mboxops:Resync", "inv_except": ["seq-keys-exist"], "call_asserts": {"push": {
            # C01: the new message count is announced directly only to a session with nothing queued (or idling);
            # otherwise it is queued *behind* the pending EXPUNGEs (the count already has them applied)
            "exists-not-ahead-of-queued-expunges": "len(c.pending_notifications) == 0 or c.idling",
        }}},
    )
    for pid in ("C02", "C13"):
        reg.properties.setdefault(pid, {}).setdefault("bounded", []).append(
            {"name": "resync-real-folder", "module": "harness.mboxops", "func": "Resync"})
    reg.properties.setdefault("C13", {}).setdefault("bounded", []).append(
        {"name": "expunge-real-folder", "module": "harness.mboxops", "func": "Expunge"})
    for pid in ("C01", "C04"):
        reg.properties.setdefault(pid, {}).setdefault("bounded", []).append(
            {"name": "dispatch-or-pend", "module": "harness.notify", "func": "Dispatch"})
    reg.properties.setdefault("C01", {}).setdefault("bounded", []).append(
        {"name": "view-replay-e2e", "module": "harness.e2e", "func": "ViewReplay"})

    # ---- copy(): the message-set expansion only (C15 e) ----------------------------------
    reg.contract(
        P, "Mailbox.copy", uses_invariant=True,
        params={"self": "ref:Mailbox", "msg_set": "list[MsgElt]", "dst_mbox": "ref:Mailbox", "uid_command": "bool",
                "imap_cmd": "opt[ref:IMAPClientCommand]"}, ret="tuple[list[opt[int]],list[opt[int]]]",
        requires={"wf": "wf_msgset(msg_set)", "non-empty": "len(self.msg_keys) > 0"},
        raises={"Bad": None, "MailboxInconsistency": None},
        modifies=["IMAPClientCommand.completed"],
        loops={0: {"invariant": {
            "mapped": "forall(lambda n: (n in msg_idxs) == (1 <= n and n <= len(self.uids) and self.uids[n - 1] in uid_list and pos(uid_list, self.uids[n - 1]) < _i))",
        }}},
        locals_={"msg_idxs": "list[int]", "copy_msgs": "list[tuple[str,list[str],float]]"},
        ghost={
            "cut": {"before_assign": "src_uids", "asserts": {
                # the private expansion in copy() denotes the same messages as every other command (C15 e)
                "uid-denote": "implies(uid_command, forall(lambda n: (n in msg_idxs) == (1 <= n and n <= len(self.uids) and denotes(msg_set, uid_max(self), self.uids[n - 1]))))",
                "seq-denote": "implies(not uid_command, forall(lambda n: (n in msg_idxs) == denotes(msg_set, self.num_msgs, n)))",
            }},
            "harness": "harness.e2e:CopyExpansion",
        },
        props=["C15", "C03", "C05"],
        note="verified up to the cut point (the message-set expansion); the copy itself is not under contract",
    )
    # ---- copy(), second part (C10): the source mailbox is released BEFORE the command queues on the destination -------------
    reg.dynamic_dispatch[r"aiofiles\.os\.path\.getmtime\(mbox_msg_path\(self\.mailbox, msg_key\)\)"] = "aio.msg_mtime"
    reg.contract("<aiofiles>", "aio.msg_mtime", params={"self": "ref:Mailbox", "path": "opaque:Path"}, ret="float", raises={"FileNotFoundError": None},
                 trusted=True, yields=True, note="A-OS: mtime of a message file")
    reg.contract("<stdlib>", "MH.get_bytes", params={"self": "ref:MH", "key": "str"}, ret="str", raises={"KeyError": None}, trusted=True, note="A-MH: raw bytes of a stored message")
    reg.contract("<stdlib>", "os.path.join", params={"a": "opaque:ctx_tmp_dir", "b": "str"}, ret="str", trusted=True, note="path inside the private temporary directory")
    reg.context_managers.append((r"open\(msg_path, 'wb'\)", "opaque"))
    reg.dropped_calls.add("f.write")
    reg.contract("asimap/parse.py", "IMAPClientCommand.__init__", params={"self": "ref:IMAPClientCommand", "imap_command": "str"},
                 ensures={"fresh-not-completed": "not result.completed"}, trusted=True, note="plain field initialisation; the phony APPEND command is a fresh object")
    reg.contract(
        P, "Mailbox.copy#release", uses_invariant=True,
        params={"self": "ref:Mailbox", "msg_set": "list[MsgElt]", "dst_mbox": "ref:Mailbox", "uid_command": "bool",
                "imap_cmd": "opt[ref:IMAPClientCommand]"},
        requires={"wf": "wf_msgset(msg_set)", "non-empty": "len(self.msg_keys) > 0"},
        raises={"Bad": None, "MailboxInconsistency": None, "FileNotFoundError": None, "KeyError": None, "IndexError": None},
        modifies=["IMAPClientCommand.completed", "IMAPClientCommand.command"],
        loops={0: {"invariant": {
            "mapped": "forall(lambda n: (n in msg_idxs) == (1 <= n and n <= len(self.uids) and self.uids[n - 1] in uid_list and pos(uid_list, self.uids[n - 1]) < _i))",
        }}, 1: {"invariant": {"flags-kept": "forall(lambda s, k: mem(self.sequences, s, k) == mem(lpre(self.sequences), s, k), 'str', 'int')"}}},
        locals_={"msg_idxs": "list[int]", "copy_msgs": "list[tuple[str,list[str],float]]", "src_uids": "list[int]"},
        ghost={
            "call_asserts": {"get_bytes": {
                # C16 / C05: the bytes copied are those of the denoted message's own file (MH key), not of the file named like its position
                "reads-the-denoted-message-file": "arg_key == str(msg_key) and msg_key == self.msg_keys[idx - 1]",
            }},
            "cut": {"before_with": r"append_imap_cmd\.ready_and_okay\(dst_mbox\)", "asserts": {
                # "COPY/MOVE count as their documented steps: read the source, add to the destination": when the command starts to wait
                # for the destination mailbox it no longer occupies the source, so two opposite-direction copies cannot wait for each other
                "source-released-before-waiting": "is_none(imap_cmd) or some(imap_cmd).completed",
                "waits-with-a-fresh-command": "append_imap_cmd != some(imap_cmd) or is_none(imap_cmd)",
            }},
        },
        props=["C10", "C16", "C05"],
        note="second contract on Mailbox.copy: verified from entry up to the point where it queues on the destination mailbox (cut at `async with append_imap_cmd.ready_and_okay(dst_mbox)`)",
    )
    for pid in ("C15", "C05"):
        reg.properties.setdefault(pid, {}).setdefault("bounded", []).append(
            {"name": "copy-expansion-e2e", "module": "harness.e2e", "func": "CopyExpansion"})

    # ---- Mailbox.search: result list is exactly the matching positions / UIDs, ascending (C14 f) ----
    reg.contract("asimap/search.py", "SearchContext.__init__",
                 params={"self": "ref:SearchContext", "mailbox": "ref:Mailbox", "msg_key": "int", "msg_number": "int", "seq_max": "int", "uid_max": "int"},
                 ensures={"fields": "result.mailbox == mailbox and result.msg_key == msg_key and result.msg_number == msg_number and result.seq_max == seq_max and result.uid_max == uid_max",
                          "caches-empty": "is_none(result._uid) and is_none(result._msg_size)"},
                 trusted=True, note="plain field initialisation (search.py:50-89); the object is fresh")
    reg.contract(P, "Mailbox._maybe_extend_timeout", params={"self": "ref:Mailbox", "timeout_cm": "opt[opaque:Timeout]", "extend": "float"},
                 trusted=True, note="DESIGN 2.1 rule 4: touches only the timeout context manager")
    SAT = "sat(search, self, self.msg_keys[n - 1], n, self.num_msgs, self.uids[len(self.uids) - 1])"
    reg.contract(
        P, "Mailbox.search", uses_invariant=True,
        params={"self": "ref:Mailbox", "search": "ref:IMAPSearch", "uid_cmd": "bool", "timeout_cm": "opt[opaque:Timeout]"}, ret="list[int]",
        ensures={
            "seq-exact": f"implies(not uid_cmd, forall(lambda n: (n in result) == (1 <= n and n <= self.num_msgs and {SAT})))",
            "uid-exact": f"implies(uid_cmd, forall(lambda u: (u in result) == exists(lambda n: 1 <= n and n <= self.num_msgs and self.uids[n - 1] == u and {SAT})))",
            "ascending": "asc(result)",
        },
        modifies=["IMAPSearch.ctx", "SearchContext._uid", "SearchContext._uid_vv", "SearchContext._msg_size", "SearchContext._sequences"],
        loops={0: {"invariant": {
            "seq-prefix": f"implies(not uid_cmd, forall(lambda n: (n in results) == (1 <= n and n <= _i and {SAT})))",
            "uid-prefix": f"implies(uid_cmd, forall(lambda u: (u in results) == exists(lambda n: 1 <= n and n <= _i and self.uids[n - 1] == u and {SAT})))",
            "asc": "asc(results)",
            "bounded": "forall(lambda j: implies(0 <= j and j < len(results), ite(uid_cmd, exists(lambda n: 1 <= n and n <= _i and self.uids[n - 1] == results[j]), results[j] <= _i)))",
        }}},
        props=["C14"],
        ghost={"harness": "harness.e2e:SearchExact"},
    )

    # ---- _pack_if_necessary: renumbering keeps every UID on its message (C03 a) -----------------
    reg.contract(
        "<stdlib>", "MH.pack", params={"self": "ref:MH"},
        ensures={
            "renumbered": "forall(lambda L: implies(asc(L) and elems(L) == old(self.g_keys), "
                          "forall(lambda k: (k in self.g_keys) == (1 <= k and k <= len(L))) and "
                          "forall(lambda j: implies(0 <= j and j < len(L), get(self.g_content, j + 1) == get(old(self.g_content), L[j]))) and "
                          "forall(lambda s, j: implies(0 <= j and j < len(L), mem(self.g_seqs, s, j + 1) == mem(old(self.g_seqs), s, L[j])), 'str', 'int') and "
                          "forall(lambda s, k: implies(mem(self.g_seqs, s, k), 1 <= k and k <= len(L)), 'str', 'int')), 'list[int]')",
            "count-kept": "card(self.g_keys) == card(old(self.g_keys))",
            # arithmetic fact stated, not proved (SMT does not do the induction): the ascending listing of {1..n} is 1, 2, .., n
            "enum-of-1-n": "forall(lambda M: implies(asc(M) and elems(M) == self.g_keys and len(M) == card(self.g_keys), forall(lambda j: implies(0 <= j and j < len(M), M[j] == j + 1))), 'list[int]')",
        },
        modifies=["self.g_keys", "self.g_content", "self.g_seqs"], trusted=True,
        note="A-MH: mailbox.MH.pack renames the message files to 1..n in ascending order of their old numbers and rewrites .mh_sequences accordingly",
    )
    reg.contract("<stdlib>", "MH.iterkeys", params={"self": "ref:MH"}, ret="list[int]",
                 ensures={"asc": "asc(result)", "all": "elems(result) == self.g_keys", "count": "len(result) == card(self.g_keys)"},
                 trusted=True, note="A-MH: ascending message numbers")
    reg.contract(
        P, "Mailbox._pack_if_necessary", uses_invariant=True,
        params={"self": "ref:Mailbox"}, ret="bool",
        requires={
            "pack-limit": "self.folder_size_pack_limit >= 1",
            # no undiscovered delivery between the resync and the pack (both run under the folder lock)
            "folder-is-known": "elems(self.msg_keys) == self.mailbox.g_keys and len(self.msg_keys) == card(self.mailbox.g_keys)",
            "disk-seqs-current": "forall(lambda s, k: mem(self.mailbox.g_seqs, s, k) == mem(self.sequences, s, k), 'str', 'int')",
        },
        ensures={
            "uids-kept": "same(self.uids, old(self.uids)) and self.next_uid == old(self.next_uid) and self.uid_vv == old(self.uid_vv)",
            "same-count": "len(self.msg_keys) == len(old(self.msg_keys))",
            # position i still holds the same message, hence uids[i] still names it
            "binding-kept": "forall(lambda i: implies(0 <= i and i < len(self.msg_keys), "
                            "get(self.mailbox.g_content, self.msg_keys[i]) == get(old(self.mailbox.g_content), old(self.msg_keys)[i])))",
            "flags-follow": "forall(lambda s, i: implies(0 <= i and i < len(self.msg_keys), mem(self.sequences, s, self.msg_keys[i]) == mem(old(self.sequences), s, old(self.msg_keys)[i])), 'str', 'int')",
            "untouched-when-false": "implies(not result, same(self.msg_keys, old(self.msg_keys)) and same(self.sequences, old(self.sequences)))",
        },
        keeps_invariant=True,
        modifies=["self.msg_keys", "self.sequences", "self._msg_key_to_idx", "self._uid_to_idx", "self.mtime", "MH.g_keys", "MH.g_content", "MH.g_seqs", "self.g_db_seqs", "self.g_db_exists", "self.g_db_uid_vv", "self.g_db_next_uid", "self.g_db_uids", "self.g_db_msg_keys", "self.g_db_subscribed", "self.g_db_num_msgs"],
        props=["C03"],
    )

    # ---- append (C05 c, C02 d, C04 d) ------------------------------------------------------------------------------
    reg.contract("<stdlib>", "MH.add", params={"self": "ref:MH", "message": "opaque:EmailMessage"}, ret="int",
                 ensures={"fresh-largest": "result >= 1 and result not in old(self.g_keys) and forall(lambda k: implies(k in old(self.g_keys), k < result))",
                          "added": "self.g_keys == old(self.g_keys) | {result}", "count": "card(self.g_keys) == card(old(self.g_keys)) + 1",
                          "seqs-kept": "same(self.g_seqs, old(self.g_seqs))"},
                 modifies=["self.g_keys", "self.g_content"], trusted=True, note="A-MH: mailbox.MH.add stores the message under max(existing)+1")
    reg.contract(P, "mbox_msg_path", params={"mbox": "ref:MH", "x": "int"}, ret="opaque:Path", trusted=True, note="path of a message file")
    reg.contract("<aiofiles>", "utime", params={"path": "opaque:Path", "times": "tuple[float,float]"}, trusted=True, yields=True, note="A-OS: sets the file's mtime (internal date)")
    reg.contract("<datetime>", "datetime.timestamp", params={"self": "opaque:datetime"}, ret="float", trusted=True, note="stdlib")
    NEWK = "local('msg_key')"
    reg.contract(
        P, "Mailbox.append", uses_invariant=True,
        params={"self": "ref:Mailbox", "msg": "opaque:EmailMessage", "flags": "opt[list[str]]", "date_time": "opt[opaque:datetime]"}, ret="int",
        requires={
            "E1-superset": "subset(elems(self.msg_keys), self.mailbox.g_keys)",
            "E1-larger": "forall(lambda k: implies(k in self.mailbox.g_keys and k not in self.msg_keys, forall(lambda j: implies(0 <= j and j < len(self.msg_keys), self.msg_keys[j] < k))))",
            "selectable": "'\\\\Noselect' not in self.attributes",
            "disk-seqs-current": "forall(lambda s, k: mem(self.mailbox.g_seqs, s, k) == mem(self.sequences, s, k), 'str', 'int')",
        },
        ensures={
            # C05 (c) / C02 (d): exactly the message we stored is in the mailbox now, and the UID we report is the one paired with it
            "added-message-present": f"{NEWK} in self.msg_keys and {NEWK} not in old(self.msg_keys)",
            "appenduid-is-its-uid": f"result == uid_at(self, {NEWK})",
            "uid-is-fresh": "result >= old(self.next_uid) and result < self.next_uid",
            "nothing-removed": "forall(lambda k: implies(k in old(self.msg_keys), k in self.msg_keys and uid_of_key(self, k) == old(uid_of_key(self, k))))",
            # C04 (d): \\Recent plus exactly the given flags; \\Seen absent => unseen
            # (outside known finding F05: a keyword atom equal to a reserved sequence name such as `unseen` aliases a system flag)
            "initial-flags": f"mem(self.sequences, 'Recent', {NEWK}) and implies(is_none(flags) or forall(lambda i: implies(0 <= i and i < len(some(flags)), not reserved_seq(some(flags)[i]))), "
                             f"forall(lambda j: implies((not is_none(flags)) and 0 <= j and j < len(some(flags)) and seq_of_flag(some(flags)[j]) != 'Seen' and seq_of_flag(some(flags)[j]) != 'Recent', "
                             f"mem(self.sequences, seq_of_flag(some(flags)[j]), {NEWK}))))",
        },
        raises={"Bad": None},
        keeps_invariant=True,
        modifies=["self.last_resync", "self.mtime", "self.optional_resync", "self.msg_keys", "self.uids", "self.num_msgs", "self.num_recent", "self.sequences", "self.next_uid",
                  "self._msg_key_to_idx", "self._uid_to_idx", "self.attributes", "MH.g_seqs", "MH.g_keys", "MH.g_content", "*.pending_notifications", "ClientProxy.g_out",
                  "self.g_db_seqs", "self.g_db_exists", "self.g_db_uid_vv", "self.g_db_next_uid", "self.g_db_uids", "self.g_db_msg_keys", "self.g_db_subscribed", "self.g_db_num_msgs"],
        loops={0: {"invariant": {
            "flags-so-far": "forall(lambda j: implies(0 <= j and j < _i, mem(self.sequences, seqs[j], msg_key))) and mem(self.sequences, 'Recent', msg_key)",
            "others-kept": "forall(lambda s, k: implies(k != msg_key, mem(self.sequences, s, k) == mem(lpre(self.sequences), s, k)), 'str', 'int')",
            "disk-untouched": "same(self.mailbox.g_keys, lpre(self.mailbox.g_keys))",
        }}},
        ghost={"assume_pre_of": {"check_new_msgs_and_flags": ["E1-prefix", "E1-count"]},
               "exposed_locals": {"msg_key": "int"},
               # stepping stones for the resync's E1 preconditions (proved here, then available to the solver): every file that appeared
               # since entry -- ours or the delivery agent's -- is numbered above every file that was there, hence above every listed key
               "call_asserts": {"check_new_msgs_and_flags": {
                   "lemma-listed-keys-were-on-disk": "forall(lambda j: implies(0 <= j and j < len(self.msg_keys), self.msg_keys[j] in old(self.mailbox.g_keys)))",
                   "lemma-list-unchanged": "same(self.msg_keys, old(self.msg_keys))",
               }},
               # rely at every await (E1): a delivery agent may add message files with numbers above every existing one,
               # and list them in sequences of its own; nothing else in the folder changes
               "rely": {"havoc": ["MH.g_keys", "MH.g_seqs", "MH.g_content"], "assume": [
                   "forall(lambda r, x: implies(x in old(r.g_keys), x in r.g_keys), 'ref:MH', 'int')",
                   "forall(lambda r, k: implies(k in r.g_keys and k not in old(r.g_keys), forall(lambda j: implies(j in old(r.g_keys), j < k))), 'ref:MH', 'int')",
                   "forall(lambda r, s, k: implies(k in old(r.g_keys), mem(r.g_seqs, s, k) == mem(old(r.g_seqs), s, k)), 'ref:MH', 'str', 'int')",
               ], "stable": {
                   # since entry: files only appeared, and each one that appeared is numbered above everything that was there at entry
                   "files-only-appear": "forall(lambda x: implies(x in old(self.mailbox.g_keys), x in self.mailbox.g_keys))",
                   "appeared-files-are-larger": "forall(lambda k, i: implies(k in self.mailbox.g_keys and k not in old(self.mailbox.g_keys) and i in old(self.mailbox.g_keys), i < k))",
               }}},
        is_async=True,
        props=["C05", "C02", "C04"],
    )


def declare_recovery(reg):
    """check_new_msgs_and_flags after a crash (C11): the folder may differ arbitrarily from the restored UID state."""
    P = "asimap/mbox.py"
    main = reg.contracts["Mailbox.check_new_msgs_and_flags"]
    reg.contract(
        P, "Mailbox.check_new_msgs_and_flags#recovery", uses_invariant=True,
        params={"self": "ref:Mailbox", "dont_notify": "opt[ref:Authenticated]", "optional": "bool"}, ret="bool",
        # no E1 here: after a kill the folder may have lost files (an EXPUNGE that removed files before its commit), gained files
        # (an APPEND/COPY that added files before its commit) or both; only the restored state's own consistency is assumed
        requires={
            # a fact of finite arithmetic, not an assumption about the environment (SMT solvers do not derive pigeonhole facts; see lean/Pigeonhole.lean):
            # a strictly ascending listing of the folder that is at least as long as the stored key list and differs from it has a key the stored list lacks
            "pigeonhole": "forall(lambda L: implies(asc(L) and elems(L) == self.mailbox.g_keys and len(L) >= len(self.msg_keys) and not same(L, self.msg_keys), "
                          "card(self.mailbox.g_keys - elems(self.msg_keys)) >= 1), 'list[int]')",
        },
        modifies=list(main.modifies),
        loops=dict(main.loops), locals_={"new_msgs": "dict[int,opaque:EmailMessage]", "notifications": "list[str]", "msg_sequences": "set[str]", "msg_seqs": "defaultdict[str,set[int]]"},
        ghost={
            "inv_except": ["seq-keys-exist"],
            "harness": "harness.persist:CrashRecovery",
            "cut": {"before_stmt": r"self\._rebuild_index_dicts\(\)", "asserts": {
                # UIDNEXT is above every UID ever revealed: it never goes down, whatever the folder looks like
                "uidnext-never-decreases": "self.next_uid >= old(self.next_uid)",
                "uidnext-above-every-uid": "forall(lambda j: implies(0 <= j and j < len(self.uids), self.uids[j] < self.next_uid))",
                # no (UIDVALIDITY, UID) pair is rebound: a UID in the new list is either bound to the key it was bound to before, or fresh
                "uid-kept-or-fresh": "forall(lambda j: implies(0 <= j and j < len(self.uids), self.uids[j] >= old(self.next_uid) or "
                                     "(j < len(old(self.uids)) and self.uids[j] == old(self.uids)[j] and j < len(self.msg_keys) and j < len(old(self.msg_keys)) and self.msg_keys[j] == old(self.msg_keys)[j])))",
                "uid-vv-kept": "self.uid_vv == old(self.uid_vv)",
            }},
        },
        is_async=True,
        props=["C11"],
        note="second contract on check_new_msgs_and_flags without environment assumption E1 (crash recovery: the folder may have shrunk); verified up to the point "
             "where the UID allocation is complete (cut in front of `self._rebuild_index_dicts()`)",
    )
    reg.properties.setdefault("C11", {}).setdefault("bounded", []).append(
        {"name": "crash-leaves-folder-changed", "module": "harness.persist", "func": "CrashRecovery"})
    reg.properties.setdefault("C11", {}).setdefault("bounded", []).append(
        {"name": "crash-keeps-acknowledged-flags", "module": "harness.persist", "func": "CrashFlags"})
    for pid in ("C11", "C02", "C13"):
        reg.properties.setdefault(pid, {}).setdefault("lean", []).append("lean/Pigeonhole.lean")


def declare_store(reg):
    """Mailbox.store (C04): STORE +FLAGS / -FLAGS / FLAGS changes exactly the named flags of exactly the addressed messages."""
    P = "asimap/mbox.py"
    ADD, REM, REP = "StoreAction.ADD_FLAGS", "StoreAction.REMOVE_FLAGS", "StoreAction.REPLACE_FLAGS"
    reg.enum("asimap/parse.py", "StoreAction")

    def spec(done_k, done_f, base):
        """mem(self.sequences, s, k) as a function of the state `base`, for the keys selected by done_k and the flags selected by done_f"""
        add = f"ite({done_k} and {done_f('s')}, True, ite({done_k} and {done_f(repr('Seen'))} and s == 'unseen', False, mem({base}(self.sequences), s, k)))"
        rem = f"ite({done_k} and {done_f('s')}, False, ite({done_k} and {done_f(repr('Seen'))} and s == 'unseen', True, mem({base}(self.sequences), s, k)))"
        return add, rem

    K_ALL = "k in local_keys"
    F_ALL = lambda x: f"{x} in local_flags"  # noqa: E731
    add_all, rem_all = [e.replace("local_keys", "local('msg_keys')").replace("local_flags", "local('flags')") for e in spec(K_ALL, F_ALL, "old")]
    rep_all = ("ite(k in local('msg_keys'), (s in local('flags')) or (s == 'unseen' and 'Seen' not in local('flags')) or (s == 'Recent' and mem(old(self.sequences), 'Recent', k)), "
               "mem(old(self.sequences), s, k))")
    # outer loop: keys before position _i are done completely
    K_DONE = "(k in msg_keys and pos(msg_keys, k) < _i)"
    add_o, rem_o = spec(K_DONE, lambda x: f"{x} in flags", "lpre")
    rep_o = (f"ite({K_DONE}, (s in flags) or (s == 'unseen' and 'Seen' not in flags) or (s == 'Recent' and mem(lpre(self.sequences), 'Recent', k)), mem(lpre(self.sequences), s, k))")
    # inner loop (one key): flags before position _i are done
    add_i, rem_i = spec("k == key", lambda x: f"({x} in flags and pos(flags, {x}) < _i)", "lpre")
    reg.contract(
        P, "Mailbox.store", uses_invariant=True,
        params={"self": "ref:Mailbox", "msg_set": "list[int]", "action": "enum:StoreAction", "flags": "list[str]", "uid_cmd": "bool", "dont_notify": "opt[ref:Authenticated]"},
        ret="list[str]",
        requires={
            # what the management task's resolution guarantees: positions of existing messages, each once
            "positions-exist": "forall(lambda j: implies(0 <= j and j < len(msg_set), 1 <= msg_set[j] and msg_set[j] <= len(self.msg_keys)))",
            "positions-distinct": "distinct(msg_set)",
            # outside known finding F05: a keyword atom that IS a reserved sequence name aliases a system flag
            "no-reserved-keyword-atoms": "forall(lambda j: implies(0 <= j and j < len(flags), seq_of_flag(flags[j]) != 'unseen' and (flags[j] == '\\\\Recent' or seq_of_flag(flags[j]) != 'Recent')))",
            "disk-seqs-current": "forall(lambda s, k: mem(self.mailbox.g_seqs, s, k) == mem(self.sequences, s, k), 'str', 'int')",
        },
        ensures={
            # (d) +FLAGS adds exactly the named flags to exactly the addressed messages (\\Seen also clears `unseen`)
            "add-exact": f"implies(action == {ADD}, forall(lambda s, k: mem(self.sequences, s, k) == {add_all}, 'str', 'int'))",
            # (e) -FLAGS removes exactly them (\\Seen also sets `unseen`)
            "remove-exact": f"implies(action == {REM}, forall(lambda s, k: mem(self.sequences, s, k) == {rem_all}, 'str', 'int'))",
            # (f) FLAGS replaces: the message has exactly the named flags afterwards, \\Recent is kept as it was
            "replace-exact": f"implies(action == {REP}, forall(lambda s, k: mem(self.sequences, s, k) == {rep_all}, 'str', 'int'))",
            "one-response-per-message": "len(result) == len(msg_set)",
            # C13: what MH tools see is what IMAP clients see
            "mh-sequences-written": "forall(lambda s, k: mem(self.mailbox.g_seqs, s, k) == mem(self.sequences, s, k), 'str', 'int')",
            # C11/C12: the change is committed before the tagged reply
            "committed": "forall(lambda s, k: mem(self.g_db_seqs, s, k) == mem(self.sequences, s, k), 'str', 'int')",
            "uid-state-untouched": "same(self.msg_keys, old(self.msg_keys)) and same(self.uids, old(self.uids)) and self.next_uid == old(self.next_uid)",
        },
        # \\Recent can not be set or cleared by a client
        raises={"No": "'\\\\Recent' in flags"},
        exc_ensures={"refused-untouched": "same(self.sequences, old(self.sequences))"},
        loops={
            0: {"invariant": {
                "add-so-far": f"implies(action == {ADD}, forall(lambda s, k: mem(self.sequences, s, k) == {add_o}, 'str', 'int'))",
                "remove-so-far": f"implies(action == {REM}, forall(lambda s, k: mem(self.sequences, s, k) == {rem_o}, 'str', 'int'))",
                "replace-so-far": f"implies(action == {REP}, forall(lambda s, k: mem(self.sequences, s, k) == {rep_o}, 'str', 'int'))",
                "one-each": "len(response) == _i and len(notifications) == _i",
            }},
            1: {"invariant": {
                "add-flags-so-far": f"implies(action == {ADD}, forall(lambda s, k: mem(self.sequences, s, k) == {add_i}, 'str', 'int'))",
                "remove-flags-so-far": f"implies(action == {REM}, forall(lambda s, k: mem(self.sequences, s, k) == {rem_i}, 'str', 'int'))",
            }},
        },
        locals_={"notifications": "list[str]", "response": "list[str]"},
        modifies=["self.sequences", "MH.g_seqs", "*.pending_notifications", "ClientProxy.g_out",
                  "self.g_db_seqs", "self.g_db_exists", "self.g_db_uid_vv", "self.g_db_next_uid", "self.g_db_uids", "self.g_db_msg_keys", "self.g_db_subscribed", "self.g_db_num_msgs"],
        keeps_invariant=True, is_async=True,
        props=["C04", "C13"],
        ghost={"inv_except": ["seq-keys-exist"]},
    )


def declare_concurrency_oracles(reg):
    for pid in ("C10", "C03", "C15"):
        reg.properties.setdefault(pid, {}).setdefault("bounded", []).append(
            {"name": "uid-command-during-expunge", "module": "harness.e2e", "func": "ConcurrentExpunge"})
    for pid in ("C06", "C10"):
        reg.properties.setdefault(pid, {}).setdefault("bounded", []).append(
            {"name": "command-dequeued-at-shutdown", "module": "harness.e2e", "func": "DequeuedAtShutdown"})
    # C10 speaks of POP3 sessions next to IMAP ones: the POP3 session oracle (snapshot kept while an IMAP session expunges) counts for it too
    reg.properties.setdefault("C10", {}).setdefault("bounded", []).append(
        {"name": "pop3-real-session", "module": "harness.pop3", "func": "Pop3Session"})


def declare_rename_inbox(reg):
    """RENAME INBOX x (C17: every message and flag intact, nothing left under the old name): the message-moving loop of _helper_rename_inbox."""
    P = "asimap/mbox.py"
    SEQ = "defaultdict[str,set[int]]"
    reg.contract("<stdlib>", "MH.remove", params={"self": "ref:MH", "key": "str"},
                 ensures={"removed": "self.g_keys == old(self.g_keys) - {int(key)}"},
                 raises={"KeyError": "may:int(key) not in self.g_keys"}, exc_ensures={"kept": "self.g_keys == old(self.g_keys)"},
                 modifies=["self.g_keys"], trusted=True, note="A-MH: mailbox.MH.remove deletes exactly that message file; KeyError only when it is gone")
    MOVED = "len(new_msg_keys) == len(ghost_src) and len(uids) == len(ghost_src)"
    MOVED_SRC = "forall(lambda j: implies(0 <= j and j < len(ghost_src), exists(lambda i: 0 <= i and i < _i and _it[i] == ghost_src[j])))"
    MOVED_NEW = "forall(lambda j: implies(0 <= j and j < len(ghost_src), new_msg_keys[j] in new_mbox.mailbox.g_keys))"
    MOVED_UID = "forall(lambda j: implies(0 <= j and j < len(ghost_src), uids[j] == lpre(new_mbox.next_uid) + j))"
    MOVED_GONE = "forall(lambda j: implies(0 <= j and j < len(ghost_src), ghost_src[j] not in inbox.mailbox.g_keys))"
    FLAGS = "forall(lambda j, s: implies(0 <= j and j < len(ghost_src), mem(sequences, s, new_msg_keys[j]) == mem(inbox.sequences, s, ghost_src[j])), 'int', 'str')"
    NOSTRAY = "forall(lambda s, k: implies(mem(sequences, s, k), k in new_msg_keys), 'str', 'int')"
    reg.contract(
        P, "_helper_rename_inbox", params={"inbox": "ref:Mailbox", "new_name": "str"},
        locals_={"new_mbox": "ref:Mailbox", "server": "ref:IMAPUserServer", "ghost_src": "list[int]", "uids": "list[int]", "new_msg_keys": "list[int]", "sequences": SEQ},
        ghost={
            "harness": "harness.namespace:RenameThenCreate",
            "start_at": "uids = []",
            "start_requires": {
                # the mailbox that was just created is another object with its own folder
                "distinct": "new_mbox != inbox and new_mbox.mailbox != inbox.mailbox",
                "next-uid": "new_mbox.next_uid >= 1",
            },
            # ghost code: remember which inbox message each new message came from
            "ghost_code": {"after": {r"uids = \[\]": "ghost_src = []", r"new_msg_keys\.append\(new_msg_key\)": "ghost_src.append(key)"}},
            "cut": {"before_with": r"new_mbox\.mh_sequences_lock", "asserts": {
                "one-new-message-per-moved-message": "len(new_msg_keys) == len(ghost_src) and len(uids) == len(ghost_src)",
                "flags-carried": "forall(lambda j, s: implies(0 <= j and j < len(ghost_src), mem(sequences, s, new_msg_keys[j]) == mem(inbox.sequences, s, ghost_src[j])), 'int', 'str')",
                "no-stray-flags": NOSTRAY,
                "uids-fresh-in-order": "forall(lambda j: implies(0 <= j and j < len(uids), uids[j] == old(new_mbox.next_uid) + j)) and new_mbox.next_uid == old(new_mbox.next_uid) + len(uids)",
                "new-keys-ascending": "asc(new_msg_keys)",
                "nothing-left-in-inbox-folder": "forall(lambda j: implies(0 <= j and j < len(ghost_src), ghost_src[j] not in inbox.mailbox.g_keys))",
                "inbox-flags-read-only": "forall(lambda s, k: mem(inbox.sequences, s, k) == mem(old(inbox.sequences), s, k), 'str', 'int')",
            }},
        },
        loops={
            0: {"invariant": {
                "moved": MOVED, "moved-src": MOVED_SRC, "moved-new": MOVED_NEW, "moved-uid": MOVED_UID, "moved-gone": MOVED_GONE,
                "flags": FLAGS,
                "no-stray": NOSTRAY,
                "next-uid": "new_mbox.next_uid == lpre(new_mbox.next_uid) + len(uids)",
                "asc": "asc(new_msg_keys)",
                "distinct-folders": "new_mbox.mailbox != inbox.mailbox and new_mbox != inbox",
                "remaining-present": "forall(lambda j: implies(_i <= j and j < len(_it), _it[j] in inbox.mailbox.g_keys))",
                "listing-ascending": "asc(_it)",
                "src-distinct": "forall(lambda a, b: implies(0 <= a and a < b and b < len(ghost_src), ghost_src[a] != ghost_src[b]))",
                "inbox-flags-kept": "forall(lambda s, k: mem(inbox.sequences, s, k) == mem(lpre(inbox.sequences), s, k), 'str', 'int')",
            }},
            1: {"invariant": {
                "this-message": "forall(lambda s: implies(pos(_it, s) < _i, mem(sequences, s, new_msg_key) == mem(inbox.sequences, s, key)), 'str')",
                "not-yet": "forall(lambda s: implies(not (pos(_it, s) < _i), mem(sequences, s, new_msg_key) == mem(lpre(sequences), s, new_msg_key)), 'str')",
                "others-kept": "forall(lambda s, k: implies(k != new_msg_key, mem(sequences, s, k) == mem(lpre(sequences), s, k)), 'str', 'int')",
                "inbox-flags-kept": "forall(lambda s, k: mem(inbox.sequences, s, k) == mem(lpre(inbox.sequences), s, k), 'str', 'int')",
            }},
        },
        raises={},
        modifies=["Mailbox.next_uid", "MH.g_keys", "MH.g_content", "Mailbox.sequences"],
        is_async=True,
        props=["C17"],
        note="verified from `uids = []` (after the new mailbox has been created and fetched) up to the point where the collected lists are installed "
             "in the new mailbox; Mailbox.create / get_mailbox before it and the installation + EXPUNGE notifications after it are not under contract",
    )


def declare_rename_folder(reg):
    """RENAME of an ordinary mailbox (C17: nothing is left under the old name, the mailbox is reachable under the new one):
    the step that re-keys one mailbox of the subtree in the table of active mailboxes, `_helper_rename_folder._do_rename_folder`."""
    P = "asimap/mbox.py"
    # the helper is a closure over `srvr` (= mbox.server of the enclosing function): an arbitrary server object here
    reg.opaque_names["srvr"] = "ref:IMAPUserServer"
    reg.context_managers.append((r"srvr\.active_mailboxes_lock", "lock"))
    reg.dynamic_dispatch[r"srvr\.db\.execute\('UPDATE mailboxes SET name=\? WHERE id=\?', \(mbox_new_name, old_id\)\)"] = "db_rename_mailbox_row"
    reg.contract("<sqlite>", "db_rename_mailbox_row", params={"sql": "str", "params": "tuple[str,int]"}, yields=True, trusted=True,
                 note="A-DB: UPDATE mailboxes SET name=? WHERE id=?: the row keeps its id, UID state and flags rows (keyed by id); only the name column changes")
    AM = "srvr.active_mailboxes"
    reg.contract(
        P, "_helper_rename_folder._do_rename_folder", params={"old_mbox": "ref:Mailbox", "old_id": "int", "mbox_new_name": "str"},
        requires={
            "active": f"old_mbox.name in {AM}",
            "new-name-differs": "mbox_new_name != old_mbox.name",
            "confined": "safe_rel(mbox_new_name)",
        },
        ensures={
            # nothing is left under the old name: a later CREATE of the old name must not find the renamed mailbox's object
            "old-name-gone": f"old(old_mbox.name) not in {AM}",
            "reachable-under-new-name": f"mbox_new_name in {AM} and get({AM}, mbox_new_name) == old(get({AM}, old_mbox.name)) and get({AM}, mbox_new_name).name == mbox_new_name",
            "others-untouched": f"forall(lambda k: implies(k != old(old_mbox.name) and k != mbox_new_name, (k in {AM}) == (k in old({AM})) and get({AM}, k) == get(old({AM}), k)), 'str')",
        },
        raises={"NoSuchMailboxError": None},
        modifies=["IMAPUserServer.active_mailboxes", "Mailbox.name", "Mailbox.mailbox"],
        is_async=True,
        props=["C17"],
        ghost={"harness": "harness.namespace:RenameThenCreate"},
        note="nested helper of _helper_rename_folder, extracted as it stands; its free variable `srvr` is an arbitrary IMAPUserServer; the enclosing function "
             "(symlink, SQL LIKE query for the subtree, directory rename) is not under contract",
    )
    reg.properties.setdefault("C17", {}).setdefault("bounded", []).append(
        {"name": "rename-then-create-again", "module": "harness.namespace", "func": "RenameThenCreate"})
    reg.properties.setdefault("C17", {}).setdefault("bounded", []).append(
        {"name": "digit-level-names", "module": "harness.namespace", "func": "DigitComponent"})
