"""asimap/mbox.py"""


def declare(reg):
    P = "asimap/mbox.py"
    # the UID paired with an MH key (None when the key is not in the mailbox)
    reg.specfn(
        "uid_of_key", "m: ref:Mailbox, k: int", "opt[int]",
        "ite(k in m._msg_key_to_idx, m.uids[get(m._msg_key_to_idx, k)], None)",
    )
    reg.contract(
        P, "Mailbox.get_uid_from_msg",
        params={"self": "ref:Mailbox", "msg_key": "int"}, ret="tuple[int,opt[int]]",
        ensures={"vv": "result[0] == self.uid_vv", "uid": "result[1] == uid_of_key(self, msg_key)"},
        props=["C14", "C03"],
    )
