"""Field tables of the classes whose state the contracts talk about.

Types are the sidecar's reading of the attributes assigned in the real
`__init__` methods (asimap/mbox.py:166-290, parse.py:402-456, client.py:120-172,
search.py:50-89).  Ghost fields (prefix g_) exist only in specifications.
"""


def declare(reg):
    reg.enum("asimap/client.py", "ClientState")
    reg.enum("asimap/parse.py", "StatusAtt")
    reg.record("SearchArgs", {
        "msg_set": "list[MsgElt]", "keyword": "str", "n": "int", "string": "str", "header": "str", "search_key": "ref:IMAPSearch", "date": "int",
    })
    # ghost view of the sqlite file: g_uid_vv is the *committed* value of user_server.uid_vv (as stored text)
    # g_c_*: what is durable in the sqlite file; g_p_*: what the open transaction has done so far (A-DB)
    reg.classdef("Database", {"g_uid_vv": "str", "conn": "ref:Connection"}, path="asimap/db.py")
    reg.classdef("Connection", {"g_c_ver": "int", "g_c_schema": "int", "g_p_ver": "int", "g_p_schema": "int", "g_in_txn": "bool", "g_has_versions": "bool"})
    reg.classdef("Queue", {"g_items": "list[ref:IMAPClientCommand]"})
    reg.classdef("Event", {"g_set": "bool"})
    reg.classdef("ReMatch", {})
    reg.classdef("PWUser", {"username": "str", "pw_hash": "str", "maildir": "opaque:Path"}, path="asimap/auth.py")
    reg.classdef(
        "PreAuthenticated",
        {"state": "enum:ClientState", "user": "opt[ref:PWUser]", "client": "ref:ClientProxy", "name": "str"},
        path="asimap/client.py",
    )
    reg.classdef(
        "BaseClientHandler",
        {"client": "ref:ClientProxy", "mbox": "opt[ref:Mailbox]", "server": "opt[ref:IMAPUserServer]", "state": "enum:ClientState",
         "tag": "opt[str]", "name": "str", "pending_notifications": "list[str]", "idling": "bool"},
        path="asimap/client.py",
    )
    reg.union("HandlerResult", ["None", "bool", "str"])
    # g_out: ghost list of what was written to the per-user subprocess
    reg.classdef("IMAPSubprocessInterface", {"client_handler": "ref:PreAuthenticated", "g_out": "list[str]"}, path="asimap/server.py")
    reg.classdef("FetchAtt", {"partial": "opt[tuple[int,int]]", "peek": "bool"}, path="asimap/fetch.py")
    reg.classdef("IMAPUserServer", {"uid_vv": "int", "maildir": "str", "mailbox": "ref:MH", "active_mailboxes": "dict[str,ref:Mailbox]",
                                    "activating_mailboxes": "dict[str,opaque:Event]", "db": "ref:Database"}, path="asimap/user_server.py")
    # g_out: ghost list of everything pushed to this client, in order
    reg.classdef("ClientProxy", {"name": "str", "g_out": "list[str]", "rem_addr": "str"})
    reg.classdef(
        "POP3CommandHandler",
        {
            "client": "ref:ClientProxy",
            "mbox": "opt[ref:Mailbox]",
            "snapshot_msg_keys": "list[int]",
            "snapshot_uids": "list[int]",
            "msg_count": "int",
            "msg_sizes": "dict[int,int]",
            "deleted": "set[int]",
        },
        invariant={
            "snapshot-len": "len(self.snapshot_msg_keys) == self.msg_count and len(self.snapshot_uids) == self.msg_count",
            "snapshot-asc": "asc(self.snapshot_uids) and asc(self.snapshot_msg_keys)",
            "deleted-valid": "forall(lambda n: implies(n in self.deleted, 1 <= n and n <= self.msg_count))",
            "has-mbox": "not is_none(self.mbox)",
        },
        path="asimap/pop3_client.py",
    )
    # ghost view of the MH folder on disk: the set of message files (A-MH)
    reg.classdef("MH", {"g_keys": "set[int]", "g_seqs": "defaultdict[str,set[int]]", "g_mtime": "int", "g_content": "dict[int,int]"})
    reg.classdef(
        "Authenticated",
        {
            "idling": "bool",
            "pending_notifications": "list[str]",
            "client": "ref:ClientProxy",
            "examine": "bool",
            "select_while_selected_count": "int",
            "fetch_while_pending_count": "int",
            "server": "opt[ref:IMAPUserServer]",
            "name": "str",
            "mbox": "opt[ref:Mailbox]",
            "state": "enum:ClientState",
        },
        path="asimap/client.py",
    )
    reg.classdef(
        "IMAPClientCommand",
        {
            "command": "str",
            "uid_command": "bool",
            "fetch_peek": "bool",
            "fetch_atts": "list[ref:FetchAtt]",
            "msg_set": "opt[list[MsgElt]]",
            "msg_set_as_set": "opt[set[int]]",
            "completed": "bool",
            "silent": "bool",
            "tag": "str",
            "ready": "ref:Event",
            "resolve_error": "opt[opaque:Exception]",
            "timeout_cm": "opt[opaque:Timeout]",
            "user_name": "str",
            "input": "str",
            "password": "str",
            "mailbox_name": "str",
            "mailbox_src_name": "str",
            "mailbox_dst_name": "str",
            "message": "opaque:EmailMessage",
            "flag_list": "list[str]",
            "date_time": "opt[opaque:datetime]",
            "status_att_list": "list[enum:StatusAtt]",
        },
        path="asimap/parse.py",
    )
    reg.classdef(
        "Mailbox",
        {
            "name": "str",
            "uid_vv": "int",
            "mtime": "int",
            "next_uid": "int",
            "num_msgs": "int",
            "num_recent": "int",
            "msg_keys": "list[int]",
            "uids": "list[int]",
            "_msg_key_to_idx": "dict[int,int]",
            "_uid_to_idx": "dict[int,int]",
            "subscribed": "bool",
            "last_resync": "float",
            "sequences": "defaultdict[str,set[int]]",
            "attributes": "set[str]",
            "clients": "dict[str,ref:Authenticated]",
            "executing_tasks": "list[ref:IMAPClientCommand]",
            "optional_resync": "bool",
            "deleted": "bool",
            "folder_size_pack_limit": "int",
            "folder_ratio_pack_limit": "float",
            "server": "ref:IMAPUserServer",
            "mailbox": "ref:MH",
            "id": "opt[int]",
            "task_queue": "ref:Queue",
            "mgmt_task": "opaque:Task",
            # ghost: the committed row of this mailbox in sqlite (A-DB), decoded
            "g_db_exists": "bool",
            "g_db_seqs": "dict[str,set[int]]",
            "g_db_uid_vv": "int",
            "g_db_next_uid": "int",
            "g_db_uids": "list[int]",
            "g_db_msg_keys": "list[int]",
            "g_db_num_msgs": "int",
            "g_db_subscribed": "bool",
        },
        invariant={
            # DESIGN 6.2 Inv.1-4 (memory part)
            "len": "len(self.msg_keys) == len(self.uids) and len(self.uids) == self.num_msgs",
            "asc-keys": "asc(self.msg_keys)",
            "asc-uids": "asc(self.uids)",
            "keys-positive": "forall(lambda i: implies(0 <= i and i < len(self.msg_keys), self.msg_keys[i] >= 1))",
            "uids-positive": "forall(lambda i: implies(0 <= i and i < len(self.uids), self.uids[i] >= 1))",
            "next-uid": "self.next_uid >= 1 and forall(lambda i: implies(0 <= i and i < len(self.uids), self.uids[i] < self.next_uid))",
            "idx-keys": "index_of(self._msg_key_to_idx, self.msg_keys)",
            "idx-uids": "index_of(self._uid_to_idx, self.uids)",
            # distinct selected sessions are distinct handler objects with distinct connections
            "clients-injective": "forall(lambda p, q: implies(p in self.clients and q in self.clients and p != q, "
                                 "get(self.clients, p) != get(self.clients, q) and get(self.clients, p).client != get(self.clients, q).client), 'str', 'str')",
            # Inv.5 (first part): sequences mention only messages of the mailbox
            "seq-keys-exist": "forall(lambda s, k: implies(s in self.sequences and k in get(self.sequences, s), k in self.msg_keys), 'str', 'int')",
        },
        path="asimap/mbox.py",
    )
    reg.classdef(
        "SearchContext",
        {
            "mailbox": "ref:Mailbox",
            "msg_key": "int",
            "msg_number": "int",
            "seq_max": "int",
            "uid_max": "int",
            "_uid": "opt[int]",
            "_uid_vv": "opt[int]",
            "_msg_size": "opt[int]",
            "_sequences": "opt[list[str]]",
            "_msg": "opt[opaque:EmailMessage]",
            "_internal_date": "opt[opaque:adatetime]",
        },
        path="asimap/search.py",
    )
    reg.classdef("IMAPSearch", {"args": "SearchArgs", "ctx": "ref:SearchContext"}, path="asimap/search.py")

    # d is exactly the inverse map of list L (DESIGN Inv.4)
    reg.specfn(
        "index_of", "d: dict[int,int], L: list[int]", "bool",
        "forall(lambda i: implies(0 <= i and i < len(L), L[i] in d and get(d, L[i]) == i)) and "
        "forall(lambda k: implies(k in d, 0 <= get(d, k) and get(d, k) < len(L) and L[get(d, k)] == k))",
    )
