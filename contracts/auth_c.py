"""asimap/auth.py, PreAuthenticated.do_login -- C18 (a), (b)"""

G_AUTH = {"USERS": "dict[str,ref:PWUser]", "PW_FILE_LAST_TIMESTAMP": "float"}
G_THR = {"BAD_USER_AUTHS": "dict[str,tuple[int,float]]", "BAD_IP_AUTHS": "dict[str,tuple[int,float]]"}


def declare(reg):
    P = "asimap/auth.py"
    T = dict(trusted=True)
    # ghost view of the password file (A-OS: whatever is on disk when it is read)
    reg.specfn("pwfile_has", "u: str", "bool", doc="the password file currently has a record for u")
    reg.specfn("pwfile_hash", "u: str", "str", doc="the password hash currently stored for u")
    reg.specfn("pw_ok", "password: str, pw_hash: str", "bool", doc="A-HASH: hashers.check_password(password, hash)")
    reg.contract("asimap/hashers.py", "acheck_password", params={"password": "str", "encoded": "str"}, ret="bool",
                 ensures={"is": "result == pw_ok(password, encoded)"}, yields=True, **T,
                 note="A-HASH: true only for the password the hash was made from; false for unusable hashes")
    reg.contract("<aiofiles>", "aiofiles.os.path.getmtime", params={"path": "str"}, ret="float",
                 ensures={"reload": "(result > PW_FILE_LAST_TIMESTAMP) == reload_due()"}, yields=True, **T,
                 note="A-OS: mtime of the password file; it advances whenever the file content changes")
    # ---- read_users_from_file: the parse loop is assumed (start_requires), the merge into USERS is verified
    reg.contract(
        P, "read_users_from_file",
        params={"pw_file_name": "str"},
        ensures={
            "exactly-the-file": "forall(lambda u: (u in USERS) == pwfile_has(u), 'str')",
            "current-hash": "forall(lambda u: implies(u in USERS, get(USERS, u).pw_hash == pwfile_hash(u)), 'str')",
        },
        modifies=["global.USERS"],
        loops={
            1: {"invariant": {
                "merged": "forall(lambda u: ite(u in users and pos(_it, u) < _i, u in USERS and get(USERS, u) == get(users, u), "
                          "(u in USERS) == (u in lpre(USERS)) and implies(u in USERS, get(USERS, u) == get(lpre(USERS), u))), 'str')",
            }},
            2: {"invariant": {
                "purged": "forall(lambda u: (u in USERS) == (u in lpre(USERS) and not (u in _it and pos(_it, u) < _i)), 'str')",
                "kept": "forall(lambda u: implies(u in USERS, get(USERS, u) == get(lpre(USERS), u)), 'str')",
            }},
        },
        locals_={"users": "dict[str,ref:PWUser]"},
        ghost={
            "globals": G_AUTH,
            "start_at": "for username",
            "start_requires": {
                "parsed-file": "forall(lambda u: (u in users) == pwfile_has(u), 'str') and forall(lambda u: implies(u in users, get(users, u).pw_hash == pwfile_hash(u)), 'str')",
            },
            "harness": "harness.auth:ReadUsers",
        },
        is_async=True,
        props=["C18"],
        note="suffix verification: the line parser (async for over the file) is outside the subset and assumed to yield `users` == file content",
    )
    reg.contract(
        P, "authenticate",
        params={"username": "str", "password": "str"}, ret="ref:PWUser",
        requires={"loaded-is-file": "implies(not reload_due(), forall(lambda u: (u in USERS) == pwfile_has(u), 'str') and "
                                    "forall(lambda u: implies(u in USERS, get(USERS, u).pw_hash == pwfile_hash(u)), 'str'))"},
        ensures={
            # (b): returns only for an existing account whose *current* hash accepts the password
            "right-password": "pwfile_has(username) and pw_ok(password, pwfile_hash(username)) and result == get(USERS, username)",
        },
        raises={
            "NoSuchUser": "may:True",
            "BadAuthentication": "may:True",
        },
        exc_ensures={
            "only-when-wrong": "not (pwfile_has(username) and pw_ok(password, pwfile_hash(username)))",
        },
        modifies=["global.USERS", "global.PW_FILE_LAST_TIMESTAMP"],
        ghost={"globals": G_AUTH, "harness": "harness.auth:Authenticate"},
        is_async=True,
        props=["C18"],
    )
    reg.specfn("reload_due", "", "bool", doc="the password file changed since it was last read (mtime > PW_FILE_LAST_TIMESTAMP)")
    reg.properties.setdefault("C18", {}).setdefault("bounded", []).append(
        {"name": "authenticate-pwfile-histories", "module": "harness.auth", "func": "Authenticate"})

    # ---- PreAuthenticated.do_login: call order and state gate (C18 a, b, c) -------------------
    C = "asimap/client.py"
    reg.contract(C, "PreAuthenticated.send_pending_notifications", params={"self": "ref:PreAuthenticated"}, yields=True, **T,
                 modifies=["ClientProxy.g_out"], note="assumed: flushes queued untagged responses; touches no authentication state")
    reg.contract("<pathlib>", "Path.exists", params={"self": "opaque:Path"}, ret="bool", **T, note="A-OS")
    reg.contract("<pathlib>", "Path.is_dir", params={"self": "opaque:Path"}, ret="bool", **T, note="A-OS")
    U, A = "cmd.user_name", "self.client.rem_addr"
    reg.contract(
        C, "PreAuthenticated.do_login",
        params={"self": "ref:PreAuthenticated", "cmd": "ref:IMAPClientCommand"},
        requires={"loaded-is-file": "implies(not reload_due(), forall(lambda u: (u in USERS) == pwfile_has(u), 'str') and "
                                    "forall(lambda u: implies(u in USERS, get(USERS, u).pw_hash == pwfile_hash(u)), 'str'))"},
        ensures={
            # the only way to reach AUTHENTICATED: not throttled, and the account's current hash accepts the password
            "authenticated-only-with-password": f"self.state == ClientState.AUTHENTICATED and pwfile_has({U}) and pw_ok(cmd.password, pwfile_hash({U}))",
            "not-throttled": f"not thr_locked(old(BAD_USER_AUTHS), {U}, MAX_USER_ATTEMPTS, clock(), PURGE_TIME) and "
                             f"not thr_locked(old(BAD_IP_AUTHS), {A}, MAX_ADDR_ATTEMPTS, clock(), PURGE_TIME)",
            "no-failure-recorded": f"same_except(BAD_USER_AUTHS, old(BAD_USER_AUTHS), {U}) and implies({U} in BAD_USER_AUTHS, {U} in old(BAD_USER_AUTHS) and get(BAD_USER_AUTHS, {U}) == get(old(BAD_USER_AUTHS), {U}))",
        },
        raises={"Bad": None, "No": None},
        exc_ensures={
            # any refusal leaves the session unauthenticated-as-before
            "state-unchanged": "self.state == old(self.state)",
            # a wrong password (for a non-throttled attempt on a not-yet-authenticated session) is always recorded
            "wrong-password-recorded": f"implies(raised('No') and not (pwfile_has({U}) and pw_ok(cmd.password, pwfile_hash({U}))), "
                                       f"{U} in BAD_USER_AUTHS and get(BAD_USER_AUTHS, {U})[1] == clock() and {A} in BAD_IP_AUTHS and get(BAD_IP_AUTHS, {A})[1] == clock())",
        },
        modifies=["self.user", "self.state", "global.BAD_USER_AUTHS", "global.BAD_IP_AUTHS", "global.USERS", "global.PW_FILE_LAST_TIMESTAMP", "ClientProxy.g_out"],
        ghost={"globals": {**G_AUTH, **G_THR}},
        is_async=True,
        props=["C18"],
    )


def declare_pop3_auth(reg):
    """POP3 PASS (C18, POP3 path): same order as IMAP LOGIN -- throttle first, then the password; failures are recorded; TRANSACTION only with the password."""
    S = "asimap/pop3_server.py"
    T = dict(trusted=True)
    reg.classdef("POP3Client", {"rem_addr": "str", "g_out": "list[str]"})
    reg.classdef("POP3SubprocessInterface", {"pop3_client": "ref:POP3Client", "state": "str", "username": "opt[str]", "writer": "opt[opaque:StreamWriter]", "wait_task": "opt[opaque:Task]"}, path=S)
    reg.contract(S, "POP3Client.push", params={"self": "ref:POP3Client", "data": "list[str]"},
                 ensures={"appended": "appended(self.g_out, old(self.g_out), data)"}, modifies=["self.g_out"], yields=True, ghost={"varargs": "data"}, **T,
                 note="A-ASYNC: writes to the POP3 client's socket (ghost g_out)")
    reg.contract(S, "POP3SubprocessInterface.get_and_connect_subprocess", params={"self": "ref:POP3SubprocessInterface", "user": "ref:PWUser"},
                 raises={"Exception": None}, modifies=["self.writer", "self.wait_task"], yields=True, **T, note="starts / connects to the user's process; touches no authentication state")
    reg.contract("<asyncio>", "StreamWriter.close", params={"self": "opaque:StreamWriter"}, **T, note="A-ASYNC")
    reg.contract("<asyncio>", "StreamWriter.wait_closed", params={"self": "opaque:StreamWriter"}, yields=True, **T, note="A-ASYNC")
    U, A = "some(self.username)", "self.pop3_client.rem_addr"
    reg.contract(
        S, "POP3SubprocessInterface._do_pass", params={"self": "ref:POP3SubprocessInterface", "password": "str"}, ret="bool",
        requires={"user-given": "not is_none(self.username)",
                  "in-authorization-state": "self.state == 'authorization'",
                  "loaded-is-file": "implies(not reload_due(), forall(lambda u: (u in USERS) == pwfile_has(u), 'str') and "
                                    "forall(lambda u: implies(u in USERS, get(USERS, u).pw_hash == pwfile_hash(u)), 'str'))"},
        ensures={
            # the only way into TRANSACTION: not throttled, and the account's current hash accepts the password
            "transaction-only-with-password": f"implies(self.state != old(self.state), self.state == 'transaction' and pwfile_has({U}) and pw_ok(password, pwfile_hash({U})) and "
                                              f"not thr_locked(old(BAD_USER_AUTHS), {U}, MAX_USER_ATTEMPTS, clock(), PURGE_TIME) and not thr_locked(old(BAD_IP_AUTHS), {A}, MAX_ADDR_ATTEMPTS, clock(), PURGE_TIME))",
            # a wrong password on a non-throttled attempt is recorded against the user and the address
            # "-ERR invalid username or password" (the only reply that lets the client try again on this connection) is given only for a
            # password the account does not accept, and the failure is recorded against the user and the address before it is given
            "wrong-password-recorded": f"implies(result and self.state == old(self.state), not (pwfile_has({U}) and pw_ok(password, pwfile_hash({U}))) and "
                                       f"{U} in BAD_USER_AUTHS and get(BAD_USER_AUTHS, {U})[1] == clock() and {A} in BAD_IP_AUTHS and get(BAD_IP_AUTHS, {A})[1] == clock())",
            "throttled-is-refused": f"implies(thr_locked(old(BAD_USER_AUTHS), {U}, MAX_USER_ATTEMPTS, clock(), PURGE_TIME) or thr_locked(old(BAD_IP_AUTHS), {A}, MAX_ADDR_ATTEMPTS, clock(), PURGE_TIME), "
                                    "self.state == old(self.state) and result == False)",
        },
        # (a reply that can not be written ends the attempt with the connection's error; nothing is gained by it)
        raises={"OSError": None, "ConnectionResetError": None},
        exc_ensures={"no-transaction-on-error": "self.state == old(self.state) or (pwfile_has(some(self.username)) and pw_ok(password, pwfile_hash(some(self.username))))"},
        modifies=["self.state", "self.writer", "self.wait_task", "global.BAD_USER_AUTHS", "global.BAD_IP_AUTHS", "global.USERS", "global.PW_FILE_LAST_TIMESTAMP", "POP3Client.g_out"],
        ghost={"globals": {**G_AUTH, **G_THR}},
        is_async=True,
        props=["C18"],
    )


def declare_pop3_relay(reg):
    """POP3 side of the response relay (C20: what RETR announces is what arrives): same loop as IMAPSubprocessInterface.msgs_to_client."""
    S = "asimap/pop3_server.py"
    import pyvc.sorts as _s

    reg.classes["POP3SubprocessInterface"].fields["reader"] = _s.parse_ty("opt[ref:StreamReader]")
    reg.contract(S, "POP3SubprocessInterface.close", params={"self": "ref:POP3SubprocessInterface"}, trusted=True, yields=True, note="closes the connection to the user process; writes nothing to the client")
    reg.contract(S, "POP3Client.close", params={"self": "ref:POP3Client"}, trusted=True, yields=True, note="closes the client connection; writes nothing")
    reg.contracts["POP3Client.push"].raises.update({"OSError": None, "ConnectionResetError": None})
    reg.contracts["POP3Client.push"].exc_ensures["nothing-written"] = "same(self.g_out, old(self.g_out))"
    reg.contracts["POP3Client.push"].ensures["len"] = "len(self.g_out) == len(old(self.g_out)) + len(data)"
    OUT = "self.pop3_client.g_out"
    N0 = f"len(old({OUT}))"
    RD = "some(self.reader)"
    P0 = f"old({RD}.g_pos)"
    reg.contract(
        S, "POP3SubprocessInterface.msgs_to_client", params={"self": "ref:POP3SubprocessInterface"},
        requires={"connected": "not is_none(self.reader)", "pos-in-range": f"0 <= {RD}.g_pos and {RD}.g_pos <= len({RD}.g_chunks)"},
        ensures={
            "relayed-unmodified-in-order": f"forall(lambda i: implies({N0} <= i and i < len({OUT}), {OUT}[i] == {RD}.g_chunks[{P0} + (i - {N0})]))",
            "earlier-output-kept": f"len({OUT}) >= {N0} and forall(lambda i: implies(0 <= i and i < {N0}, {OUT}[i] == old({OUT})[i]))",
            "nothing-skipped": f"len({OUT}) - {N0} == {RD}.g_pos - {P0} or len({OUT}) - {N0} == {RD}.g_pos - {P0} - 1",
        },
        loops={0: {"invariant": {
            "relayed-so-far": f"len({OUT}) - {N0} == {RD}.g_pos - {P0} and {P0} <= {RD}.g_pos and {RD}.g_pos <= len({RD}.g_chunks) and "
                              f"forall(lambda i: implies({N0} <= i and i < len({OUT}), {OUT}[i] == {RD}.g_chunks[{P0} + (i - {N0})])) and "
                              f"len({OUT}) >= {N0} and forall(lambda i: implies(0 <= i and i < {N0}, {OUT}[i] == old({OUT})[i]))",
            "same-streams": "self.reader == old(self.reader) and self.pop3_client == old(self.pop3_client)",
        }}},
        modifies=["StreamReader.g_pos", "POP3Client.g_out"],
        is_async=True,
        props=["C20"],
        ghost={"harness": "harness.pop3:Pop3Relay"},
    )
    reg.properties.setdefault("C20", {}).setdefault("bounded", []).append(
        {"name": "pop3-response-relay-unmodified", "module": "harness.pop3", "func": "Pop3Relay"})


def declare_pop3_gate(reg):
    """POP3 front end (C18 a): before PASS succeeds nothing is forwarded to a user process; the state changes only through _do_pass."""
    S = "asimap/pop3_server.py"
    T = dict(trusted=True)
    import pyvc.sorts as _s

    reg.exc_parents.setdefault("BadPOP3Command", "Exception")
    reg.classdef("POP3Command", {"command": "str", "args": "str", "raw": "str"})
    reg.classes["POP3SubprocessInterface"].fields["g_sub_out"] = _s.parse_ty("list[str]")
    reg.contract("asimap/pop3_parse.py", "parse_pop3_command", params={"msg": "str"}, ret="ref:POP3Command", raises={"BadPOP3Command": None}, **T,
                 note="POP3 command line -> (COMMAND upper-cased, argument string); not under contract")
    reg.contract(S, "POP3SubprocessInterface.push_to_subprocess", params={"self": "ref:POP3SubprocessInterface", "data": "list[str]"},
                 ensures={"appended": "appended(self.g_sub_out, old(self.g_sub_out), data)", "len": "len(self.g_sub_out) == len(old(self.g_sub_out)) + len(data)"},
                 modifies=["self.g_sub_out"], yields=True, ghost={"varargs": "data"}, **T,
                 note="A-ASYNC: writes the data, in order, to the user process's socket if there is one (ghost g_sub_out)")
    PW = "pw_ok(local('pop3_cmd').args, pwfile_hash(some(self.username)))"
    reg.contract(
        S, "POP3SubprocessInterface.handle_authorization", params={"self": "ref:POP3SubprocessInterface", "msg": "str"}, ret="bool",
        requires={"in-authorization-state": "self.state == 'authorization'",
                  "loaded-is-file": "implies(not reload_due(), forall(lambda u: (u in USERS) == pwfile_has(u), 'str') and "
                                    "forall(lambda u: implies(u in USERS, get(USERS, u).pw_hash == pwfile_hash(u)), 'str'))"},
        ensures={
            # the session leaves AUTHORIZATION only through PASS with a password the account's current hash accepts
            "transaction-only-for-an-existing-account": "implies(self.state != 'authorization', self.state == 'transaction' and not is_none(self.username) and pwfile_has(some(self.username)))",
            # nothing is written to a user process in this state
            "nothing-forwarded": "same(self.g_sub_out, old(self.g_sub_out))",
        },
        raises={"OSError": None, "ConnectionResetError": None},
        exc_ensures={"nothing-forwarded": "same(self.g_sub_out, old(self.g_sub_out))"},
        modifies=["self.username", "self.state", "self.writer", "self.wait_task", "global.BAD_USER_AUTHS", "global.BAD_IP_AUTHS", "global.USERS", "global.PW_FILE_LAST_TIMESTAMP", "POP3Client.g_out"],
        ghost={"globals": {**G_AUTH, **G_THR},
               # ... and the password that _do_pass checks (its contract: TRANSACTION only if the account's hash accepts it) is the one the client sent
               "call_asserts": {"_do_pass": {"checks-the-password-that-was-sent": "arg_password == pop3_cmd.args and not is_none(self.username)"}}},
        is_async=True,
        props=["C18"],
    )
    G = "self.g_sub_out"
    reg.contract(
        S, "POP3SubprocessInterface.message", params={"self": "ref:POP3SubprocessInterface", "msg": "str"}, ret="bool",
        requires={"known-state": "self.state == 'authorization' or self.state == 'transaction'",
                  "loaded-is-file": "implies(not reload_due(), forall(lambda u: (u in USERS) == pwfile_has(u), 'str') and "
                                    "forall(lambda u: implies(u in USERS, get(USERS, u).pw_hash == pwfile_hash(u)), 'str'))"},
        ensures={
            # C18 (a): before authentication nothing reaches the per-user process
            "gate": f"implies(old(self.state) != 'transaction', same({G}, old({G})))",
            # one frame per command afterwards: '{<octets>}\\n' followed by exactly the command
            "frame": f"implies(old(self.state) == 'transaction', result == True and len({G}) == len(old({G})) + 2 and "
                     f"{G}[len({G}) - 2] == '{{' + str(len(msg)) + '}}\\n' and {G}[len({G}) - 1] == msg)",
        },
        raises={"OSError": None, "ConnectionResetError": None},
        exc_ensures={"gate": f"implies(old(self.state) != 'transaction', same({G}, old({G})))"},
        modifies=["self.g_sub_out", "self.username", "self.state", "self.writer", "self.wait_task", "global.BAD_USER_AUTHS", "global.BAD_IP_AUTHS", "global.USERS", "global.PW_FILE_LAST_TIMESTAMP", "POP3Client.g_out"],
        ghost={"globals": {**G_AUTH, **G_THR}},
        is_async=True,
        props=["C18"],
    )
