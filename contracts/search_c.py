"""asimap/search.py"""


def declare(reg):
    P = "asimap/search.py"
    reg.contract(
        P, "SearchContext.uid",
        params={"self": "ref:SearchContext"}, ret="opt[int]",
        requires={"cache-coherent": "is_none(self._uid) or self._uid == uid_of_key(self.mailbox, self.msg_key)"},
        ensures={"is-uid": "result == uid_of_key(self.mailbox, self.msg_key)",
                 "cache-coherent": "is_none(self._uid) or self._uid == uid_of_key(self.mailbox, self.msg_key)"},
        modifies=["self._uid", "self._uid_vv"],
        props=["C14", "C15"],
    )
    for fn, num, mx in (("_match_message_set", "self.ctx.msg_number", "self.ctx.seq_max"),):
        reg.contract(
            P, "IMAPSearch." + fn,
            params={"self": "ref:IMAPSearch"}, ret="bool",
            requires={"wf": "wf_msgset(self.args['msg_set'])", "mx": f"{mx} >= 0"},
            ensures={"denote": f"result == denotes(self.args['msg_set'], {mx}, {num})"},
            loops={0: {"invariant": {"none-so-far": f"not denote_upto(self.args['msg_set'], {mx}, {num}, _i)"}}},
            props=["C15", "C14"],
            ghost={"harness": "harness.seqset:MatchMessageSet"},
        )
    reg.contract(
        P, "IMAPSearch._match_uid",
        params={"self": "ref:IMAPSearch"}, ret="bool",
        requires={
            "wf": "wf_msgset(self.args['msg_set'])", "mx": "self.ctx.uid_max >= 0",
            "cache-coherent": "is_none(self.ctx._uid) or self.ctx._uid == uid_of_key(self.ctx.mailbox, self.ctx.msg_key)",
            "has-uid": "not is_none(uid_of_key(self.ctx.mailbox, self.ctx.msg_key))",
        },
        ensures={"denote": "result == denotes(self.args['msg_set'], self.ctx.uid_max, some(uid_of_key(self.ctx.mailbox, self.ctx.msg_key)))"},
        loops={0: {"invariant": {
            "none-so-far": "not denote_upto(self.args['msg_set'], self.ctx.uid_max, some(uid_of_key(self.ctx.mailbox, self.ctx.msg_key)), _i)",
            "uid": "uid == uid_of_key(self.ctx.mailbox, self.ctx.msg_key)",
        }}},
        modifies=["SearchContext._uid", "SearchContext._uid_vv"],
        props=["C15", "C14"],
        ghost={"harness": "harness.seqset:MatchUid"},
    )

    b = reg.properties.setdefault("C15", {}).setdefault("bounded", [])
    b.append({"name": "_match_message_set-vs-denote", "module": "harness.seqset", "func": "MatchMessageSet"})
    b.append({"name": "_match_uid-vs-denote", "module": "harness.seqset", "func": "MatchUid"})

    # ---- C14: evaluator kernel ---------------------------------------------------------------
    # does message (mailbox m, MH key k, sequence number n) satisfy search program s?  (uninterpreted: defined by the RFC;
    # each _match_* contract below pins down one equation of it)
    reg.specfn("sat", "s: ref:IMAPSearch, m: ref:Mailbox, k: int, n: int, seq_max: int, uid_max: int", "bool")
    CTX = "self.ctx.mailbox, self.ctx.msg_key, self.ctx.msg_number, self.ctx.seq_max, self.ctx.uid_max"
    reg.contract(P, "IMAPSearch.match", params={"self": "ref:IMAPSearch", "ctx": "ref:SearchContext"}, ret="bool",
                 ensures={"sat": "result == sat(self, ctx.mailbox, ctx.msg_key, ctx.msg_number, ctx.seq_max, ctx.uid_max)", "ctx-set": "self.ctx == ctx",
                          "uid-cache-coherent": "is_none(ctx._uid) or ctx._uid == uid_of_key(ctx.mailbox, ctx.msg_key)"},
                 modifies=["self.ctx", "SearchContext._uid", "SearchContext._uid_vv", "SearchContext._msg_size", "SearchContext._sequences"],
                 trusted=True, yields=True,
                 note="dynamic dispatch getattr(self, f'_match_{op}') is outside the subset: assumed to evaluate the program `sat`; the _match_* equations are proved separately")
    reg.contract(
        P, "IMAPSearch._match_not", params={"self": "ref:IMAPSearch"}, ret="bool",
        ensures={"complement": f"result == (not sat(self.args['search_key'], {CTX}))"},
        modifies=["IMAPSearch.ctx", "SearchContext._uid", "SearchContext._uid_vv", "SearchContext._msg_size", "SearchContext._sequences"],
        props=["C14"],
    )
    reg.contract(P, "IMAPSearch._match_all", params={"self": "ref:IMAPSearch"}, ret="bool", ensures={"all": "result == True"}, props=["C14"])
    reg.specfn("size_of", "m: ref:Mailbox, k: int", "int", "len(rendered(msg_of(m, k), True))", doc="RFC822.SIZE: octets of the rendering of the message stored under key k")
    reg.contract(P, "SearchContext.msg_size", params={"self": "ref:SearchContext"}, ret="int",
                 requires={"cache-coherent": "is_none(self._msg_size) or self._msg_size == size_of(self.mailbox, self.msg_key)"},
                 ensures={"size": "result == size_of(self.mailbox, self.msg_key)",
                          "cache-coherent": "is_none(self._msg_size) or self._msg_size == size_of(self.mailbox, self.msg_key)"},
                 modifies=["self._msg_size", "self._msg"], props=["C14", "C16"])
    reg.contract(P, "SearchContext.msg", params={"self": "ref:SearchContext"}, ret="opaque:EmailMessage",
                 ensures={"is": "result == msg_of(self.mailbox, self.msg_key)"}, modifies=["self._msg"], trusted=True, note="cached Mailbox.get_msg")
    for fn, op in (("_match_larger", ">"), ("_match_smaller", "<")):
        reg.contract(
            P, "IMAPSearch." + fn, params={"self": "ref:IMAPSearch"}, ret="bool",
            requires={"cache-coherent": "is_none(self.ctx._msg_size) or self.ctx._msg_size == size_of(self.ctx.mailbox, self.ctx.msg_key)"},
            ensures={"size-key": f"result == (size_of(self.ctx.mailbox, self.ctx.msg_key) {op} self.args['n'])"},
            modifies=["SearchContext._msg_size", "SearchContext._msg"], props=["C14"],
        )
    reg.properties.setdefault("C14", {}).setdefault("bounded", []).append(
        {"name": "search-vs-reference", "module": "harness.e2e", "func": "SearchExact"})
