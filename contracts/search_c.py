"""asimap/search.py"""


def declare(reg):
    P = "asimap/search.py"
    reg.contract(
        P, "SearchContext.uid",
        params={"self": "ref:SearchContext"}, ret="opt[int]",
        requires={"cache-coherent": "is_none(self._uid) or self._uid == uid_of_key(self.mailbox, self.msg_key)"},
        ensures={"is-uid": "result == uid_of_key(self.mailbox, self.msg_key)",
                 "cache-coherent": "is_none(self._uid) or self._uid == uid_of_key(self.mailbox, self.msg_key)"},
        modifies=["self._uid", "self._uid_vv"],
        props=["C14", "C15"],
    )
    for fn, num, mx in (("_match_message_set", "self.ctx.msg_number", "self.ctx.seq_max"),):
        reg.contract(
            P, "IMAPSearch." + fn,
            params={"self": "ref:IMAPSearch"}, ret="bool",
            requires={"wf": "wf_msgset(self.args['msg_set'])", "mx": f"{mx} >= 0"},
            ensures={"denote": f"result == denotes(self.args['msg_set'], {mx}, {num})"},
            loops={0: {"invariant": {"none-so-far": f"not denote_upto(self.args['msg_set'], {mx}, {num}, _i)"}}},
            props=["C15", "C14"],
            ghost={"harness": "harness.seqset:MatchMessageSet"},
        )
    reg.contract(
        P, "IMAPSearch._match_uid",
        params={"self": "ref:IMAPSearch"}, ret="bool",
        requires={
            "wf": "wf_msgset(self.args['msg_set'])", "mx": "self.ctx.uid_max >= 0",
            "cache-coherent": "is_none(self.ctx._uid) or self.ctx._uid == uid_of_key(self.ctx.mailbox, self.ctx.msg_key)",
            "has-uid": "not is_none(uid_of_key(self.ctx.mailbox, self.ctx.msg_key))",
        },
        ensures={"denote": "result == denotes(self.args['msg_set'], self.ctx.uid_max, some(uid_of_key(self.ctx.mailbox, self.ctx.msg_key)))"},
        loops={0: {"invariant": {
            "none-so-far": "not denote_upto(self.args['msg_set'], self.ctx.uid_max, some(uid_of_key(self.ctx.mailbox, self.ctx.msg_key)), _i)",
            "uid": "uid == uid_of_key(self.ctx.mailbox, self.ctx.msg_key)",
        }}},
        modifies=["SearchContext._uid", "SearchContext._uid_vv"],
        props=["C15", "C14"],
        ghost={"harness": "harness.seqset:MatchUid"},
    )

    b = reg.properties.setdefault("C15", {}).setdefault("bounded", [])
    b.append({"name": "_match_message_set-vs-denote", "module": "harness.seqset", "func": "MatchMessageSet"})
    b.append({"name": "_match_uid-vs-denote", "module": "harness.seqset", "func": "MatchUid"})
