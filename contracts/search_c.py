"""asimap/search.py"""


def declare(reg):
    P = "asimap/search.py"
    reg.contract(
        P, "SearchContext.uid",
        params={"self": "ref:SearchContext"}, ret="opt[int]",
        requires={"cache-coherent": "is_none(self._uid) or self._uid == uid_of_key(self.mailbox, self.msg_key)"},
        ensures={"is-uid": "result == uid_of_key(self.mailbox, self.msg_key)",
                 "cache-coherent": "is_none(self._uid) or self._uid == uid_of_key(self.mailbox, self.msg_key)"},
        modifies=["self._uid", "self._uid_vv"],
        props=["C14", "C15"],
    )
    for fn, num, mx in (("_match_message_set", "self.ctx.msg_number", "self.ctx.seq_max"),):
        reg.contract(
            P, "IMAPSearch." + fn,
            params={"self": "ref:IMAPSearch"}, ret="bool",
            requires={"wf": "wf_msgset(self.args['msg_set'])", "mx": f"{mx} >= 0"},
            ensures={"denote": f"result == denotes(self.args['msg_set'], {mx}, {num})"},
            loops={0: {"invariant": {"none-so-far": f"not denote_upto(self.args['msg_set'], {mx}, {num}, _i)"}}},
            props=["C15", "C14"],
            ghost={"harness": "harness.seqset:MatchMessageSet"},
        )
    reg.contract(
        P, "IMAPSearch._match_uid",
        params={"self": "ref:IMAPSearch"}, ret="bool",
        requires={
            "wf": "wf_msgset(self.args['msg_set'])", "mx": "self.ctx.uid_max >= 0",
            "cache-coherent": "is_none(self.ctx._uid) or self.ctx._uid == uid_of_key(self.ctx.mailbox, self.ctx.msg_key)",
            "has-uid": "not is_none(uid_of_key(self.ctx.mailbox, self.ctx.msg_key))",
        },
        ensures={"denote": "result == denotes(self.args['msg_set'], self.ctx.uid_max, some(uid_of_key(self.ctx.mailbox, self.ctx.msg_key)))"},
        loops={0: {"invariant": {
            "none-so-far": "not denote_upto(self.args['msg_set'], self.ctx.uid_max, some(uid_of_key(self.ctx.mailbox, self.ctx.msg_key)), _i)",
            "uid": "uid == uid_of_key(self.ctx.mailbox, self.ctx.msg_key)",
        }}},
        modifies=["SearchContext._uid", "SearchContext._uid_vv"],
        props=["C15", "C14"],
        ghost={"harness": "harness.seqset:MatchUid"},
    )

    b = reg.properties.setdefault("C15", {}).setdefault("bounded", [])
    b.append({"name": "_match_message_set-vs-denote", "module": "harness.seqset", "func": "MatchMessageSet"})
    b.append({"name": "_match_uid-vs-denote", "module": "harness.seqset", "func": "MatchUid"})

    # ---- C14: evaluator kernel ---------------------------------------------------------------
    # does message (mailbox m, MH key k, sequence number n) satisfy search program s?  (uninterpreted: defined by the RFC;
    # each _match_* contract below pins down one equation of it)
    reg.specfn("sat", "s: ref:IMAPSearch, m: ref:Mailbox, k: int, n: int, seq_max: int, uid_max: int", "bool")
    CTX = "self.ctx.mailbox, self.ctx.msg_key, self.ctx.msg_number, self.ctx.seq_max, self.ctx.uid_max"
    reg.contract(P, "IMAPSearch.match", params={"self": "ref:IMAPSearch", "ctx": "ref:SearchContext"}, ret="bool",
                 ensures={"sat": "result == sat(self, ctx.mailbox, ctx.msg_key, ctx.msg_number, ctx.seq_max, ctx.uid_max)", "ctx-set": "self.ctx == ctx",
                          "uid-cache-coherent": "is_none(ctx._uid) or ctx._uid == uid_of_key(ctx.mailbox, ctx.msg_key)"},
                 modifies=["self.ctx", "SearchContext._uid", "SearchContext._uid_vv", "SearchContext._msg_size", "SearchContext._sequences"],
                 trusted=True, yields=True,
                 note="dynamic dispatch getattr(self, f'_match_{op}') is outside the subset: assumed to evaluate the program `sat`; the _match_* equations are proved separately")
    reg.contract(
        P, "IMAPSearch._match_not", params={"self": "ref:IMAPSearch"}, ret="bool",
        ensures={"complement": f"result == (not sat(self.args['search_key'], {CTX}))"},
        modifies=["IMAPSearch.ctx", "SearchContext._uid", "SearchContext._uid_vv", "SearchContext._msg_size", "SearchContext._sequences"],
        props=["C14"],
    )
    reg.contract(P, "IMAPSearch._match_all", params={"self": "ref:IMAPSearch"}, ret="bool", ensures={"all": "result == True"}, props=["C14"])
    reg.specfn("size_of", "m: ref:Mailbox, k: int", "int", "len(rendered(msg_of(m, k), True))", doc="RFC822.SIZE: octets of the rendering of the message stored under key k")
    reg.contract(P, "SearchContext.msg_size", params={"self": "ref:SearchContext"}, ret="int",
                 requires={"cache-coherent": "is_none(self._msg_size) or self._msg_size == size_of(self.mailbox, self.msg_key)"},
                 ensures={"size": "result == size_of(self.mailbox, self.msg_key)",
                          "cache-coherent": "is_none(self._msg_size) or self._msg_size == size_of(self.mailbox, self.msg_key)"},
                 modifies=["self._msg_size", "self._msg"], props=["C14", "C16"])
    reg.contract(P, "SearchContext.msg", params={"self": "ref:SearchContext"}, ret="opaque:EmailMessage",
                 ensures={"is": "result == msg_of(self.mailbox, self.msg_key)"}, modifies=["self._msg"], trusted=True, note="cached Mailbox.get_msg")
    for fn, op in (("_match_larger", ">"), ("_match_smaller", "<")):
        reg.contract(
            P, "IMAPSearch." + fn, params={"self": "ref:IMAPSearch"}, ret="bool",
            requires={"cache-coherent": "is_none(self.ctx._msg_size) or self.ctx._msg_size == size_of(self.ctx.mailbox, self.ctx.msg_key)"},
            ensures={"size-key": f"result == (size_of(self.ctx.mailbox, self.ctx.msg_key) {op} self.args['n'])"},
            modifies=["SearchContext._msg_size", "SearchContext._msg"], props=["C14"],
        )
    reg.properties.setdefault("C14", {}).setdefault("bounded", []).append(
        {"name": "search-vs-reference", "module": "harness.e2e", "func": "SearchExact"})

    # ---- sent-date keys (C14 g): the Date header's calendar date *as written*, disregarding time and zone ----------
    T = dict(trusted=True)
    reg.specfn("hdr", "m: opaque:EmailMessage, name: str", "str", doc="A-EMAIL: value of a header field")
    reg.specfn("has_hdr", "m: opaque:EmailMessage, name: str", "bool", doc="A-EMAIL")
    reg.specfn("parsed", "s: str", "opaque:adatetime", doc="utils.parsedate: RFC 2822 date-time text -> aware datetime")
    reg.specfn("written_day", "d: opaque:adatetime", "int", doc="datetime.date(): the calendar day of the date-time in its own zone (as an ordinal)")
    reg.contract("<email>", "EmailMessage.__contains__", params={"self": "opaque:EmailMessage", "name": "str"}, ret="bool", ensures={"is": "result == has_hdr(self, name)"}, **T, note="A-EMAIL")
    reg.contract("<email>", "EmailMessage.__getitem__", params={"self": "opaque:EmailMessage", "name": "str"}, ret="str", ensures={"is": "result == hdr(self, name)"}, **T, note="A-EMAIL")
    reg.contract("asimap/utils.py", "parsedate", params={"date_time_str": "str"}, ret="opaque:adatetime", ensures={"is": "result == parsed(date_time_str)"}, **T, note="A-EMAIL: email.utils.parsedate_to_datetime")
    reg.contract("<datetime>", "adatetime.date", params={"self": "opaque:adatetime"}, ret="int", ensures={"is": "result == written_day(self)"}, **T,
                 note="stdlib; dates are compared as day ordinals (the parser hands SearchArgs.date as a date)")
    reg.contract("<datetime>", "adatetime.astimezone", params={"self": "opaque:adatetime", "tz": "opaque:tzinfo"}, ret="opaque:adatetime", **T,
                 note="stdlib: the same instant in another zone (its calendar day may differ: no equation with written_day)")
    reg.opaque_names["UTC"] = "opaque:tzinfo"
    MSG = "msg_of(self.ctx.mailbox, self.ctx.msg_key)"
    for fn, op in (("_match_sentbefore", "<"), ("_match_senton", "=="), ("_match_sentsince", ">=")):
        reg.contract(
            P, "IMAPSearch." + fn, params={"self": "ref:IMAPSearch"}, ret="bool",
            ensures={"date-key": f"result == (has_hdr({MSG}, 'date') and written_day(parsed(hdr({MSG}, 'date'))) {op} self.args['date'])"},
            modifies=["SearchContext._msg"], props=["C14"],
        )
    reg.specfn("idate", "m: ref:Mailbox, k: int", "opaque:adatetime", doc="internal date: the message file's mtime as an aware UTC datetime (SearchContext.internal_date)")
    reg.contract(P, "SearchContext.internal_date", params={"self": "ref:SearchContext"}, ret="opaque:adatetime",
                 ensures={"is": "result == idate(self.mailbox, self.msg_key)"}, modifies=["self._internal_date"], **T, note="A-OS: file mtime, cached")
    for fn, op in (("_match_before", "<"), ("_match_on", "=="), ("_match_since", ">=")):
        reg.contract(
            P, "IMAPSearch." + fn, params={"self": "ref:IMAPSearch"}, ret="bool",
            ensures={"internal-date-key": f"result == (written_day(idate(self.ctx.mailbox, self.ctx.msg_key)) {op} self.args['date'])"},
            modifies=["SearchContext._internal_date"], props=["C14"],
        )
    # ---- flag keys (C14 b): the same sequence table that FETCH FLAGS reports -----------------------------------------
    COH = "is_none(self._sequences) or len(some(self._sequences)) == 0 or forall(lambda s: (s in some(self._sequences)) == mem(self.mailbox.sequences, s, self.msg_key), 'str')"
    reg.contract(
        P, "SearchContext.sequences", params={"self": "ref:SearchContext"}, ret="list[str]",
        requires={"cache-coherent": COH},
        ensures={"is": "forall(lambda s: (s in result) == mem(self.mailbox.sequences, s, self.msg_key), 'str')",
                 "flags-untouched": "forall(lambda s, k: mem(self.mailbox.sequences, s, k) == mem(old(self.mailbox.sequences), s, k), 'str', 'int')"},
        modifies=["self._sequences", "Mailbox.sequences"],
        props=["C14"],
    )
    reg.contract(
        P, "IMAPSearch._match_keyword", params={"self": "ref:IMAPSearch"}, ret="bool",
        requires={"cache-coherent": COH.replace("self.", "self.ctx.")},
        ensures={"flag-key": "result == mem(old(self.ctx.mailbox.sequences), seq_of_flag(self.args['keyword']), self.ctx.msg_key)"},
        modifies=["SearchContext._sequences", "Mailbox.sequences"],
        props=["C14", "C04"],
    )


def declare_text_keys(reg):
    """HEADER / TEXT / BODY search keys (C14 g): case-insensitive substring tests on the header value / the rendered message."""
    P = "asimap/search.py"
    T = dict(trusted=True)
    MSG = "msg_of(self.ctx.mailbox, self.ctx.msg_key)"
    reg.specfn("rendered_str", "msg: opaque:EmailMessage, hdrs: bool", "str", doc="A-EMAIL: generator.msg_as_string (uninterpreted, deterministic)")
    reg.contract("asimap/generator.py", "msg_as_string", params={"msg": "opaque:EmailMessage", "headers": "bool"}, ret="str",
                 ensures={"is": "result == rendered_str(msg, headers)"}, **T, note="A-EMAIL: the string rendering of a message, with or without its top-level headers")
    reg.contract(
        P, "IMAPSearch._match_header", params={"self": "ref:IMAPSearch"}, ret="bool",
        # the parser hands over the search string already lower-cased (parse.py: `.lower()` on every string argument)
        ensures={"header-contains": f"result == (has_hdr({MSG}, self.args['header']) and (self.args['string'] in hdr({MSG}, self.args['header']).lower()))"},
        modifies=["SearchContext._msg"], is_async=True, props=["C14"],
    )
    reg.contract(
        P, "IMAPSearch._match_text", params={"self": "ref:IMAPSearch"}, ret="bool",
        ensures={"anywhere-in-the-message": f"result == (self.args['string'] in rendered_str({MSG}, True).lower())"},
        modifies=["SearchContext._msg"], is_async=True, props=["C14"],
    )
