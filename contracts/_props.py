"""Per-property metadata used for MANIFEST.json and evidence (level text, assumptions)."""

PROPS = {
    "C15": dict(
        design_ref="DESIGN.md 7 C15",
        technique="contract-based deductive verification: VCs generated from the real AST (PyVC), discharged by z3; bounded concrete oracle as cross-check",
        text="Each interpreter of a parsed sequence set (sequence_set_to_list, Mailbox.msg_set_to_msg_seq_set, IMAPSearch._match_message_set/_match_uid) "
             "is proved, for all sets, mailbox sizes and message numbers, to compute membership in the single spec function `denotes` (a:b == b:a, * = max) and to raise Bad exactly "
             "for non-UID numbers outside 1..N. Loops carry inductive invariants, so set length is unbounded. Proved since: the parser's _p_msg_set returns, for every input, a list with one element per comma-separated piece of the matched text, each element being exactly what its piece says (the numeral's value, '*', or the pair of the two sides of a:b), and the list is well-formed in the sense every evaluator of message sets requires - the precondition of sequence_set_to_list, msg_set_to_msg_seq_set, _match_message_set/_uid and copy is thus established where the set enters the server.",
        note="Trusted: z3; the PyVC encoding of Python semantics (DESIGN 2.2: mathematical ints, lists as (len, array), sets as characteristic arrays); parser output shape "
             "(elements are int, '*', or pairs of those -- precondition wf_msgset). The text form of sets (_p_msg_set) and copy()/do_expunge's private expansion are covered by the bounded tier only.",
        assumptions=["z3 4.x/5.x sound", "PyVC encoding (DESIGN 2.2)", "parser yields int | '*' | (a, b) elements (wf_msgset precondition)"],
        not_decided='which prefix of the input _msg_set_re consumes (assumed regular-expression primitive)',
    ),
    "C18": dict(
        design_ref="DESIGN.md 7 C18",
        technique="contract-based deductive verification (PyVC + z3) of throttle.check_allow/login_failed (history statement reduced to per-call lemmas L1-L4), auth.authenticate, the merge part of read_users_from_file and PreAuthenticated.do_login (call order, state gate); bounded timed-history and password-file oracles",
        text="check_allow and login_failed are proved against exact functional contracts over the symbolic throttle tables and a real-valued clock: entries are never purged within PURGE_TIME of the "
             "last recorded failure (L1), each recorded failure increments the count (L2), a locked user or address is refused (L3), and an attempt with both counts at or below threshold is never refused (L4). "
             "The statement over all timed histories follows by induction over calls (DESIGN 2.7). authenticate is proved to return only for an existing account whose *current* password-file hash accepts the password "
             "(read_users_from_file's merge into USERS is proved to replace every record), and PreAuthenticated.do_login to reach AUTHENTICATED only after check_allow allowed and authenticate returned, to leave the state unchanged on every refusal and to record every wrong-password attempt. Proved since (POP3 path): POP3 PASS checks the throttle before the password, enters TRANSACTION only when the account's current hash accepts the password and the attempt is not throttled, and answers '-ERR invalid username or password' only after recording the failure against user and address. The POP3 front end is gated the same way as the IMAP one: in AUTHORIZATION state POP3SubprocessInterface.message forwards nothing to a user process, the state changes only inside _do_pass, which is handed exactly the password the client sent, and in TRANSACTION state each command is forwarded as one '{<octets>}\\n' frame.",
        note="Not yet under contract: POP3 _do_pass, the IMAPSubprocessInterface.message state gate, hashers.verify_password (A-HASH assumed as the uninterpreted predicate pw_ok), the password-file line parser (assumed to yield the file's records). Trusted: z3, PyVC encoding, time.time() non-decreasing.",
        assumptions=["z3 sound", "PyVC encoding (DESIGN 2.2)", "A-IO: time.time() is non-decreasing", "A-HASH not needed for (c),(d)"],
        not_decided='the hash function itself; the POP3 command tokenizer',
    ),
    "C04": dict(
        design_ref="DESIGN.md 7 C04",
        technique="contract-based deductive verification (PyVC + z3) of Mailbox.store (nested loop invariants, whole-view postconditions for +FLAGS / -FLAGS / FLAGS), the flag helpers it is built from, the flag/sequence name mapping, append's initial flags and the persistence of flags in commit_to_db; bounded exhaustive oracle as cross-check",
        category="other",
        text="Mailbox._help_add_flag/_help_remove_flag/_help_replace_flags/msg_sequences are proved against exact whole-table postconditions over the symbolic sequences dict "
             "(every other message and every other sequence unchanged; Seen/unseen kept complementary for the touched message; \\Recent preserved by FLAGS replacement), and "
             "constants.flag_to_seq/seq_to_flag against the system-flag table. Two genuine defects (F05 keyword atoms aliasing system sequences, F06 case-sensitive system flags) are "
             "recorded as known findings; the obligations are proved for every input outside those two characterised classes. Proved since: Mailbox.store itself - for every message set of existing positions, every flag list (repetitions allowed) and each of +FLAGS / -FLAGS / FLAGS, the flags of exactly the addressed messages change to exactly what the command says (\\Seen and the MH `unseen` sequence kept complementary, \\Recent never touched, STORE of \\Recent refused with NO and nothing changed), .mh_sequences is rewritten to the same content, the change is committed (ghost rows) and one FETCH is produced per message; nested loop invariants over the real loops, composed from the three helper contracts.",
        note="Level is 'other' while known findings are open (F05, F06: excluded from store's and append's contracts by an explicit precondition on keyword atoms). The FETCH that sets \\Seen and the cross-session delivery of the resulting FETCH notifications are covered by _dispatch's per-session contract only. Trusted: z3, PyVC encoding, Mailbox._generate_fetch_msg_for (string builder).",
        assumptions=["z3 sound", "PyVC encoding (DESIGN 2.2): defaultdict(set) reads insert the default; set/dict iteration order arbitrary"],
        not_decided="fetch() setting \\Seen and the cross-session FETCH notification of flag changes beyond _dispatch's per-session contract; flag-name aliasing and case (known findings F05, F06)",
    ),
    "C10": dict(
        design_ref="DESIGN.md 7 C10",
        technique='contract-based deductive verification (PyVC + z3) of the admission relation Mailbox.would_conflict and intersect (loop invariants over the executing-task list), of the admission gate built on it (Mailbox.command_can_proceed: on return nothing on the executing list has to be serialised against the command; _cleanup_executing_tasks: only completed commands leave the list; management_task: an admitted command is on the list until it completes) and of the release-before-queue ordering in Mailbox.copy (second contract, cut at the queueing point); bounded exhaustive oracle',
        category="other",
        text="Mailbox.would_conflict is proved, for every command kind, peek bit, message sets and any list of executing commands, to admit a command only if it does not have to be serialised "
             "against an executing one (structure writers run alone; flag writers never overlap a SEARCH), to admit everything when nothing executes, and never to refuse status-only commands "
             "unless a structure writer executes. This is clause (a) of the property; interleaving-level clauses are not decided here. Proved since (second contract on Mailbox.copy, verified up to the point where it queues on the destination): when COPY/MOVE starts to wait for the destination mailbox, the command has already been marked completed on the source and waits with a fresh command object - two opposite-direction copies therefore never hold one mailbox while waiting for the other. Recorded fix F04: a UID command that waited behind another session's EXPUNGE was applied to the messages standing at the positions resolved before the EXPUNGE. Bounded since: UID STORE / UID COPY / UID FETCH of each remaining UID issued concurrently with another session's EXPUNGE of 1, 2, 1:2 or 3 on the real server; the effect is read back by UID.",
        note='Partial: clauses (b), (d), (e) (stale resolution, deadlock freedom in general, linearizability of whole responses) are not under contract; of (c) only the release-before-queue ordering of COPY/MOVE is. Trusted: z3, PyVC encoding, IMAPClientCommand.qstr, aiofiles / MH.get_bytes in the copy loop.',
        assumptions=["z3 sound", "PyVC encoding (DESIGN 2.2)", "STORE and the FETCH tail update flags in one atomic asyncio segment (no await inside the update loops)"],
        not_decided="(b) stale resolution, (c) COPY/MOVE steps, (d) deadlock freedom, (e) linearizability",
    ),
    "C05": dict(
        design_ref="DESIGN.md 7 C05",
        technique="contract-based deductive verification (PyVC + z3) of Mailbox.expunge with inductive loop invariants (all three cases), of do_expunge's UID restriction (call-site assertions), of copy's message-set expansion and of append; real-folder oracle and end-to-end UID EXPUNGE witness as bounded cross-check",
        category="other",
        text="Mailbox.expunge is proved, for all mailbox contents, Deleted sets and UID lists, to remove exactly the messages the property names (EXPUNGE: the \\Deleted ones; UID EXPUNGE: those also in the UID set, "
             "an empty set removing nothing; MOVE's forced expunge: exactly the listed UIDs), keeping order, every surviving key/UID pair, next_uid and uid_vv, rebuilding the index maps, "
             "removing the deleted keys from every sequence and deleting exactly those files (ghost disk set). The repaired defect (UID EXPUNGE used sequence numbers as UIDs) is listed as fixed. Proved since: do_close never expunges after EXAMINE (nothing is removed, in memory or in the folder) and otherwise calls a plain EXPUNGE without UID restriction; do_copy and do_move hand the parsed set, UID-ness and the command object to copy() on the selected mailbox; do_move then removes exactly the UIDs copy() reported as copied, regardless of \\Deleted, on the source mailbox, restores its pretend-idling flag on every exit and refuses a read-only selection.",
        note="Partial: the copy itself (after the message-set expansion), do_move, do_close and 'refused commands change nothing' are not under contract. Assumed contracts: MH.aremove (A-MH); exclusivity of the running EXPUNGE across its awaits (C10 admission) is assumed, not re-proved here.",
        assumptions=["z3 sound", "PyVC encoding (DESIGN 2.2)", "A-MH: MH.remove deletes exactly one message file", "writer exclusivity across awaits inside expunge (other tasks do not touch the mailbox while a CONFLICTING command runs)",
                     "Mailbox invariant Inv.1-5 at entry (DESIGN 6.2)"],
        not_decided="COPY/MOVE/APPEND additions, EXAMINE frame, refused-command frame",
    ),
    "C02": dict(
        design_ref="DESIGN.md 7 C02",
        technique='contract-based deductive verification (PyVC + z3) of the UID allocation core (check_new_msgs_and_flags), of expunge and of append (rely/guarantee at its awaits for the delivery agent of E1) as invariant-preserving operations, and of get_next_uid_vv; real-folder oracle as bounded cross-check',
        category="other",
        text="Mailbox.check_new_msgs_and_flags is proved, for all mailbox states satisfying the representation invariant and all external deliveries (assumption E1), to keep the existing UID list as a prefix, "
             "to give new messages the consecutive UIDs old next_uid, old next_uid+1, ..., to advance next_uid by exactly that count (never lowering it), to leave uid_vv alone and to re-establish the invariant "
             "(UIDs strictly ascending and all below next_uid). Mailbox.expunge is proved to keep every surviving key/UID pair, order, next_uid and uid_vv. History-freshness of UIDs follows by induction over operations (DESIGN 2.7). Proved since: do_append passes exactly the parsed message, flags and date to Mailbox.append and reports '[APPENDUID <uidvalidity> <uid>]' with the UID append returned; do_status reports, per requested attribute and in order, the mailbox's own counters (MESSAGES, RECENT, UIDNEXT, UIDVALIDITY, UNSEEN) in one STATUS line with the escaped quoted name.",
        note="Partial: copy (COPYUID), rename-inbox allocation, delete (UIDVALIDITY of a recreated mailbox) and selected()/STATUS reporting of UIDNEXT are not under contract (selected's EXISTS is, C01). Assumed contracts on callees are listed in the evidence (trusted_base).",
        assumptions=["z3 sound", "PyVC encoding (DESIGN 2.2)", "E1: external agents only add larger-numbered files (stated as set, list-prefix and cardinality facts)", "A-MH contracts for MH.keys/get_sequences/set_sequences/remove",
                     "writer exclusivity across awaits (management task runs the resync with no executing command)"],
        not_decided="UIDVALIDITY clauses, APPENDUID/COPYUID, restart/crash behaviour (C11/C12)",
    ),
    "C13": dict(
        design_ref="DESIGN.md 7 C13",
        technique="contract-based deductive verification (PyVC + z3) of check_new_msgs_and_flags (delivery post-condition), of expunge's and store's on-disk sequence post-conditions over a ghost model of the MH folder; real-folder oracle as bounded cross-check",
        category="other",
        text="For all mailbox states and all deliveries allowed by E1, check_new_msgs_and_flags is proved to append exactly the new files in ascending order, to give each \\Recent, \\Seen exactly when the agent did not list it in "
             "`unseen`, and otherwise exactly the agent's sequences, to leave every existing message's flags untouched and to write .mh_sequences equal to the in-memory flags. expunge is proved to delete exactly the removed files "
             "and (after the recorded fix) to leave no removed key in .mh_sequences, so a reused number inherits nothing.",
        note="Partial: copy's .mh_sequences write, the mtime shortcut and the management-task polling (announcement to every selected session) are not under contract; store and append are. The folder is a ghost model (set of keys + sequences) updated by assumed contracts of mailbox.MH (A-MH).",
        assumptions=["z3 sound", "PyVC encoding (DESIGN 2.2)", "E1 (see C02)", "A-MH: contracts of MH.keys/get_sequences/set_sequences/remove", "writer exclusivity across awaits"],
        not_decided="announcement to every selected session (C01), mtime granularity, inactive-mailbox checks in user_server",
    ),
    "C20": dict(
        design_ref="DESIGN.md 7 C20",
        technique="contract-based deductive verification (PyVC + z3) of POP3CommandHandler methods (frames, DELE/RSET/QUIT, RETR framing as a string equation) on top of the verified Mailbox.expunge contract; bounded oracles for dot_stuff and real sessions",
        category="other",
        text="For all handler states satisfying the session invariant: _valid_msg_num only yields numbers of the snapshot that are not marked; DELE only adds one such number to the marks and RSET empties them, "
             "neither touching the snapshot nor the mailbox (frame obligations); QUIT hands Mailbox.expunge exactly the snapshot UIDs of the marked numbers, so - by expunge's proved contract - exactly the marked messages "
             "that still exist are removed and nothing else; RETR's reply is proved equal to '+OK <octets of the rendering>' + the dot-stuffed rendering + the terminator line (the repaired defect F42 sent two extra octets). Proved since: the front end's POP3 relay writes to the client, piece by piece and in order, exactly what the user process sent (recorded fix F52: a line longer than 64 KiB closed the connection mid-reply). Bounded since: the real relay against a stand-in user process with lines from 1 kB to 1 MB.",
        note="Partial: STAT/LIST totals, TOP and UIDL multi-line bodies are checked for frame only; dot_stuff itself is bounded (exhaustive to length 8); 'RETR n returns the message UIDL n named' across IMAP expunge+pack "
             "(DESIGN F43) is not decided. Assumed contracts: msg_as_bytes/get_msg_size share one deterministic renderer ending in CRLF (A-EMAIL, C16), Mailbox.get_msg, ClientProxy.push.",
        assumptions=["z3 sound", "PyVC encoding (DESIGN 2.2; str(int) and str.join as named functions)", "A-EMAIL renderer contract", "Mailbox.expunge contract (proved under C05)", "Inv(Mailbox) at command boundaries"],
        not_decided="F43 (messages addressed by MH key rather than UID across pack), POP3 QUIT bypassing the admission queue (C10)",
    ),
    "C03": dict(
        design_ref="DESIGN.md 7 C03",
        technique="contract-based deductive verification (PyVC + z3): key/UID pairing as a representation invariant preserved by expunge, pack, resync and index rebuild, over a ghost model of the MH folder",
        category="other",
        text="The positional pairing msg_keys[i] <-> uids[i] and the two reverse index maps are a class invariant. It is proved preserved, for all mailbox states, by Mailbox.expunge (every surviving key keeps its UID; "
             "the stale-index deletion loop carries an inductive invariant), by _pack_if_necessary (after MH.pack position i still holds the same message content, uids untouched, flags follow the message), by "
             "check_new_msgs_and_flags (old list is a prefix) and _rebuild_index_dicts (exact inverse maps); msg_set_to_msg_seq_set and get_uid_from_msg are proved to translate through that pairing, "
             "so UID and sequence forms address the same messages.",
        note="Partial: clause (c) (the set a queued command is applied to is the set its arguments denote when it runs; DESIGN F04 stale resolution in management_task), rename and restart are not under contract. "
             "MH.pack is an assumed contract (A-MH) including two arithmetic facts SMT cannot derive (stated in the evidence).",
        assumptions=["z3 sound", "PyVC encoding (DESIGN 2.2)", "A-MH: MH.pack/iterkeys/remove contracts", "no delivery between the resync and the pack (both under the folder lock)", "writer exclusivity across awaits"],
        not_decided="stale message-set resolution across a queued EXPUNGE (F04), rename, restart",
    ),
    "C14": dict(
        design_ref="DESIGN.md 7 C14",
        technique="contract-based deductive verification (PyVC + z3) of the SEARCH evaluator kernel against an uninterpreted satisfaction relation, plus a reference-evaluator oracle on real mailboxes (bounded)",
        category="other",
        text="Mailbox.search is proved, for all mailboxes and every search program, to return exactly the positions (UID SEARCH: exactly the UIDs) of the messages the program's match() accepts, in ascending order "
             "(loop invariant over the message list). The sequence-set and UID-set keys are proved equal to the one `denotes` function shared with FETCH/STORE/COPY (after the recorded fix), NOT is proved to be the complement, "
             "LARGER/SMALLER are proved to compare the same rendering size that RFC822.SIZE reports (cache coherence of SearchContext.msg_size/uid included). Proved since: the HEADER key is true exactly when the field exists and its lower-cased value contains the search string; the TEXT key exactly when the lower-cased rendering of the whole message does (renderer uninterpreted).",
        note="Partial: AND/OR use asyncio.TaskGroup and `except*` (outside the subset) and the header/body/date keys depend on the email package (A-EMAIL): they are covered only by the bounded reference oracle "
             "(harness.e2e:SearchExact, ~200 programs). IMAPSearch.match's dynamic dispatch is an assumed contract.",
        assumptions=["z3 sound", "PyVC encoding (DESIGN 2.2)", "IMAPSearch.match dispatches to _match_<op> (getattr) and keeps SearchContext caches coherent", "A-EMAIL renderer determinism"],
        not_decided='(g) header/body/text keys; AND/OR composition beyond the bounded oracle; do_search formatting',
    ),
    "C09": dict(
        design_ref="DESIGN.md 7 C09",
        technique="contract-based deductive verification (PyVC + z3/cvc5 string theory): `safe_rel(name)` as precondition of the path-forming primitive, discharged through IMAPUserServer.get_mailbox/folder_exists back to the parser's _p_mailbox postcondition; exhaustive parser oracle and jail end-to-end oracle (bounded)",
        category="other",
        text="For every token the mailbox-name parser can receive, IMAPClientCommand._p_mailbox (after the recorded fix) is proved to return either '' or a name whose path part - after our one-slash hierarchy prefix - is not absolute and has no '..' component "
             "(string obligations over os.path.normpath's assumed contract). IMAPUserServer.get_mailbox and folder_exists are proved to hand MH.get_folder only such names, given that precondition. So no SELECT/EXAMINE/STATUS/APPEND/COPY/MOVE/... name can make "
             "os.path.join leave the mail directory.",
        note="Partial: Mailbox.create/delete/rename and their helpers (which form paths with `maildir / name`) and the LIST reference/pattern path are not yet under contract - they receive names only from _p_mailbox "
             "(checked syntactically: every assignment of mailbox_name/mailbox_src_name/mailbox_dst_name in parse.py is a _p_mailbox call), and the jail oracle exercises them, but that is bounded evidence. "
             "Symlinks already inside the mail directory and OS-level confinement are out of scope.",
        assumptions=["z3/cvc5 sound", "PyVC string encoding (DESIGN 2.2 level 1)", "A-OS: os.path.normpath leaves '..' only as a leading run of a relative path; os.path.join(a, b) stays under a when b is relative without '..'",
                     "parser primitives _p_astring/_p_simple_string may return any string"],
        not_decided="create/delete/rename/list call sites (bounded only)",
    ),
    "C01": dict(
        design_ref="DESIGN.md 7 C01",
        technique='contract-based deductive verification (PyVC + z3) of the notification kernel and the session side: per-session delivery contract of _dispatch_or_pend_notifications, call-site assertions on every EXPUNGE/EXISTS emission, pending_expunges / send_pending_notifications, Mailbox.selected / unselected, Authenticated.do_select and the gates of do_fetch / do_store / do_search (verified up to their queueing point); view-replay oracle on the real server (bounded)',
        category="other",
        text="Proved for all mailbox states and any number of sessions: _dispatch_or_pend_notifications gives every selected session except the excluded one exactly the notifications, in order, once - pushed if idling, otherwise appended behind what is already queued; "
             "every '* n EXPUNGE' expunge() emits carries n = position+1 of the message being removed in the list as it is at that moment (1 <= n <= size before removal), highest first, with the text equal to that number; "
             "after the recorded fix, check_new_msgs_and_flags announces a new EXISTS count directly only to sessions with an empty queue (or idling) and otherwise queues it behind the pending EXPUNGEs. Proved since: pending_expunges() is true exactly when ANY queued notification is an EXPUNGE; send_pending_notifications sends the whole queue in order and empties it; Mailbox.selected reports EXISTS == len(msg_keys) and registers the session in the same step (no await in between); Authenticated.do_select has an empty queue when that snapshot is taken (call-site assertion), reports exactly READ-ONLY/READ-WRITE, and leaves the session deselected when it fails. The gate in front of FETCH, STORE and SEARCH is proved on the real handlers (up to the point where they queue on the mailbox): a sequence-numbered command only starts when no EXPUNGE is queued for the session and has sent none on the way in; when it is refused with NO nothing is sent and nothing is dropped from the queue. The synchronisation points are proved on the real handlers: NOOP (when a mailbox is selected), IDLE and DONE write the whole queue to the session in order - after the '+ idling' continuation, respectively before the tagged OK - and leave it empty; UNSELECT and CLOSE drop the queue, unregister the session from the mailbox and return to the authenticated state; EXAMINE is SELECT with the read-only bit.",
        note="Partial: the linking invariant between each session's replayed view and the server list across whole histories (DESIGN J) is not a contract; the whole-history statement is covered only by the bounded view-replay oracle (259 scripted two-session histories incl. re-SELECT). Yields inside do_select are modelled without interference (a session that is registered in no mailbox receives no notifications). The bodies of FETCH/STORE/SEARCH behind the gate are abstracted.",
        assumptions=["z3 sound", "PyVC encoding (DESIGN 2.2)", "ClientProxy.push hands data to the socket in order (A-ASYNC)", "distinct sessions are distinct objects (class invariant clients-injective)"],
        not_decided='view/list linking invariant over whole histories (bounded replay only); IDLE/DONE',
    ),
    "C06": dict(
        design_ref="DESIGN.md 7 C06",
        technique="contract-based deductive verification (PyVC + z3 string theory) of BaseClientHandler.command with every do_<command> handler abstracted by one assumed contract, of the release obligations in management_task and Mailbox.shutdown and of do_expunge's idling flag; end-to-end 'answered promptly' and per-connection-loop oracles (bounded)",
        category="other",
        text="BaseClientHandler.command is proved, for every handler outcome (None, False, a string, or No/Bad/TimeoutError/ConnectionResetError/any other exception) to push at most one line carrying the command's tag, after all untagged data, "
             "starting with '<tag> OK|NO|BAD ', ending in CRLF (after the recorded fix), and exactly one such line unless the handler defers its reply (IDLE). "
             "Mailbox.management_task's loop body is proved to release (ready.set) the command it dequeued on every path that ends an iteration - normal admission and the BAD for an unresolvable message set - "
             "Mailbox.shutdown to release every command still queued, and Authenticated.do_expunge to restore its pretend-idling flag on every exit, exceptional ones included. "
             "Recorded fixes removed the ways a command's outcome was produced by the 120 s watchdog (message set beyond the mailbox; \\Noselect mailbox after restart) or by an unhandled exception.",
        note='Partial: handlers are abstracted (assumption: they push only untagged lines and return/raise as typed); in management_task the preconditions of the resync/pack callees are assumed at their call sites (environment E1) and callee exceptions other than Bad between dequeue and release are not modelled; ready_and_okay and DONE are not under contract. The per-connection loop (recorded fix F51: BAD then continue) is covered by a bounded oracle on the real loop, not by a contract. Promptness beyond these obligations is covered only by the bounded oracles.',
        assumptions=["z3/cvc5 sound", "PyVC encoding incl. level-1 strings (DESIGN 2.2)", "every do_<command> pushes only untagged lines (abstraction do_any)", "A-ASYNC"],
        not_decided='liveness (wake-ups) beyond the stated release obligations and the bounded oracles',
    ),
    "C07": dict(
        design_ref="DESIGN.md 7 C07",
        technique="contract-based deductive verification (PyVC + z3/cvc5 strings and regular expressions) of the tagged-reply builder (command), of the header-string builders encode_header / header_or_nil and of the literal framing in FetchAtt.body; "
                  "quote_string itself (four chained replace_all) by exhaustive bounded enumeration; other response builders not under contract",
        category="other",
        text="Proved: every tagged reply built by BaseClientHandler.command - OK, NO, BAD, the watchdog BAD and the unhandled-exception BAD - is one CRLF-terminated line beginning '<tag> OK|NO|BAD ' (recorded fix: two replies lacked CRLF). "
             "Proved: for every header value, encode_header returns a string matching the quoted-string grammar \"([^\"\\\\CRLF]|\\\\[\\\\\"])*\" on all four of its paths (latin-1, RFC 2047 encoded words, encoder failure, replace fallback), "
             "and that string is the quoted form of the value itself when it is latin-1, else of text that decodes to the value (or of the documented lossy '?' fallback); header_or_nil is NIL exactly for an absent field. "
             "Proved: the literal prefix of BODY[...] announces exactly the octet count of its data (FetchAtt.body, C16). The POP3 RETR reply equals status line + dot-stuffed rendering + terminator (C20). "
             "Recorded fix: header values were put between double quotes unescaped (DESIGN F17), so a Subject with a quote, a backslash or a decoded CR/LF broke the FETCH response. Bounded since: everything a session receives for FETCH (ENVELOPE BODYSTRUCTURE BODY FLAGS UID RFC822.SIZE INTERNALDATE BODY.PEEK[...]), SEARCH, STORE, LIST, LSUB, LIST-EXTENDED with STATUS, STATUS, SELECT and NO/BAD replies - on 20 messages whose headers and MIME parameters carry quotes, backslashes, parentheses, 8-bit letters, encoded words, folded lines, groups and comments, and on mailbox names with the same - is run through an independent RFC 3501 response tokenizer (CRLF-terminated responses, literal counts, quoted-string escapes, balanced parentheses). Recorded fix F18: BODYSTRUCTURE parameter values were not escaped.",
        note="quote_string (escape \\ and \", drop CR/LF) is a chain of four replace_all calls which neither z3 nor cvc5 decides against the grammar (cvc5 120 s timeout, z3 unknown): it is checked exhaustively over a 7-letter alphabet to length 5/7 - bounded, "
             "not proved - and enters the proofs as an assumed contract. encode_addrs, BODYSTRUCTURE, LIST/LSUB/STATUS formatting and parenthesis balance are not decided; DESIGN F18/F19 remain suspected.",
        assumptions=["z3/cvc5 sound", "PyVC level-1 string encoding; bytes modelled as the latin-1 text they decode to", "handlers push only untagged lines", "quote_string contract (bounded tier only)",
                     "A-EMAIL: Header(s).encode(...) yields encoded words that decode to s once folding CR/LF are removed"],
        not_decided='(c) for address lists, BODYSTRUCTURE and the STATUS attribute list; (d) parentheses; (e) beyond ENVELOPE header strings and LIST/LSUB/STATUS names',
    ),
    "C19": dict(
        design_ref="DESIGN.md 7 C19",
        technique='contract-based deductive verification (PyVC + z3 strings) of the frame written to the user process (IMAPSubprocessInterface.message) and of the response relay msgs_to_client (loop invariant over a ghost stream); the read loop IMAPClient.start, the real relay and the per-connection loop are covered by bounded oracles',
        category="other",
        text="Proved: for every message, an authenticated session's message is forwarded as exactly '{<octet count>}\\n' followed by the message itself, one frame per message, and a session that is not authenticated forwards nothing "
             "(state gate, shared with C18 a). Bounded (exhaustive over 9 stream units up to 2-3 per stream x 3 segmentations, real asyncio.StreamReader): the read loop delivers exactly the commands the byte stream denotes, sends '+' exactly for "
             "synchronising literals, answers over-limit input with BAD and (after the recorded fix) stays in sync - the next command is no longer swallowed. Proved since: IMAPSubprocessInterface.msgs_to_client (after the recorded fix F50) writes to the IMAP client, piece by piece and in order, exactly what arrived from the user process - nothing altered, nothing skipped except possibly the one last piece whose write failed - for every sequence of arrivals (loop invariant over a ghost stream). Bounded since: the real relay (IMAPClient + get_and_connect_subprocess + msgs_to_client) against a stand-in user process on a loopback socket, literals with CRLF-free runs from 10 octets to 1 MB, written in one piece or in 1460/50000-octet pieces.",
        note='The read loop itself (rstrip, $-anchored literal regex, int(), three size tests) is NOT under contract: the position-level refinement proof planned in DESIGN 7 C19 was not built; only bounded evidence covers clauses (a), (b). De-framing in IMAPClientProxy.run is exercised by the proxy-loop oracle only.',
        assumptions=["z3 sound", "PyVC level-1 strings", "A-ASYNC StreamReader/Writer", "IMAPSubprocessInterface.unauthenticated never writes to a user process"],
        not_decided='(a), (b) beyond the bounded oracle (the read loop itself is not under contract); de-framing in IMAPClientProxy.run',
    ),
    "C16": dict(
        design_ref="DESIGN.md 7 C16",
        technique="contract-based deductive verification (PyVC + z3 strings) of FetchAtt.body with the renderer uninterpreted; fixture-corpus oracle on the real server (bounded) for the renderer equations",
        category="other",
        text="FetchAtt.body is proved, for every rendered section text and every partial <o.n>, to return '{<n>}CRLF' + data with <n> equal to the octet count of data (clause d), data equal to the CRLF-terminated section text, or exactly its "
             "[o : o+n] slice (clause c). RFC822.SIZE and the size SEARCH keys are proved to read the same rendering length (SearchContext.msg_size, C14). The equations between the two library renderers "
             "(SIZE = len BODY[], HEADER+TEXT = BODY[], CRLF everywhere, RFC822* = BODY[*], repeated fetch, COPY identical) are checked on the repository's fixture corpus plus generated edge messages - bounded evidence only.",
        note="Two genuine defects on fixture messages are recorded as known findings (F44 bare LF in nested multipart renderings, F45 HEADER+TEXT != BODY[] for one/19); every other corpus message must satisfy all equations. "
             "APPEND round trip (clause h) is not decided.",
        assumptions=["z3 sound", "PyVC level-1 strings", "A-EMAIL: FetchAtt._body / msg_as_bytes deterministic"],
        not_decided="(f),(g),(h) for all messages; RFC822* desugaring in the parser",
    ),
    "C12": dict(
        design_ref="DESIGN.md 7 C12",
        technique='contract-based deductive verification (PyVC + z3) of the persist/restore pair over a ghost model of the committed sqlite rows: Mailbox.commit_to_db (real body, SQL statements as assumed contracts pinned to their text), Mailbox.shutdown, IMAPUserServer.shutdown and Mailbox._restore_from_db; exhaustive codec oracle and restart end-to-end oracle (bounded)',
        category="other",
        text="Proved: Mailbox.shutdown(commit_db=True) ends with the committed row equal to the in-memory (uid_vv, next_uid, uids, msg_keys, num_msgs, subscribed) and releases every queued command; "
             "Mailbox._restore_from_db, from any committed row written from an invariant state, restores exactly those values and rebuilds both index maps as exact inverses. Together: restore(persist(s)) == s on the UID state, for all states. Proved since: Mailbox.commit_to_db itself (the real body, over a ghost model of this mailbox's rows in both tables) leaves the committed rows equal to the UID state and to exactly the non-empty flag sequences; IMAPUserServer.shutdown shuts down every active mailbox and does so with commit_db left at its default True (call-site assertion), so an orderly shutdown commits every mailbox.",
        note='Assumed, not proved: the SQL statements (each an assumed contract pinned to its exact text: an edited statement leaves the verified subset and is then judged by the restart oracle only) and the column codec expand(compact(xs)) == xs, checked exhaustively for all subsets of 0..12 (bounded). Attributes and the mailbox list after restart are covered only by the bounded restart oracle (81 histories). The first-activation path (INSERT of a fresh row) is not under contract.',
        assumptions=["z3 sound", "PyVC encoding", "A-DB: sqlite commit is atomic and durable; SELECT returns the committed row", "codec round trip (bounded)", "the row was committed from a state satisfying Inv(Mailbox)"],
        not_decided='attributes, LIST/LSUB and SPECIAL-USE across restart beyond the bounded oracle',
    ),
    "C17": dict(
        design_ref="DESIGN.md 7 C17",
        technique='contract-based deductive verification (PyVC + z3 strings) of the INBOX guard and name handling at the head of Mailbox.delete, of the message-moving loop of RENAME INBOX (_helper_rename_inbox, with ghost code naming the source of each new message) and of the re-keying step of RENAME (_helper_rename_folder._do_rename_folder: nothing left under the old name in the table of active mailboxes); the rest is bounded: namespace-invariant oracle over seeded histories, subtree RENAME with content read back, LIST wildcards exhaustively against an RFC 3501 matcher',
        category="other",
        text="Proved for every name a client can send: Mailbox.delete never gets past its guard with a name that equals INBOX ignoring case, in any quoting (after the recorded fix; before it, DELETE \"INBOX\" emptied the inbox), "
             "and the name it then works with is confined (C09). RENAME INBOX x is proved to create one new message per inbox message with consecutive fresh UIDs, to carry exactly the flags of the source message to the new key (and no others), to leave none of the moved files in the inbox folder and to only read the inbox's own flag table; the re-keying step of an ordinary RENAME is proved to leave the mailbox object reachable under the new name only, every other active mailbox untouched. Everything else the property says about LIST/LSUB following the CREATE/DELETE/RENAME/SUBSCRIBE history is checked only by the bounded oracle: after every step of 40-200 seeded histories "
             "INBOX is listed, no name is listed twice, \\HasChildren holds exactly when an existing mailbox lies below, a deleted leaf is gone, RENAME moves the subtree with its UIDs and leaves nothing under the old name, and a refused command changes neither the listing nor the directory tree. Bounded since: RENAME of a root, a middle node and a leaf of a 3-level tree with every message of the subtree fetched by UID before and after (subject and flags) and an APPEND into every moved mailbox that must land in its own directory; the regular expression built for LIST/LSUB patterns compared with an independent RFC 3501 wildcard matcher for every pattern over {a,b,/,%,*} up to length 4 against every name over {a,b,/} up to length 4. Proved since (thin handlers): CREATE, DELETE, RENAME call the mailbox operation with exactly the parsed name(s) on this server; SUBSCRIBE / UNSUBSCRIBE set the bit of the named mailbox and then commit it.",
        note="Narrow deductive part: create/rename outcome shapes, do_list's attribute recomputation (DESIGN F37), the LIKE-based rename query (F38), the wildcard translation and LIST-EXTENDED are not under contract.",
        assumptions=["z3/cvc5 sound", "PyVC level-1 strings (str.lower() compared with a constant is decided as a case-insensitive match)"],
        not_decided="(b)-(g) beyond the bounded oracle",
    ),
    "C11": dict(
        design_ref="DESIGN.md 7 C11",
        technique="contract-based deductive verification (PyVC + z3) with crash obligations: a crash invariant over ghost (committed, pending) database state at every await of Database.apply_migrations; the restart resync verified WITHOUT environment assumption E1 (check_new_msgs_and_flags#recovery: any files may be missing or added); commit_to_db verified against a ghost model of the mailbox's rows with each SQL statement an assumed contract pinned to its text; three kill oracles on the real process (bounded)",
        category="other",
        text="(a) At every point where the process can be suspended or killed inside Database.apply_migrations, the durable state satisfies 'durably applied migrations == durable version rows' (recorded fix: each migration and its version row are one transaction; before, 11 of 22 kill points left a database that could never be opened again). (e, f) Whatever the folder looks like after a kill - files removed, files added, both - the resync that runs on restart never lowers UIDNEXT, keeps UIDNEXT above every UID in the list, and every UID in the rebuilt list is either bound to the message key it was bound to or is fresh (>= the old UIDNEXT): proved for all restored states satisfying the representation invariant, with one stated fact of finite arithmetic (pigeonhole), which is itself proved in Lean 4 + Mathlib (lean/Pigeonhole.lean, re-checked by this check). (d) Mailbox.commit_to_db, which every command runs before its tagged reply, is proved to leave this mailbox's committed rows equal to its UID state and to exactly its non-empty flag sequences, touching no other mailbox's rows (ghost model of the two tables; the SQL statements are assumed contracts tied to their exact text). Bounded: the real process is killed before every SQL statement of a first start; after removing any subset of message files and/or adding one behind the server's back (16 cases); and after 1-3 acknowledged flag-changing commands on two mailboxes (60 histories) - then restarted and compared.",
        note="Partial: crash points INSIDE commit_to_db, append, copy, expunge, pack, rename, delete are not enumerated by any obligation; the argument for (b), (c) is 'every command commits before it replies' (commit_to_db's contract) plus sqlite's atomic COMMIT (A-DB). Observation O1 (DESIGN 12.4): a kill between a file removal and the commit, with a delivery in the same window, leaves a listed message without a file.",
        assumptions=['z3 sound', 'PyVC encoding', 'A-DB: sqlite DDL is transactional inside BEGIN..COMMIT, durable at once outside; COMMIT is atomic; each reviewed SQL statement does what its contract says', 'the pigeonhole and counting facts stated as preconditions are proved in lean/Pigeonhole.lean (trusted: Lean kernel, Mathlib; the correspondence between the Lean statement and the contract clause is by inspection)', 'codec round trip of compact_sequence/expand_sequence (bounded tier)'],
        not_decided='(b), (c) beyond commit-before-reply; crash points inside the multi-step mailbox operations',
    ),
    "C08": dict(
        design_ref="DESIGN.md 7 C08",
        technique="contract-based deductive verification (PyVC + z3/cvc5 strings) of the parser's exception safety (parse, _p_date), of _p_string (escapes decoded, literal by count), is_seq_num and _p_mailbox; bounded oracles: grammar-mutation fuzz for totality, exhaustive quoted/literal strings, fetch attributes against an independent reading, the real per-connection loop",
        category="other",
        text="Proved: IMAPClientCommand.parse lets nothing but BadCommand subclasses escape even when the recursive descent raises RecursionError (recorded fix), and _p_date turns every token that matches the date grammar but is not a calendar date "
             "into BadSyntax instead of ValueError (recorded fix; _p_date_time likewise, bounded only). The bounded oracle runs ~60 sentences covering every command and a few hundred to a few thousand seeded mutations through the real parser and "
             "demands that only BadCommand escapes. Proved since: _p_string decodes quoted-string escapes (result == unescape of exactly the quoted prefix; recorded fix F49) and takes a literal by its announced count, consuming exactly prefix + count characters; is_seq_num returns exactly the numeral's value, '*' for '*', None otherwise, and raises nothing (its SyntaxError branch is dead). Bounded since: every text over a 6-letter alphabet up to length 6 as quoted string and as literal; 274 fetch attributes (sections, partials, .PEEK, RFC822 forms, letter case) compared component-wise with an independent reading.",
        note="Partial: apart from _p_mailbox, _p_date, _p_string and is_seq_num the ~65 _p_* functions are abstracted by one assumed contract; whole-grammar agreement with RFC 3501 is decided only on the bounded corpora. Known finding F20: trailing data after a complete command is ignored (pinned by the repository's own tests). Observation O2 (DESIGN 12.4): SEARCH UNDRAFT is refused; BODY[1.] and SEARCH () are accepted.",
        assumptions=["z3 sound", "PyVC encoding", "_p_* functions raise only BadCommand subclasses or RecursionError (bounded evidence)", "A-RE/datetime contracts as listed"],
        not_decided='(b) (known finding F20); the remaining ~65 _p_* functions are covered by the bounded oracles only (flags, sections, search keys, date-times)',
    ),
}

# additions of the third session (DESIGN 12.8), appended to the explanations above
_MORE = {
    "C05": " Proved since: a session that selected the mailbox with EXAMINE never reaches Mailbox.store (do_store is refused before it queues) and all its body fetches are peeks (do_fetch, every attribute); before the recorded fix F10 STORE and non-PEEK fetches of such a session changed flags. Bounded: 12 changing commands issued by an EXAMINE session, flags read back by a second session.",
    "C06": " Proved since, with cancellation possible at every suspension point of Mailbox.management_task: whenever the task ends, no command it had taken off the queue is left waiting for its go-ahead (before the recorded fix F54 a command held in command_can_proceed() when the mailbox was shut down was only answered by the watchdog); ready_and_okay marks the command completed however the wait or the body ends; do_done: the session no longer counts as idling when the tagged line is written. Bounded: commands issued while another session deletes the mailbox (12 cases).",
    "C08": " Proved since: the fixed-token matcher _p_simple_string consumes exactly the token, only when the input starts with it (case-insensitively unless asked), and raises NoMatch exactly when not silent and there is no match. Bounded since: 24 long, badly ending command lines each parsed in its own interpreter under a 5 s limit (termination is not modelled by the contracts); the front end's read loop against the reference tokenizer (literals by octet count).",
    "C10": " Bounded since: the POP3 session oracle (snapshot kept while an IMAP session expunges) and commands issued while another session deletes the mailbox. Not expressible: aliasing between lists (PyVC models lists as values).",
    "C11": " get_next_uid_vv (the UIDVALIDITY handed out is the value already durable) and update_mtime_in_db (touches no committed UID or flag state) are in this property's function list since.",
    "C12": " update_mtime_in_db is proved to leave the committed UID and flag state alone. Bounded since: the restart oracle takes the listing before any SELECT, starts from and restarts into a server that has run the real start-up's find_all_folders(), and has two more history steps (DELETE of a parent then CREATE again; one CREATE with two missing ancestors); SPECIAL-USE mailboxes created at start-up are not compared, as the property allows.",
    "C20": " Proved since (second contract on dot_stuff's real body, split/join uninterpreted): one output line per input line, a '.' put in front of exactly the lines that start with one, no line of the result is a lone '.'.",
}
for _k, _v in _MORE.items():
    PROPS[_k]["text"] = PROPS[_k]["text"] + _v
