"""Per-property metadata used for MANIFEST.json and evidence (level text, assumptions)."""

PROPS = {
    "C15": dict(
        design_ref="DESIGN.md 7 C15",
        technique="contract-based deductive verification: VCs generated from the real AST (PyVC), discharged by z3; bounded concrete oracle as cross-check",
        text="Each interpreter of a parsed sequence set (sequence_set_to_list, Mailbox.msg_set_to_msg_seq_set, IMAPSearch._match_message_set/_match_uid) "
             "is proved, for all sets, mailbox sizes and message numbers, to compute membership in the single spec function `denotes` (a:b == b:a, * = max) and to raise Bad exactly "
             "for non-UID numbers outside 1..N. Loops carry inductive invariants, so set length is unbounded.",
        note="Trusted: z3; the PyVC encoding of Python semantics (DESIGN 2.2: mathematical ints, lists as (len, array), sets as characteristic arrays); parser output shape "
             "(elements are int, '*', or pairs of those -- precondition wf_msgset). The text form of sets (_p_msg_set) and copy()/do_expunge's private expansion are covered by the bounded tier only.",
        assumptions=["z3 4.x/5.x sound", "PyVC encoding (DESIGN 2.2)", "parser yields int | '*' | (a, b) elements (wf_msgset precondition)"],
        not_decided="text form of sequence sets (_p_msg_set) is bounded only",
    ),
    "C18": dict(
        design_ref="DESIGN.md 7 C18",
        technique="contract-based deductive verification of throttle.check_allow/login_failed (PyVC + z3) with the history statement reduced to per-call lemmas L1-L4; bounded timed-history oracle",
        text="check_allow and login_failed are proved against exact functional contracts over the symbolic throttle tables and a real-valued clock: entries are never purged within PURGE_TIME of the "
             "last recorded failure (L1), each recorded failure increments the count (L2), a locked user or address is refused (L3), and an attempt with both counts at or below threshold is never refused (L4). "
             "The statement over all timed histories follows by induction over calls (DESIGN 2.7).",
        note="Decided here: clauses (c) and (d). Clauses (a)/(b) (state gate, call order in do_login/_do_pass, authenticate) are not yet under contract. Trusted: z3, PyVC encoding, time.time() non-decreasing.",
        assumptions=["z3 sound", "PyVC encoding (DESIGN 2.2)", "A-IO: time.time() is non-decreasing", "A-HASH not needed for (c),(d)"],
        not_decided="(a) pre-auth isolation and (b) password check are not decided by this check yet",
    ),
}
