"""asimap/throttle.py -- C18 (c), (d): the throttle automaton.

The history statement of the property is carried by four per-call facts
(DESIGN C18 L1-L4); induction over the call history is the meta-argument of
DESIGN 2.7.  PURGE_TIME / MAX_*_ATTEMPTS are read from the module source.
"""

G = {"BAD_USER_AUTHS": "dict[str,tuple[int,float]]", "BAD_IP_AUTHS": "dict[str,tuple[int,float]]"}


def declare(reg):
    P = "asimap/throttle.py"
    reg.specfn("thr_locked", "d: dict[str,tuple[int,float]], k: str, limit: int, now: float, purge: int", "bool",
               "k in d and get(d, k)[0] > limit and now - get(d, k)[1] <= purge")
    reg.specfn("thr_over", "d: dict[str,tuple[int,float]], k: str, limit: int", "bool", "k in d and get(d, k)[0] > limit")
    reg.specfn("same_except", "a: dict[str,tuple[int,float]], b: dict[str,tuple[int,float]], k: str", "bool",
               "forall(lambda j: implies(j != k, (j in a) == (j in b) and implies(j in a, get(a, j) == get(b, j))), 'str')")
    reg.contract(
        P, "login_failed",
        params={"user": "str", "addr": "str"},
        ensures={
            # L2: every recorded failure increments the count and stamps the time
            "user-count": "user in BAD_USER_AUTHS and get(BAD_USER_AUTHS, user)[0] == ite(user in old(BAD_USER_AUTHS), get(old(BAD_USER_AUTHS), user)[0] + 1, 1)",
            "user-time": "get(BAD_USER_AUTHS, user)[1] == clock()",
            "user-frame": "same_except(BAD_USER_AUTHS, old(BAD_USER_AUTHS), user)",
            "addr-count": "addr in BAD_IP_AUTHS and get(BAD_IP_AUTHS, addr)[0] == ite(addr in old(BAD_IP_AUTHS), get(old(BAD_IP_AUTHS), addr)[0] + 1, 1)",
            "addr-time": "get(BAD_IP_AUTHS, addr)[1] == clock()",
            "addr-frame": "same_except(BAD_IP_AUTHS, old(BAD_IP_AUTHS), addr)",
        },
        modifies=["global.BAD_USER_AUTHS", "global.BAD_IP_AUTHS"],
        ghost={"globals": G, "harness": "harness.throttle:Throttle"},
        props=["C18"],
    )
    reg.contract(
        P, "check_allow",
        params={"user": "str", "addr": "str"}, ret="bool",
        ensures={
            # L1: an entry is never purged within PURGE_TIME of its last recorded failure
            "no-purge-in-window-user": "implies(user in old(BAD_USER_AUTHS) and clock() - get(old(BAD_USER_AUTHS), user)[1] <= PURGE_TIME, "
                                       "user in BAD_USER_AUTHS and get(BAD_USER_AUTHS, user) == get(old(BAD_USER_AUTHS), user))",
            "no-purge-in-window-addr": "implies(addr in old(BAD_IP_AUTHS) and clock() - get(old(BAD_IP_AUTHS), addr)[1] <= PURGE_TIME, "
                                       "addr in BAD_IP_AUTHS and get(BAD_IP_AUTHS, addr) == get(old(BAD_IP_AUTHS), addr))",
            # counts never grow here, entries only disappear
            "only-removes-user": "forall(lambda j: implies(j in BAD_USER_AUTHS, j in old(BAD_USER_AUTHS) and get(BAD_USER_AUTHS, j) == get(old(BAD_USER_AUTHS), j)), 'str')",
            "only-removes-addr": "forall(lambda j: implies(j in BAD_IP_AUTHS, j in old(BAD_IP_AUTHS) and get(BAD_IP_AUTHS, j) == get(old(BAD_IP_AUTHS), j)), 'str')",
            "others-kept-user": "same_except(BAD_USER_AUTHS, old(BAD_USER_AUTHS), user)",
            "others-kept-addr": "same_except(BAD_IP_AUTHS, old(BAD_IP_AUTHS), addr)",
            # L3: locked out => refused, even with the right password (the caller never gets to check it)
            "refuse-locked-user": "implies(thr_locked(old(BAD_USER_AUTHS), user, MAX_USER_ATTEMPTS, clock(), PURGE_TIME), result == False)",
            "refuse-locked-addr": "implies(thr_locked(old(BAD_IP_AUTHS), addr, MAX_ADDR_ATTEMPTS, clock(), PURGE_TIME), result == False)",
            # L4: both at or below threshold => never refused
            "allow-below": "implies(not thr_over(old(BAD_USER_AUTHS), user, MAX_USER_ATTEMPTS) and not thr_over(old(BAD_IP_AUTHS), addr, MAX_ADDR_ATTEMPTS), result == True)",
            # exact result
            "exact": "result == (not thr_over(BAD_USER_AUTHS, user, MAX_USER_ATTEMPTS) and not thr_over(BAD_IP_AUTHS, addr, MAX_ADDR_ATTEMPTS))",
        },
        modifies=["global.BAD_USER_AUTHS", "global.BAD_IP_AUTHS"],
        ghost={"globals": G, "harness": "harness.throttle:Throttle"},
        props=["C18"],
    )
    reg.properties.setdefault("C18", {}).setdefault("bounded", []).append(
        {"name": "throttle-timed-histories", "module": "harness.throttle", "func": "Throttle"}
    )
