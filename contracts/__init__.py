"""Sidecar contracts for scanner/asimap.  `build_registry()` loads them all."""
from pyvc.registry import Registry


def build_registry() -> Registry:
    import importlib
    import pkgutil

    reg = Registry()
    from . import _common

    _common.declare(reg)
    from . import _classes

    _classes.declare(reg)
    for m in sorted(pkgutil.iter_modules(__path__), key=lambda m: m.name):
        if m.name.startswith("_"):
            continue
        mod = importlib.import_module(f"{__name__}.{m.name}")
        mod.declare(reg)
    from . import mbox_c

    mbox_c.declare_recovery(reg)
    mbox_c.declare_store(reg)
    mbox_c.declare_concurrency_oracles(reg)
    mbox_c.declare_rename_inbox(reg)
    mbox_c.declare_rename_folder(reg)
    from . import search_c

    search_c.declare_text_keys(reg)
    from . import auth_c

    auth_c.declare_pop3_auth(reg)
    auth_c.declare_pop3_relay(reg)
    auth_c.declare_pop3_gate(reg)
    from ._props import PROPS

    for pid, info in PROPS.items():
        d = reg.properties.setdefault(pid, {})
        d["level"] = info.get("category", "proof")
        d["assumptions"] = info.get("assumptions", [])
        d["not_decided"] = info.get("not_decided", "")
        d["explanation"] = info["text"]
    return reg
