"""Shared vocabulary: union types, exception classes read from the repo, spec functions."""
from pyvc.extract import exception_classes


def declare(reg):
    # exception hierarchy of the repo, read from source on every run
    for cls, base in exception_classes("asimap/exceptions.py").items():
        reg.exc_parents[cls] = base if base != "object" else "Exception"
    for path in ("asimap/parse.py", "asimap/mbox.py"):
        for cls, base in exception_classes(path).items():
            if base in reg.exc_parents and cls not in reg.exc_parents:
                reg.exc_parents[cls] = base

    # context managers (regex on the source text of the `with` item -> kind)
    reg.context_managers += [
        (r"self\.mh_sequences_lock", "lock"),
        (r"self\.db_lock", "lock"),
        (r".*\.lock_folder\(\)", "lock"),
        (r".*active_mailboxes_lock", "lock"),
        (r"asyncio\.timeout\(.*\)", "timeout"),
        (r"TemporaryDirectory\(.*\)", "opaque"),
        (r"(\w+_)?cmd\.ready_and_okay\(.*\)", "ready"),
    ]
    # what _p_msg_set produces: ints, "*", and (a, b) with a, b in int | "*"
    reg.union("IntOrStar", ["int", "str"])
    reg.union("StrOrList", ["str", "list[str]"])
    reg.union("MsgElt", ["int", "str", "tuple[IntOrStar,IntOrStar]"])

    reg.specfn("wf_bnd", "b: IntOrStar", "bool", 'isinstance(b, int) or b == "*"')
    reg.specfn(
        "wf_elt", "e: MsgElt", "bool",
        'isinstance(e, int) or e == "*" or (isinstance(e, tuple) and wf_bnd(e[0]) and wf_bnd(e[1]))',
    )
    reg.specfn("wf_msgset", "S: list[MsgElt]", "bool", "forall(lambda k: implies(0 <= k and k < len(S), wf_elt(S[k])))")
    # --- the one meaning of a sequence set (DESIGN 6.1 `denote`) -----------
    reg.specfn("bnd", "b: IntOrStar, mx: int", "int", "ite(isinstance(b, int), int_of(b), mx)")
    reg.specfn(
        "elt_has", "e: MsgElt, mx: int, x: int", "bool",
        "(isinstance(e, int) and x == int_of(e)) or (isinstance(e, str) and x == mx) or "
        "(isinstance(e, tuple) and min(bnd(e[0], mx), bnd(e[1], mx)) <= x and x <= max(bnd(e[0], mx), bnd(e[1], mx)))",
        doc="x is denoted by element e when `*` means mx; a:b == b:a",
    )
    reg.specfn(
        "denote_upto", "S: list[MsgElt], mx: int, x: int, n: int", "bool",
        "exists(lambda k: 0 <= k and k < n and elt_has(S[k], mx, x))", recursive=True,
        doc="x is denoted by one of the first n elements of S (a named function, so applications are E-matching triggers)",
    )
    reg.specfn("denotes", "S: list[MsgElt], mx: int, x: int", "bool", "denote_upto(S, mx, x, len(S))")
    # element that a non-UID command must reject (C15 g): number outside 1..mx, `*` in an empty mailbox
    reg.specfn(
        "elt_bad", "e: MsgElt, mx: int, uid: bool", "bool",
        "(isinstance(e, str) and mx == 0 and not uid) or "
        "(isinstance(e, int) and (int_of(e) < 1 or (int_of(e) > mx and not uid))) or "
        "(isinstance(e, tuple) and not uid and ("
        "   ((isinstance(e[0], str) or isinstance(e[1], str)) and mx == 0) or "
        "   bnd(e[0], mx) < 1 or bnd(e[1], mx) < 1 or bnd(e[0], mx) > mx or bnd(e[1], mx) > mx))",
    )
    reg.specfn(
        "has_bad", "S: list[MsgElt], mx: int, uid: bool, n: int", "bool",
        "exists(lambda k: 0 <= k and k < n and elt_bad(S[k], mx, uid))",
        doc="one of the first n elements must be rejected",
    )
