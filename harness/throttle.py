"""Concrete oracle for asimap/throttle.py: timed histories against the property's wording."""
import itertools

from pyvc.harness import Harness


class Throttle(Harness):
    scope = "all single-user histories of length <=7 over gaps {0,60,61} with >=3 failures; all histories of length <=5 (quick) / <=6 (thorough) over ops {fail, check} x users {u,v} x addrs {a,b} (restricted to (u,a),(u,b),(v,a)) x gaps {0,59,60,61} s"
    exhaustive = True

    def inputs(self, tier, seed):
        n = 5 if tier == "quick" else 6
        # focused family: one user/address, up to 7 steps, gaps {0, 60, 61}
        one = [(op, ("u", "a"), g) for op in ("fail", "check") for g in (0, 60, 61)]
        for k in range(1, 8):
            for hist in itertools.product(one, repeat=k - 1):
                if sum(1 for h in hist if h[0] == "fail") < 3 and k > 4:
                    continue
                for g in (0, 60, 61):
                    yield {"history": [[h[0], list(h[1]), h[2]] for h in hist] + [["check", ["u", "a"], g]]}
        # focused family 2: two users behind one address, no gaps
        two = [(op, p, 0) for op in ("fail", "check") for p in (("u", "a"), ("v", "a"))]
        for k in range(5, 8):
            for hist in itertools.product(two, repeat=k - 1):
                yield {"history": [[h[0], list(h[1]), h[2]] for h in hist] + [["check", ["u", "a"], 0]]}
        pairs = [("u", "a"), ("u", "b"), ("v", "a")]
        steps = [(op, p, g) for op in ("fail", "check") for p in pairs[: (2 if tier == "quick" else 3)] for g in (0, 59, 60, 61)]
        for k in range(1, n + 1):
            # the last step is always a check of (u,a); earlier ones vary
            for hist in itertools.product(steps, repeat=k - 1):
                for g in (0, 60, 61):
                    yield {"history": [list(h[:1]) + [list(h[1])] + [h[2]] for h in hist] + [["check", ["u", "a"], g]]}

    def check(self, inp):
        import asimap.throttle as th

        th.BAD_USER_AUTHS.clear()
        th.BAD_IP_AUTHS.clear()
        now = [1000.0]
        real_time = th.time.time
        th.time.time = lambda: now[0]
        # reference bookkeeping straight from the property: recorded failures per key,
        # a run = failures each within PURGE_TIME of the previous one; a purge can
        # only happen when PURGE_TIME has passed since the last recorded failure
        P = th.PURGE_TIME
        limits = {"user": th.MAX_USER_ATTEMPTS, "addr": th.MAX_ADDR_ATTEMPTS}
        run = {}  # (kind, key) -> (count in current run, last failure time)
        try:
            for op, (u, a), gap in inp["history"]:
                now[0] += gap
                keys = (("user", u), ("addr", a))
                if op == "fail":
                    th.login_failed(u, a)
                    for k in keys:
                        c, last = run.get(k, (0, None))
                        # a failure more than P after the previous one starts a new run only if
                        # the entry was purged in between; the implementation may also keep
                        # counting (purging happens in check_allow) -- both are allowed, so the
                        # oracle tracks the *guaranteed* run length only
                        if last is not None and now[0] - last <= P:
                            run[k] = (c + 1, now[0])
                        else:
                            run[k] = (1, now[0])
                else:
                    got = th.check_allow(u, a)
                    must_refuse = any(
                        k in run and run[k][0] > limits[k[0]] and now[0] - run[k][1] <= P for k in keys
                    )
                    if must_refuse and got:
                        return {"observed": "allowed", "clause": "more than the permitted failures, each within 60 s of the previous, and within 60 s of the last one => refused"}
                    # never refused when both recorded counts are at or below threshold
                    cu = th.BAD_USER_AUTHS.get(u, (0, 0))[0]
                    ca = th.BAD_IP_AUTHS.get(a, (0, 0))[0]
                    tot_u = sum(1 for o, (uu, _), _g in inp["history"] if o == "fail" and uu == u)
                    tot_a = sum(1 for o, (_, aa), _g in inp["history"] if o == "fail" and aa == a)
                    if tot_u <= limits["user"] and tot_a <= limits["addr"] and not got:
                        return {"observed": "refused", "clause": "user and address both at or below their thresholds => never refused"}
            return None
        finally:
            th.time.time = real_time
            th.BAD_USER_AUTHS.clear()
            th.BAD_IP_AUTHS.clear()
