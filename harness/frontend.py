"""Concrete oracle for the front-end read loop (C19): real IMAPClient.start over real StreamReaders vs a reference tokenizer."""
import asyncio
import itertools
import re

from pyvc.harness import Harness

LIT = re.compile(rb"\{(\d+)(\+)?\}$")


def reference(stream: bytes, max_size: int):
    """What the byte stream denotes: list of ("msg", bytes) | ("plus",) | ("bad",) events, in order."""
    ev = []
    pos = 0
    buf = []
    size = 0
    while True:
        k = stream.find(b"\r\n", pos)
        if k < 0:
            return ev  # incomplete tail: nothing more is delivered
        line = stream[pos:k]
        pos = k + 2
        line = line.rstrip()
        if line:
            buf.append(line)
            size += len(line)
        if not buf:
            ev.append(("bad",))
            continue
        m = LIT.search(line)
        if m:
            n = int(m.group(1))
            if n > max_size:
                ev.append(("bad",))
                buf, size = [], 0
                if m.group(2):
                    return ev  # a non-synchronising over-limit literal cannot be skipped: the connection ends
                continue  # synchronising: the client never sends the literal; the next line is a new command
            if not m.group(2):
                ev.append(("plus",))
            if pos + n > len(stream):
                return ev
            lit = stream[pos:pos + n]
            pos += n
            buf += [b"\r\n", lit]
            size += n + 2
            if size > max_size:
                ev.append(("bad",))
                buf, size = [], 0
            continue
        if size > max_size:
            ev.append(("bad",))
            buf, size = [], 0
            continue
        ev.append(("msg", b"".join(buf)))
        buf, size = [], 0


class _Writer:
    def __init__(self, log):
        self.log = log

    def write(self, d):
        self.log.append(bytes(d))

    async def drain(self):
        pass

    def is_closing(self):
        return False

    def close(self):
        pass

    async def wait_closed(self):
        pass


class ReadLoop(Harness):
    scope = "streams of 1..3 units from {NOOP line, empty line, line with sync literal, line with non-sync literal, over-limit sync literal, over-limit non-sync literal, over-size line} (MAX_INPUT_SIZE patched to 40), each under 3 segmentations"
    exhaustive = True

    UNITS = {
        "noop": b"a NOOP\r\n",
        "empty": b"\r\n",
        "lit": b"a LOGIN {3}\r\nabc {2}\r\nxy\r\n",
        "litplus": b"a LOGIN {3+}\r\nabc pw\r\n",
        "crlf-in-lit": b"a X {4}\r\na\r\nb\r\n",
        "biglit": b"a LOGIN {999}\r\n",
        "biglitplus": b"a LOGIN {999+}\r\n",
        "bigline": b"a " + b"X" * 60 + b"\r\n",
        "sumbig": b"a " + b"Y" * 30 + b" {20}\r\n" + b"z" * 20 + b"\r\n",
    }

    def inputs(self, tier, seed):
        names = list(self.UNITS)
        n = 2 if tier == "quick" else 3
        for k in range(1, n + 1):
            for combo in itertools.product(names, repeat=k):
                for seg in ("whole", "bytes", "halves"):
                    yield {"units": list(combo), "seg": seg}

    def check(self, inp):
        import asimap.server as srv

        stream = b"".join(self.UNITS[u] for u in inp["units"]) + b"z LOGOUT\r\n"
        srv.MAX_INPUT_SIZE = 40
        want = reference(stream, 40)

        async def go():
            reader = asyncio.StreamReader(limit=2 ** 20)
            log = []
            delivered = []

            class Intf:
                wait_task = None

                async def message(self_, msg):
                    delivered.append(bytes(msg))
                    log.append(b"MSG:" + bytes(msg))
                    return True

            c = srv.IMAPClient.__new__(srv.IMAPClient)
            c.name, c.reader, c.writer = "t", reader, _Writer(log)
            c.ibuffer, c.ibuffer_size = [], 0
            c.subprocess_intf = Intf()
            c.debug = False
            task = asyncio.ensure_future(c.start())
            if inp["seg"] == "whole":
                chunks = [stream]
            elif inp["seg"] == "bytes":
                chunks = [stream[i:i + 1] for i in range(len(stream))]
            else:
                h = len(stream) // 2
                chunks = [stream[:h], stream[h:]]
            for ch in chunks:
                reader.feed_data(ch)
                await asyncio.sleep(0)
            reader.feed_eof()
            await asyncio.wait_for(task, 5)
            return log

        log = asyncio.run(go())
        got = []
        for item in log:
            if item.startswith(b"MSG:"):
                got.append(("msg", item[4:]))
            elif item.startswith(b"+ "):
                got.append(("plus",))
            elif item.startswith(b"* BAD"):
                got.append(("bad",))
        if got != want:
            return {"observed": [repr(g)[:80] for g in got], "clause": f"events == {[repr(w)[:80] for w in want]}"}
        return None
