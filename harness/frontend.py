"""Concrete oracle for the front-end read loop (C19): real IMAPClient.start over real StreamReaders vs a reference tokenizer."""
import asyncio
import itertools
import re

from pyvc.harness import Harness

LIT = re.compile(rb"\{(\d+)(\+)?\}$")


def reference(stream: bytes, max_size: int):
    """What the byte stream denotes: list of ("msg", bytes) | ("plus",) | ("bad",) events, in order."""
    ev = []
    pos = 0
    buf = []
    size = 0
    while True:
        k = stream.find(b"\r\n", pos)
        if k < 0:
            return ev  # incomplete tail: nothing more is delivered
        line = stream[pos:k]
        pos = k + 2
        line = line.rstrip()
        if line:
            buf.append(line)
            size += len(line)
        if not buf:
            ev.append(("bad",))
            continue
        m = LIT.search(line)
        if m:
            n = int(m.group(1))
            if n > max_size:
                ev.append(("bad",))
                buf, size = [], 0
                if m.group(2):
                    return ev  # a non-synchronising over-limit literal cannot be skipped: the connection ends
                continue  # synchronising: the client never sends the literal; the next line is a new command
            if not m.group(2):
                ev.append(("plus",))
            if pos + n > len(stream):
                return ev
            lit = stream[pos:pos + n]
            pos += n
            buf += [b"\r\n", lit]
            size += n + 2
            if size > max_size:
                ev.append(("bad",))
                buf, size = [], 0
            continue
        if size > max_size:
            ev.append(("bad",))
            buf, size = [], 0
            continue
        ev.append(("msg", b"".join(buf)))
        buf, size = [], 0


class _Writer:
    def __init__(self, log):
        self.log = log

    def write(self, d):
        self.log.append(bytes(d))

    async def drain(self):
        pass

    def is_closing(self):
        return False

    def close(self):
        pass

    async def wait_closed(self):
        pass


class ReadLoop(Harness):
    scope = "streams of 1..3 units from {NOOP line, empty line, line with sync literal, line with non-sync literal, line with '{n}' / '{n+}' in the middle, over-limit sync literal, over-limit non-sync literal, over-size line} (MAX_INPUT_SIZE patched to 40), each under 3 segmentations"
    exhaustive = True

    UNITS = {
        "noop": b"a NOOP\r\n",
        "empty": b"\r\n",
        "lit": b"a LOGIN {3}\r\nabc {2}\r\nxy\r\n",
        "litplus": b"a LOGIN {3+}\r\nabc pw\r\n",
        "crlf-in-lit": b"a X {4}\r\na\r\nb\r\n",
        "biglit": b"a LOGIN {999}\r\n",
        "biglitplus": b"a LOGIN {999+}\r\n",
        "bigline": b"a " + b"X" * 60 + b"\r\n",
        "sumbig": b"a " + b"Y" * 30 + b" {20}\r\n" + b"z" * 20 + b"\r\n",
        # braces that do not end the line declare no literal
        "brace-mid": b'a SEARCH SUBJECT "{3}" x\r\n',
        "brace-mid-plus": b"a X {2+} y\r\n",
    }

    def inputs(self, tier, seed):
        names = list(self.UNITS)
        n = 2 if tier == "quick" else 3
        for k in range(1, n + 1):
            for combo in itertools.product(names, repeat=k):
                for seg in ("whole", "bytes", "halves"):
                    yield {"units": list(combo), "seg": seg}

    def check(self, inp):
        import asimap.server as srv

        stream = b"".join(self.UNITS[u] for u in inp["units"]) + b"z LOGOUT\r\n"
        srv.MAX_INPUT_SIZE = 40
        want = reference(stream, 40)

        async def go():
            reader = asyncio.StreamReader(limit=2 ** 20)
            log = []
            delivered = []

            class Intf:
                wait_task = None

                async def message(self_, msg):
                    delivered.append(bytes(msg))
                    log.append(b"MSG:" + bytes(msg))
                    return True

            c = srv.IMAPClient.__new__(srv.IMAPClient)
            c.name, c.reader, c.writer = "t", reader, _Writer(log)
            c.ibuffer, c.ibuffer_size = [], 0
            c.subprocess_intf = Intf()
            c.debug = False
            task = asyncio.ensure_future(c.start())
            if inp["seg"] == "whole":
                chunks = [stream]
            elif inp["seg"] == "bytes":
                chunks = [stream[i:i + 1] for i in range(len(stream))]
            else:
                h = len(stream) // 2
                chunks = [stream[:h], stream[h:]]
            for ch in chunks:
                reader.feed_data(ch)
                await asyncio.sleep(0)
            reader.feed_eof()
            await asyncio.wait_for(task, 5)
            return log

        log = asyncio.run(go())
        got = []
        for item in log:
            if item.startswith(b"MSG:"):
                got.append(("msg", item[4:]))
            elif item.startswith(b"+ "):
                got.append(("plus",))
            elif item.startswith(b"* BAD"):
                got.append(("bad",))
        if got != want:
            return {"observed": [repr(g)[:80] for g in got], "clause": f"events == {[repr(w)[:80] for w in want]}"}
        return None


class Relay(Harness):
    """C19 (d): what the user process answers reaches the IMAP client unmodified and in order -- real IMAPClient /
    IMAPSubprocessInterface.get_and_connect_subprocess / msgs_to_client against a stand-in user process on a loopback socket."""

    scope = "one FETCH response whose literal has a CRLF-free run of 10 / 60000 / 66000 / 130000 / 140000 / 1000000 octets, followed by 3 more responses; the stand-in user process writes it in one piece or in 1460 / 50000-octet pieces"
    exhaustive = False

    def inputs(self, tier, seed):
        for run_len in (10, 60_000, 66_000, 130_000, 140_000, 1_000_000):
            for chunk in (0, 1460, 50_000):
                yield {"run_len": run_len, "chunk": chunk}

    def check(self, inp):
        from unittest.mock import AsyncMock, MagicMock

        import asimap.server as server_mod
        from asimap.server import IMAPClient
        from asimap.utils import UpgradeableReadWriteLock

        literal = b"Subject: long line\r\n\r\n" + b"Q" * inp["run_len"] + b"\r\nthe end\r\n"
        response = (b"* 1 FETCH (UID 7 BODY[] {%d}\r\n" % len(literal) + literal + b")\r\n" + b"A001 OK FETCH completed\r\n" + b"* 2 EXISTS\r\n" + b"A002 OK NOOP completed\r\n")
        chunk = inp["chunk"]

        async def go():
            got_command = asyncio.Event()
            received = bytearray()

            async def fake_user_process(reader, writer):
                try:
                    hdr = await reader.readuntil(b"\n")
                    n = int(hdr.strip()[1:-1])
                    received.extend(await reader.readexactly(n))
                    got_command.set()
                    if chunk == 0:
                        writer.write(response)
                        await writer.drain()
                    else:
                        for i in range(0, len(response), chunk):
                            writer.write(response[i:i + chunk])
                            await writer.drain()
                            await asyncio.sleep(0)
                    await reader.read()
                except (ConnectionError, asyncio.IncompleteReadError):
                    pass
                finally:
                    writer.close()

            fake = await asyncio.start_server(fake_user_process, "127.0.0.1", 0)
            port = fake.sockets[0].getsockname()[1]
            subp = MagicMock()
            subp.is_alive = True
            subp.port = port
            subp.has_port = asyncio.Event()
            subp.has_port.set()
            saved = (server_mod.USER_IMAP_SUBPROCESSES, server_mod.USER_IMAP_SUBPROCESSES_LOCK)
            server_mod.USER_IMAP_SUBPROCESSES = {"demo": subp}
            server_mod.USER_IMAP_SUBPROCESSES_LOCK = UpgradeableReadWriteLock()
            user = MagicMock()
            user.username = "demo"
            to_client = bytearray()
            client_writer = MagicMock(spec=asyncio.StreamWriter)
            client_writer.write = MagicMock(side_effect=to_client.extend)
            client_writer.drain = AsyncMock()
            imap_server = MagicMock()
            imap_server.debug = False
            client = IMAPClient(imap_server, "test:1234", "127.0.0.1", 1234, asyncio.StreamReader(), client_writer)
            intf = client.subprocess_intf
            relay_task = None
            try:
                await intf.get_and_connect_subprocess(user)
                relay_task = intf.wait_task
                intf.client_handler.state = "authenticated"
                if await intf.message(b"A001 UID FETCH 7 BODY[]") is not True:
                    return "the command was not forwarded"
                await asyncio.wait_for(got_command.wait(), 10)
                if bytes(received) != b"A001 UID FETCH 7 BODY[]":
                    return f"user process received {bytes(received)!r}"
                try:
                    async with asyncio.timeout(20):
                        while len(to_client) < len(response) and not relay_task.done():
                            await asyncio.sleep(0.01)
                except TimeoutError:
                    pass
                if bytes(to_client) != response:
                    k = next((i for i, (x, y) in enumerate(zip(to_client, response)) if x != y), min(len(to_client), len(response)))
                    return f"relayed {len(to_client)} of {len(response)} octets, first difference at {k}; relay task ended: {relay_task.done()}"
                return None
            finally:
                if relay_task is not None and not relay_task.done():
                    relay_task.cancel()
                    try:
                        await relay_task
                    except (asyncio.CancelledError, Exception):
                        pass
                try:
                    await intf.close()
                except Exception:
                    pass
                fake.close()
                await fake.wait_closed()
                server_mod.USER_IMAP_SUBPROCESSES, server_mod.USER_IMAP_SUBPROCESSES_LOCK = saved

        err = asyncio.run(asyncio.wait_for(go(), 60))
        return {"observed": err, "clause": "responses from the user process reach the client unmodified and in order"} if err else None


class ProxyLoop(Harness):
    """C08 / C06 / C19 (c): the per-connection loop of the user process (real IMAPClientProxy.run on a real IMAPUserServer):
    every framed command -- parsable or not -- gets exactly one tagged reply, in order, and an unparsable one does not end the connection."""

    scope = "all sequences of 1-3 commands from {NOOP, SELECT inbox, FETCH 1 (FLAGZ) [bad syntax], XYZZY [unknown command], FETCH 1 BODY[ [truncated], STATUS inbox (MESSAGES)} framed as the front end frames them"
    exhaustive = True

    CMDS = ["NOOP", "SELECT inbox", "FETCH 1 (FLAGZ)", "XYZZY", "FETCH 1 BODY[", "STATUS inbox (MESSAGES)"]

    def inputs(self, tier, seed):
        n = 3
        for k in range(1, n + 1):
            for seq in itertools.product(range(len(self.CMDS)), repeat=k):
                if any(i in (2, 3, 4) for i in seq):      # at least one unparsable command
                    yield {"commands": list(seq)}

    def check(self, inp):
        import logging
        from unittest.mock import AsyncMock, MagicMock

        from asimap.user_server import IMAPClientProxy

        from .realsrv import World

        logging.disable(logging.CRITICAL)

        async def go():
            async with World({"inbox": 2}) as w:
                reader = asyncio.StreamReader()
                out = bytearray()
                writer = MagicMock(spec=asyncio.StreamWriter)
                writer.write = MagicMock(side_effect=out.extend)
                writer.drain = AsyncMock()
                writer.is_closing = MagicMock(return_value=False)
                writer.wait_closed = AsyncMock()
                closed = []
                writer.close = MagicMock(side_effect=lambda: closed.append(True))
                p = IMAPClientProxy(w.server, "t", 1, "127.0.0.1", 1234, reader, writer)
                tags = []
                for n, i in enumerate(inp["commands"]):
                    tag = f"t{n}"
                    tags.append(tag)
                    b = f"{tag} {self.CMDS[i]}\r\n".encode("latin-1")
                    reader.feed_data(b"{%d}\n" % len(b) + b)
                task = asyncio.create_task(p.run())
                try:
                    for _ in range(300):
                        await asyncio.sleep(0.01)
                        if task.done() or all(re.search(rb"(^|\n)" + t.encode() + rb" (OK|NO|BAD) ", bytes(out)) for t in tags):
                            break
                    text = bytes(out).decode("latin-1")
                    got = re.findall(r"(?m)^(t\d+) (OK|NO|BAD) ", text)
                    if [g[0] for g in got] != tags:
                        return f"tagged replies {got} for commands {[self.CMDS[i] for i in inp['commands']]} (connection task ended: {task.done()}, closed: {bool(closed)})"
                    if task.done() or closed:
                        return f"the connection was closed after {got[-1] if got else None}"
                    return None
                finally:
                    if not task.done():
                        task.cancel()
                        try:
                            await task
                        except (asyncio.CancelledError, Exception):
                            pass

        err = asyncio.run(asyncio.wait_for(go(), 60))
        return {"observed": err, "clause": "an unparsable command is answered with BAD and the connection goes on: every command gets exactly one tagged reply, in order"} if err else None
