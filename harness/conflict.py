"""Concrete oracle for Mailbox.would_conflict (C10 admission relation)."""
import itertools

from pyvc.harness import Harness

CONFLICTING = {"append", "check", "close", "delete", "expunge", "move", "rename"}
KNOWN = CONFLICTING | {"copy", "fetch", "noop", "select", "status", "examine", "search", "store"}


def flag_writer(c):
    return c["command"] == "store" or (c["command"] == "fetch" and not c["peek"])


def structure_writer(c, has_deleted):
    return c in {"append", "check", "delete", "move", "rename"} or (c in {"close", "expunge"} and has_deleted)


def must_conflict(n, t, has_deleted):
    return (
        structure_writer(n["command"], has_deleted)
        or t["command"] in CONFLICTING
        or (flag_writer(n) and t["command"] == "search")
        or (n["command"] == "search" and flag_writer(t))
    )


class WouldConflict(Harness):
    scope = "every new command kind x peek bit x message set in {None,{1},{2}}, against every list of <=2 executing commands of every kind/peek/set, Deleted empty or not"
    exhaustive = True

    def cmds(self, kinds):
        for k in kinds:
            for peek in ((True, False) if k == "fetch" else (True,)):
                for s in ((None, [1], [2]) if k in ("fetch", "store", "copy") else (None,)):
                    yield {"command": k, "peek": peek, "set": s}

    def inputs(self, tier, seed):
        kinds = sorted(KNOWN) + ["logout"]
        new = list(self.cmds(kinds))
        ex = list(self.cmds(sorted(KNOWN)))
        for n in new:
            for hd in (False, True):
                yield {"new": n, "executing": [], "has_deleted": hd}
                for t in ex:
                    yield {"new": n, "executing": [t], "has_deleted": hd}
                if tier != "quick" or n["command"] in ("fetch", "store", "search", "copy"):
                    for t1, t2 in itertools.product(ex, repeat=2):
                        if t1["command"] in CONFLICTING or t2["command"] in CONFLICTING:
                            continue
                        yield {"new": n, "executing": [t1, t2], "has_deleted": hd}

    def mk(self, c):
        from asimap.parse import IMAPClientCommand

        x = IMAPClientCommand("a noop")
        x.command = c["command"]
        x.fetch_peek = c["peek"]
        x.msg_set_as_set = set(c["set"]) if c["set"] is not None else None
        return x

    def check(self, inp):
        from harness.seqset import bare_mailbox

        m = bare_mailbox([1, 2])
        if inp["has_deleted"]:
            m.sequences["Deleted"] = {1}
        m.executing_tasks = [self.mk(t) for t in inp["executing"]]
        n = inp["new"]
        try:
            got = m.would_conflict(self.mk(n))
        except RuntimeError:
            ok = inp["executing"] and n["command"] not in KNOWN and not any(t["command"] in CONFLICTING for t in inp["executing"])
            return None if ok else {"observed": "RuntimeError", "clause": "raises only for an unknown command kind with executing tasks"}
        if not got:
            for t in inp["executing"]:
                if must_conflict(n, t, inp["has_deleted"]):
                    return {"observed": "admitted (False)", "clause": f"must not run concurrently with executing {t}"}
        if got and not inp["executing"]:
            return {"observed": "conflict (True)", "clause": "nothing executing => admitted"}
        if got and n["command"] in ("noop", "select", "status", "examine") and not any(t["command"] in CONFLICTING for t in inp["executing"]):
            return {"observed": "conflict (True)", "clause": "read-only status commands are admitted unless a conflicting command executes"}
        return None
