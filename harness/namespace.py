"""Concrete oracle for C17: the mailbox list follows CREATE/DELETE/RENAME/SUBSCRIBE (invariants checked after every step)."""
import os
import random
import re

from pyvc.harness import Harness

from .realsrv import World, run, uids_of

NAMES = ["a", "a/b", "a/b/c", "d", "x y", "d/e"]


def parse_list(lines, kind="LIST"):
    out = []
    for l in lines:
        m = re.match(r'\* %s \(([^)]*)\) "/" (?:"((?:[^"\\]|\\.)*)"|(\S+))\r\n' % kind, l)
        if m:
            out.append((m.group(2) if m.group(2) is not None else m.group(3), set(m.group(1).split())))
    return out


def disk_tree(maildir):
    out = set()
    for d, dirs, files in os.walk(maildir):
        rel = os.path.relpath(d, maildir)
        if rel != ".":
            out.add(rel)
    return out


class Namespace(Harness):
    scope = "seeded random histories of 6 namespace commands (CREATE, DELETE, RENAME, SUBSCRIBE, UNSUBSCRIBE, DELETE \"INBOX\" variants) over names {a, a/b, a/b/c, d, d/e, 'x y'}; 40 (quick) / 200 (thorough) histories, restart in the middle of every 4th"
    exhaustive = False

    def inputs(self, tier, seed):
        r = random.Random(seed)
        n = 40 if tier == "quick" else 200
        for k in range(n):
            hist = []
            for _ in range(6):
                op = r.choice(["CREATE", "CREATE", "DELETE", "RENAME", "SUBSCRIBE", "UNSUBSCRIBE", "DELINBOX"])
                if op == "RENAME":
                    hist.append([op, r.choice(NAMES), r.choice(NAMES + ["r", "a/r"])])
                elif op == "DELINBOX":
                    hist.append(["DELETE", r.choice(['"INBOX"', "inbox", "{5}\r\nInBoX", "/inbox"])])
                else:
                    hist.append([op, r.choice(NAMES)])
            yield {"history": hist, "restart": k % 4 == 3}

    def check(self, inp):
        async def go():
            async with World({"inbox": 2}) as w:
                a = w.session("a")
                await a.cmd("SELECT inbox")

                async def listing(sess):
                    return parse_list(await sess.cmd('LIST "" *')), parse_list(await sess.cmd('LSUB "" *'), "LSUB")

                for i, step in enumerate(inp["history"]):
                    before_list, before_sub = await listing(a)
                    before_disk = disk_tree(w.maildir)
                    # remember message UIDs below a rename source
                    content = {}
                    if step[0] == "RENAME":
                        for nm, at in before_list:
                            if (nm == step[1] or nm.startswith(step[1] + "/")) and "\\Noselect" not in at:
                                s = w.session(f"p{i}{len(content)}")
                                sel = await s.cmd(f'SELECT "{nm}"')
                                if any(" OK " in l for l in sel[-1:]):
                                    content[nm] = uids_of(await s.cmd("UID SEARCH ALL"))
                                    await s.cmd("CLOSE")
                    if step[0] == "RENAME" and "/" in step[2]:
                        parent = step[2].rsplit("/", 1)[0]
                        if parent not in [n for n, _ in before_list]:
                            continue  # known finding F47 (RENAME into a missing parent raises FileNotFoundError): replayed by RenameMissingParent
                    arg = " ".join(x if x.startswith(("{", '"')) else f'"{x}"' for x in step[1:])
                    try:
                        out = await a.cmd(f"{step[0]} {arg}")
                    except Exception as e:
                        return f"step {i} {step}: raised {type(e).__name__}: {e}"
                    tagged = out[-1]
                    ok = " OK " in tagged.split("\r\n")[0][:12] or re.match(r"a\d+ OK", tagged) is not None
                    if inp["restart"] and i == 2:
                        await w.restart()
                        a = w.session(f"r{i}")
                        await a.cmd("SELECT inbox")
                    after_list, after_sub = await listing(a)
                    names = [n for n, _ in after_list]
                    # I6 each name once; I1 INBOX always there
                    if len(names) != len(set(n.lower() if n.lower() == "inbox" else n for n in names)):
                        return f"step {i} {step}: a mailbox is listed twice: {sorted(names)}"
                    if not any(n.lower() == "inbox" for n in names):
                        return f"step {i} {step}: INBOX is no longer listed"
                    if step[0] == "DELETE" and step[1].strip('"').lower().lstrip("/").endswith("inbox") and ok:
                        return f"step {i} {step}: DELETE of INBOX was accepted"
                    # I4 refused command changes nothing
                    if not ok and not (inp["restart"] and i == 2):
                        if sorted(before_list, key=str) != sorted(after_list, key=str) or sorted(before_sub, key=str) != sorted(after_sub, key=str) or before_disk != disk_tree(w.maildir):
                            return f"step {i} {step} was refused ({tagged.strip()}) but the mailbox tree changed: {sorted(set(map(str, before_list)) ^ set(map(str, after_list)))} disk {sorted(before_disk ^ disk_tree(w.maildir))}"
                    # I5 \\HasChildren exactly when an existing mailbox lies below
                    for n, at in after_list:
                        has = any(m.startswith(n + "/") for m in names) if n.lower() != "inbox" else any(m.lower().startswith("inbox/") for m in names)
                        if has != ("\\HasChildren" in at):
                            return f"step {i} {step}: {n!r} attributes {sorted(at)} but has-children is {has} (listed: {sorted(names)})"
                    # I2 deleted leaf is gone
                    if step[0] == "DELETE" and ok:
                        tgt = step[1]
                        for n, at in after_list:
                            if n == tgt and "\\Noselect" not in at:
                                return f"step {i} {step}: deleted mailbox still listed as selectable"
                    # I3 rename moves the subtree with its UIDs
                    if step[0] == "RENAME" and ok and step[1].lower() != "inbox":
                        old, new = step[1], step[2]
                        if any(n == old or n.startswith(old + "/") for n in names) and not (new == old or new.startswith(old + "/")):
                            return f"step {i} {step}: something is still listed under the old name: {sorted(names)}"
                        for nm, uids in content.items():
                            moved = new + nm[len(old):]
                            s = w.session(f"q{i}{len(moved)}")
                            sel = await s.cmd(f'SELECT "{moved}"')
                            got = uids_of(await s.cmd("UID SEARCH ALL")) if any(re.match(r"q\S+ OK", l) for l in sel[-1:]) else None
                            if got != uids:
                                return f"step {i} {step}: {nm!r} had UIDs {uids}, {moved!r} has {got}"
                return None

        err = run(go(), timeout=240)
        return {"observed": err, "clause": "namespace invariants I1-I6 (see harness docstring)"} if err else None


class RenameMissingParent(Harness):
    """Witness of known finding F47: RENAME to a name whose parent mailbox does not exist."""

    scope = "single witness"

    def inputs(self, tier, seed):
        yield {"src": "x", "dst": "p/q/r"}

    def check(self, inp):
        async def go():
            async with World({"inbox": 1, inp["src"]: 1}) as w:
                a = w.session("a")
                await a.cmd("SELECT inbox")
                try:
                    out = await a.cmd(f'RENAME "{inp["src"]}" "{inp["dst"]}"')
                except Exception as e:
                    return f"raised {type(e).__name__}: {str(e)[:80]}"
                return None if re.match(r"a\d+ (OK|NO) ", out[-1]) else out[-1]

        err = run(go(), timeout=60)
        return {"observed": err, "clause": "RENAME is answered with OK (creating the superior names) or NO, not with an unhandled exception"} if err else None


class RenameSubtree(Harness):
    """C17 (c): RENAME moves a mailbox and its whole subtree with messages, UIDs and flags -- checked by reading the messages back."""

    scope = "tree proj(2 msgs)/sub(3)/deep(1) + other(1); RENAME of the root, of the middle node and of a leaf to new names; every message of the subtree is fetched by UID before and after (subject, flags), then a message is appended to each moved mailbox and must land in its own directory"
    exhaustive = False

    def inputs(self, tier, seed):
        for src, dst in (("proj", "work"), ("proj/sub", "proj/moved"), ("proj/sub/deep", "leaf"), ("proj/sub", "other/in"), ("proj", "other/p")):
            yield {"src": src, "dst": dst}

    def check(self, inp):
        async def snapshot(w, name, tag):
            s = w.session(tag)
            sel = await s.cmd(f'SELECT "{name}"')
            if not any(re.match(r"\S+ OK", l) for l in sel[-1:]):
                return None
            uids = uids_of(await s.cmd("UID SEARCH ALL"))
            out = {}
            for u in uids:
                try:
                    f = "".join(await s.cmd(f"UID FETCH {u} (FLAGS BODY.PEEK[HEADER.FIELDS (SUBJECT)])"))
                except Exception as e:  # noqa: BLE001
                    out[u] = f"<unreadable: {type(e).__name__}: {e}>"
                    s = w.session(tag + "x")
                    await s.cmd(f'SELECT "{name}"')
                    continue
                m = re.search(r"[Ss]ubject: ([^\r\n]*)", f)
                fl = re.search(r"FLAGS \(([^)]*)\)", f)
                out[u] = ((m.group(1).strip() if m else "<no subject>"), sorted(x for x in (fl.group(1).split() if fl else []) if x != "\\Recent"))
            await s.cmd("CLOSE")
            return out

        async def go():
            tree = {"inbox": 1, "proj": 2, "proj/sub": 3, "proj/sub/deep": 1, "other": 1}
            async with World(tree) as w:
                a = w.session("a")
                await a.cmd("SELECT inbox")
                # distinguishable flags
                b = w.session("b")
                await b.cmd('SELECT "proj/sub"'); await b.cmd("STORE 2 +FLAGS (\\Flagged kw)"); await b.cmd("CLOSE")
                src, dst = inp["src"], inp["dst"]
                members = [n for n in tree if n == src or n.startswith(src + "/")]
                before = {}
                for i, n in enumerate(members):
                    before[n] = await snapshot(w, n, f"s{i}")
                out = await a.cmd(f'RENAME "{src}" "{dst}"')
                if not re.match(r"\S+ OK", out[-1]):
                    return f"RENAME {src} {dst} refused: {out[-1].strip()}"
                for i, n in enumerate(members):
                    moved = dst + n[len(src):]
                    after = await snapshot(w, moved, f"t{i}")
                    if after != before[n]:
                        return f"{n!r} -> {moved!r}: messages before {before[n]} after {after}"
                    c = w.session(f"c{i}")
                    r = await c.cmd(f'APPEND "{moved}" {{28}}\r\nSubject: appended\r\n\r\nbody\r\n\r\n')
                    if not re.match(r"\S+ OK", r[-1]):
                        return f"APPEND to moved mailbox {moved!r} refused: {r[-1].strip()}"
                    files = sorted(p.name for p in (w.maildir / moved).iterdir() if p.name.isdigit())
                    if len(files) != len(before[n]) + 1:
                        return f"after APPEND to {moved!r} its directory holds {files} (had {len(before[n])} messages)"
                return None

        err = run(go(), timeout=120)
        return {"observed": err, "clause": "RENAME moves a mailbox and its whole subtree with messages, UIDs and flags"} if err else None


def ref_list_match(pattern: str, name: str) -> bool:
    """RFC 3501 6.3.8: '*' matches zero or more characters, '%' zero or more characters other than the hierarchy delimiter."""
    from functools import lru_cache

    @lru_cache(None)
    def m(i, j):
        if i == len(pattern):
            return j == len(name)
        c = pattern[i]
        if c == "*":
            return any(m(i + 1, k) for k in range(j, len(name) + 1))
        if c == "%":
            k = j
            while True:
                if m(i + 1, k):
                    return True
                if k < len(name) and name[k] != "/":
                    k += 1
                else:
                    return False
        return j < len(name) and name[j] == c and m(i + 1, j + 1)

    return m(0, 0)


class ListPatterns(Harness):
    """C17 (e): LIST/LSUB wildcards -- the regular expression the server builds from a pattern against an independent matcher."""

    scope = "every pattern over {a, b, /, %, *} up to length 4 (quick) / 5 (thorough) that os.path.normpath leaves unchanged, against every name over {a, b, /} up to length 4 without empty components"
    exhaustive = True

    def inputs(self, tier, seed):
        yield {"max_len": 4 if tier == "quick" else 5}

    def check(self, inp):
        import itertools

        from asimap.mbox import Mailbox

        names = ["".join(t) for n in range(1, 5) for t in itertools.product("ab/", repeat=n)]
        names = [n for n in names if not n.startswith("/") and not n.endswith("/") and "//" not in n]
        for n in range(1, inp["max_len"] + 1):
            for t in itertools.product("ab/%*", repeat=n):
                pat = "".join(t)
                if pat.startswith("/") or os.path.normpath(pat) != pat:
                    continue
                rx = re.compile(Mailbox._mbox_pattern_to_re("", pat))
                for name in names:
                    got = rx.search(name) is not None
                    want = ref_list_match(pat, name)
                    if got != want:
                        return {"observed": {"pattern": pat, "name": name, "server_matches": got, "rfc_matches": want, "regex": rx.pattern},
                                "clause": "LIST and LSUB wildcards match exactly the names RFC 3501 says"}
        return None


class RenameThenCreate(Harness):
    """C17 (c) 'RENAME ... leaves nothing under the old name': a mailbox created again under the old name is a new, empty mailbox,
    listed next to the renamed one, and the renamed one keeps its messages.  Also RENAME INBOX with gaps in the MH keys: flags stay
    with their messages."""

    scope = "CREATE old (1-2 messages appended), RENAME old new, CREATE old again, LIST, SELECT both; for 4 name pairs incl. a nested one; RENAME INBOX x after an EXPUNGE of a middle message with 3 different flag layouts"
    exhaustive = False

    def inputs(self, tier, seed):
        for old, new in (("proj", "archive"), ("proj", "deep/archive"), ("a/b", "a/c"), ("x", "y")):
            yield {"kind": "recreate", "old": old, "new": new}
        for flags in (["\\Flagged", "", "\\Answered"], ["", "\\Deleted \\Seen", ""], ["kw1", "\\Flagged kw2", "\\Draft"]):
            yield {"kind": "inbox", "flags": flags}

    def check(self, inp):
        msg = "Subject: s%d\r\n\r\nbody\r\n"

        async def subjects(s, name):
            sel = await s.cmd(f"SELECT {name}")
            if " OK " not in sel[-1]:
                return None
            out = {}
            for ln in await s.cmd("UID FETCH 1:* (FLAGS BODY.PEEK[HEADER.FIELDS (SUBJECT)])"):
                m = re.search(r"UID (\d+)", ln)
                sj = re.search(r"Subject: ([^\r\n]+)", ln)
                fl = re.search(r"FLAGS \(([^)]*)\)", ln)
                if m and sj:
                    out[sj.group(1)] = sorted(set((fl.group(1) if fl else "").split()) - {"\\Recent"})
            return out

        async def go():
            async with World({"inbox": 5}) as w:
                a = w.session("a")
                if inp["kind"] == "recreate":
                    old, new = inp["old"], inp["new"]
                    for part in (old, new):
                        if "/" in part:
                            await a.cmd(f"CREATE {part.rsplit('/', 1)[0]}")
                    await a.cmd(f"CREATE {old}")
                    for i in (1, 2):
                        t = msg % i
                        await a.cmd(f"APPEND {old} {{{len(t)}}}\r\n{t}")
                    r = await a.cmd(f"RENAME {old} {new}")
                    if " OK " not in r[-1]:
                        return None  # refused: nothing to check here
                    c = await a.cmd(f"CREATE {old}")
                    lst = [l for l in await a.cmd('LIST "" *') if l.startswith("* LIST")]
                    names = [re.search(r'"/" "?([^"\r]+)"?', l).group(1) for l in lst]
                    got_old, got_new = await subjects(a, old), await subjects(a, new)
                    bad = []
                    if " OK " not in c[-1]:
                        bad.append(f"CREATE {old} after the rename refused: {c[-1].strip()}")
                    if names.count(old) != 1 or names.count(new) != 1:
                        bad.append(f"LIST has {old!r} x{names.count(old)} and {new!r} x{names.count(new)}: {sorted(names)}")
                    if got_old != {}:
                        bad.append(f"the mailbox created again under the old name holds {got_old}")
                    if got_new is None or sorted(got_new) != ["s1", "s2"]:
                        bad.append(f"the renamed mailbox holds {got_new}")
                    return bad or None
                # RENAME INBOX with a gap in the MH keys
                await a.cmd("SELECT inbox")
                await a.cmd("STORE 2 +FLAGS (\\Deleted)")
                await a.cmd("EXPUNGE")
                for pos, fl in zip((2, 3, 4), inp["flags"]):
                    if fl:
                        await a.cmd(f"STORE {pos} +FLAGS ({fl})")
                before = await subjects(a, "inbox")
                r = await a.cmd("RENAME inbox moved")
                if " OK " not in r[-1]:
                    return [f"RENAME inbox refused: {r[-1].strip()}"]
                after = await subjects(a, "moved")
                left = await subjects(a, "inbox")
                bad = []
                if after != before:
                    bad.append(f"flags per message before {before} != after {after}")
                if left:
                    bad.append(f"messages left in the inbox: {left}")
                return bad or None

        bad = run(go(), timeout=90)
        if bad:
            return {"observed": bad, "clause": "RENAME leaves nothing under the old name and keeps every message and flag"}
        return None


class DigitComponent(Harness):
    """A CREATE / RENAME that is answered OK leaves every existing mailbox usable (C17; C11 'every mailbox can be selected'):
    inside an MH folder a sub-folder whose name is all digits is indistinguishable from a message file."""

    scope = "parent mailbox with one appended message; CREATE parent/<digits>, CREATE parent/<digits>/x, RENAME other parent/<digits> (6 names); if answered OK the parent must still SELECT, list its message and accept an APPEND, also after a restart"
    exhaustive = False

    def inputs(self, tier, seed):
        for cmd in ("CREATE archive/2025", "CREATE archive/7", "CREATE archive/2025/q1", "RENAME other archive/2025", "RENAME other archive/12/x", "CREATE archive/20x5"):
            yield {"cmd": cmd}

    def check(self, inp):
        t = "Subject: kept\r\n\r\nbody\r\n"

        async def cmd(s, text):
            try:
                return await s.cmd(text)
            except Exception as e:  # the handler let an exception escape (the client got BAD, the connection task raised)
                s.proxy.take()
                return [f"x BAD (exception escaped the command handler: {type(e).__name__}: {e})"]

        async def usable(s, tag):
            bad = []
            sel = await cmd(s, "SELECT archive")
            if " OK " not in sel[-1]:
                bad.append(f"{tag}: SELECT archive -> {sel[-1].strip()}")
            srch = await cmd(s, "UID SEARCH ALL")
            if uids_of(srch) != [1] and " OK " in sel[-1]:
                bad.append(f"{tag}: UID SEARCH ALL -> {srch}")
            return bad

        async def go():
            async with World({"inbox": 1, "other": 1}) as w:
                a = w.session("a")
                await a.cmd("CREATE archive")
                await a.cmd(f"APPEND archive {{{len(t)}}}\r\n{t}")
                r = await cmd(a, inp["cmd"])
                if " OK " not in r[-1]:
                    return (await usable(a, "after the refused command")) or None
                bad = await usable(a, "after " + inp["cmd"])
                ap = await cmd(a, f"APPEND archive {{{len(t)}}}\r\n{t}")
                if " OK " not in ap[-1]:
                    bad.append(f"APPEND archive -> {ap[-1].strip()}")
                try:
                    await w.restart(find_folders=True)
                    b = w.session("b")
                    sel = await cmd(b, "SELECT archive")
                    if " OK " not in sel[-1]:
                        bad.append(f"after restart: SELECT archive -> {sel[-1].strip()}")
                except Exception as e:  # start-up itself failed
                    bad.append(f"restart failed: {type(e).__name__}: {e}")
                return bad or None

        bad = run(go(), timeout=90)
        if bad:
            return {"observed": bad, "clause": "a namespace command answered OK leaves every existing mailbox selectable and its messages reachable"}
        return None
