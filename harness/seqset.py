"""Concrete oracles for sequence-set interpreters (C15)."""
import itertools

from pyvc.harness import Harness


def bnd(b, mx):
    return mx if b == "*" else b


def denote(S, mx):
    out = set()
    for e in S:
        if e == "*":
            out.add(mx)
        elif isinstance(e, int):
            out.add(e)
        else:
            a, b = bnd(e[0], mx), bnd(e[1], mx)
            out.update(range(min(a, b), max(a, b) + 1))
    return out


def elt_bad(e, mx, uid):
    if e == "*":
        return mx == 0 and not uid
    if isinstance(e, int):
        return e < 1 or (e > mx and not uid)
    a, b = bnd(e[0], mx), bnd(e[1], mx)
    if uid:
        return False
    return (("*" in e) and mx == 0) or a < 1 or b < 1 or a > mx or b > mx


def elements(n):
    atoms = list(range(0, n + 2)) + ["*"]
    return atoms + [(a, b) for a in atoms for b in atoms]


def tolist(S):
    return [list(e) if isinstance(e, tuple) else e for e in S]


def fromlist(S):
    return [tuple(e) if isinstance(e, list) else e for e in S]


class SequenceSetToList(Harness):
    scope = "every set of <=2 elements over 0..N+1 and '*' (numbers, '*', ranges in both orders), N<=3 (quick) / <=3 elements, N<=4 (thorough); uid_cmd in {False, True}"
    exhaustive = True

    def inputs(self, tier, seed):
        maxn, maxlen = (3, 2) if tier == "quick" else (4, 3)
        for n in range(0, maxn + 1):
            els = elements(n)
            for k in range(0, maxlen + 1):
                for S in itertools.product(els, repeat=k):
                    for uid in (False, True):
                        yield {"seq_set": tolist(S), "seq_max": n, "uid_cmd": uid}

    def from_model(self, model):
        try:
            return {"seq_set": tolist(model["seq_set"]["val"]), "seq_max": model["seq_max"]["val"], "uid_cmd": model["uid_cmd"]["val"]}
        except Exception:
            return None

    def check(self, inp):
        from asimap.exceptions import Bad
        from asimap.utils import sequence_set_to_list

        S, mx, uid = fromlist(inp["seq_set"]), inp["seq_max"], inp["uid_cmd"]
        want_bad = any(elt_bad(e, mx, uid) for e in S)
        try:
            got = sequence_set_to_list(S, mx, uid)
        except Bad:
            return None if want_bad else {"observed": "raised Bad", "clause": "raises Bad only if some element must be rejected"}
        except Exception as e:
            return {"observed": f"raised {type(e).__name__}: {e}", "clause": "raises nothing but Bad"}
        if want_bad:
            return {"observed": got, "clause": "raises Bad if some element must be rejected"}
        want = sorted(denote(S, mx))
        if got != want:
            return {"observed": got, "clause": f"result == sorted(denote(S, mx)) == {want}"}
        return None


class _Ctx:
    def __init__(self, msg_number, seq_max, uid=None, uid_max=0):
        self.msg_number, self.seq_max, self._u, self.uid_max = msg_number, seq_max, uid, uid_max

    def uid(self):
        return self._u


class MatchMessageSet(Harness):
    """IMAPSearch._match_message_set == membership in denote(S, seq_max)."""

    scope = "every set of <=2 elements over 0..N+1 and '*', N<=3 (quick) / <=3 elements, N<=4 (thorough), every message number 1..N"
    exhaustive = True
    op, attr = "message_set", "_match_message_set"

    def inputs(self, tier, seed):
        maxn, maxlen = (3, 2) if tier == "quick" else (4, 3)
        for n in range(1, maxn + 1):
            els = elements(n)
            for k in range(0, maxlen + 1):
                for S in itertools.product(els, repeat=k):
                    for num in range(1, n + 1):
                        yield {"msg_set": tolist(S), "mx": n, "num": num}

    def check(self, inp):
        import asyncio

        from asimap.search import IMAPSearch

        S = fromlist(inp["msg_set"])
        s = IMAPSearch(self.op, msg_set=S)
        s.ctx = _Ctx(inp["num"], inp["mx"], uid=inp["num"], uid_max=inp["mx"])
        want = inp["num"] in denote(S, inp["mx"])
        try:
            got = asyncio.run(getattr(s, self.attr)())
        except Exception as e:
            return {"observed": f"raised {type(e).__name__}: {e}", "clause": "raises nothing; result == (number in denote(S, max))"}
        if got != want:
            return {"observed": got, "clause": f"result == (number in denote(S, max)) == {want}"}
        return None


class MatchUid(MatchMessageSet):
    op, attr = "uid", "_match_uid"


def bare_mailbox(uids, msg_keys=None):
    """A Mailbox object with only the list state filled in (no server, no folder)."""
    from collections import defaultdict

    from asimap.mbox import Mailbox

    m = Mailbox.__new__(Mailbox)
    m.name = "verif"
    m.server = type("StubServer", (), {"active_mailboxes": {}})()
    m.uids = list(uids)
    m.msg_keys = list(msg_keys) if msg_keys is not None else list(range(1, len(uids) + 1))
    m.num_msgs = len(m.uids)
    m.sequences = defaultdict(set)
    m._rebuild_index_dicts()
    return m


class MsgSetToSeqSet(Harness):
    scope = "mailboxes of N<=3 messages with UIDs any ascending subset of 1..5; sets of <=2 elements over 0..6 and '*'; UID and non-UID forms"
    exhaustive = True

    def inputs(self, tier, seed):
        maxlen = 2 if tier == "quick" else 3
        for n in range(0, 4):
            for uids in itertools.combinations(range(1, 6), n):
                for uid in (False, True):
                    top = (uids[-1] if uids else 1) if uid else n
                    els = elements(min(top, 4 if tier == "quick" else 5))
                    for k in range(0, maxlen + 1):
                        for S in itertools.product(els, repeat=k):
                            yield {"uids": list(uids), "msg_set": tolist(S), "from_uids": uid}

    def check(self, inp):
        from asimap.exceptions import Bad

        m = bare_mailbox(inp["uids"])
        S, uid = fromlist(inp["msg_set"]), inp["from_uids"]
        uids = inp["uids"]
        mx = (uids[-1] if uids else 1) if uid else len(uids)
        want_bad = any(elt_bad(e, mx, uid) for e in S)
        try:
            got = m.msg_set_to_msg_seq_set(S, uid)
        except Bad:
            return None if want_bad else {"observed": "raised Bad", "clause": "raises Bad only for a number outside 1..N (non-UID) / below 1"}
        except Exception as e:
            return {"observed": f"raised {type(e).__name__}: {e}", "clause": "raises nothing but Bad"}
        if want_bad:
            return {"observed": sorted(got), "clause": "raises Bad for a non-UID number outside 1..N"}
        d = denote(S, mx)
        want = {i + 1 for i, u in enumerate(uids) if u in d} if uid else d
        if got != want:
            return {"observed": sorted(got), "clause": f"result == {sorted(want)} (positions of the denoted messages)"}
        return None
