"""Concrete oracle for C08: parsing is total (only BadCommand escapes) and consumes the whole command."""
import random

from pyvc.harness import Harness

SENTENCES = [
    "NOOP", "CAPABILITY", "LOGOUT", "CHECK", "CLOSE", "EXPUNGE", "IDLE", "NAMESPACE", "UNSELECT",
    "LOGIN user pass", 'LOGIN "us er" "pa\\"ss"', "LOGIN {4}\r\nuser {4+}\r\npass",
    "SELECT inbox", 'SELECT "a b"', "EXAMINE INBOX", "CREATE a/b", "DELETE a", "RENAME a b", "SUBSCRIBE a", "UNSUBSCRIBE a",
    'LIST "" *', 'LIST "" %', 'LIST (SUBSCRIBED) "" "*" RETURN (CHILDREN)', 'LSUB "" *', "STATUS inbox (MESSAGES RECENT UIDNEXT UIDVALIDITY UNSEEN)",
    "APPEND inbox {10}\r\nabcdefghij", 'APPEND inbox (\\Seen kw) "05-Jan-2024 10:00:00 +0000" {3}\r\nabc',
    "FETCH 1 FLAGS", "FETCH 1:* (FLAGS UID RFC822.SIZE INTERNALDATE ENVELOPE BODYSTRUCTURE)", "FETCH 1,3:5 BODY[HEADER.FIELDS (SUBJECT FROM)]",
    "FETCH 2 BODY.PEEK[1.2.TEXT]<0.100>", "FETCH 1 (RFC822 RFC822.HEADER RFC822.TEXT)", "UID FETCH 1:* FAST", "FETCH * ALL",
    "STORE 1 +FLAGS (\\Deleted)", "STORE 1:3 -FLAGS.SILENT (\\Seen kw)", "UID STORE 5 FLAGS (\\Answered)",
    "COPY 1:2 other", "UID COPY 4 other", "MOVE 1 other", "UID MOVE 2:* other", "UID EXPUNGE 1:3",
    "FETCH 0 FLAGS", "UID FETCH 0:* FLAGS", "STORE 2,4:7,0 +FLAGS (\\Seen)", "SEARCH UID 0:5", "UID SEARCH NOT (OR 1:2 0) SEEN", "COPY 00 other",
    "SEARCH ALL", "SEARCH UNSEEN FLAGGED", "SEARCH NOT DELETED", "SEARCH OR SEEN (FLAGGED UNDRAFT)", "SEARCH BEFORE 1-Feb-2020 SINCE 31-Jan-2020",
    "SEARCH ON 31-Feb-2020", 'SEARCH SENTBEFORE "29-Feb-2019"', "SEARCH HEADER subject hello BODY x TEXT y", "SEARCH LARGER 10 SMALLER 20 UID 1:5 2:4",
    "SEARCH KEYWORD kw UNKEYWORD kw2 NEW OLD RECENT", "UID SEARCH CHARSET UTF-8 FROM a TO b CC c BCC d SUBJECT e", 'ID ("name" "x")', "ID NIL",
    'APPEND x "99-Jan-2020 10:00:00 +0000" {1}\r\na', 'APPEND x "31-Feb-2020 25:61:00 +0000" {1}\r\na',
]


def mutations(s, r, n):
    out = []
    for _ in range(n):
        k = r.randrange(5)
        if k == 0 and len(s) > 1:
            out.append(s[: r.randrange(1, len(s))])
        elif k == 1:
            i = r.randrange(len(s) + 1)
            out.append(s[:i] + r.choice(['"', "(", ")", "{", "}", "\\", " ", "*", ":", ",", "\r\n", "\x00", "[", "]", "<", ">", "%"]) + s[i:])
        elif k == 2 and len(s) > 2:
            i = r.randrange(len(s) - 1)
            out.append(s[:i] + s[i + 1:])
        elif k == 3:
            out.append(s + " " + r.choice(["x", "1", "(", "NOT", "{3}\r\nabc"]))
        else:
            i = r.randrange(len(s) + 1)
            out.append(s[:i] + r.choice(SENTENCES)[: r.randrange(1, 12)] + s[i:])
    return out


class Totality(Harness):
    scope = "~60 sentences of the command grammar (all commands, UID forms, nested search keys, sections/partials, LIST-EXTENDED, literals, impossible dates) and 8 (quick) / 60 (thorough) seeded mutations of each; deep NOT-nesting"
    exhaustive = False

    def inputs(self, tier, seed):
        r = random.Random(seed)
        n = 8 if tier == "quick" else 60
        for s in SENTENCES:
            yield {"line": s, "expect": "consumed"}
            for m in mutations(s, r, n):
                yield {"line": m}
        yield {"line": "SEARCH " + "NOT " * 3000 + "SEEN"}
        yield {"line": "SEARCH " + "(" * 3000 + "SEEN" + ")" * 3000}

    def check(self, inp):
        from asimap.parse import BadCommand, IMAPClientCommand

        c = IMAPClientCommand("a1 " + inp["line"] + "\r\n")
        try:
            c.parse()
        except BadCommand:
            return None
        except Exception as e:
            return {"observed": f"{type(e).__name__}: {str(e)[:80]}", "clause": "parse() rejects with a BadCommand (the client gets BAD), never any other failure"}
        # known finding F20 (trailing data after a complete command is silently ignored; the repository's own tests pin
        # `UNSELECT INBOX`): replayed by harness.parser:TrailingData, not reported here
        return None


class TrailingData(Harness):
    """Witness of known finding F20: `a NOOP x` is accepted as NOOP."""

    scope = "single witness"

    def inputs(self, tier, seed):
        yield {"line": "NOOP x"}

    def check(self, inp):
        from asimap.parse import BadCommand, IMAPClientCommand

        c = IMAPClientCommand("a1 " + inp["line"] + "\r\n")
        try:
            c.parse()
        except BadCommand:
            return None
        rest = c.input
        if rest not in ("", "\r\n"):
            return {"observed": {"left": rest[:40]}, "clause": "nothing is left unparsed"}
        return None


class QuotedStrings(Harness):
    """C08: quoted-string escapes are decoded, literals are taken by count (both through the real parser)."""

    scope = "LOGIN u <string> with every text over {a, \", \\, space, {, CR LF} up to length 6 (quick) / 7 (thorough), sent once as an escaped quoted string (texts without CR/LF) and once as a literal"
    exhaustive = True

    def inputs(self, tier, seed):
        yield {"max_len": 6 if tier == "quick" else 7}

    def check(self, inp):
        import itertools

        from asimap.parse import IMAPClientCommand

        alpha = ["a", '"', "\\", " ", "{", "\r\n"]
        for n in range(inp["max_len"] + 1):
            for tup in itertools.product(alpha, repeat=n):
                text = "".join(tup)
                forms = [f"a LOGIN u {{{len(text)}}}\r\n{text}", f"a LOGIN u {{{len(text)}+}}\r\n{text}"]
                if "\r\n" not in text:
                    forms.append('a LOGIN u "' + text.replace("\\", "\\\\").replace('"', '\\"') + '"')
                for line in forms:
                    c = IMAPClientCommand(line + "\r\n")
                    try:
                        c.parse()
                    except Exception as e:  # noqa: BLE001
                        return {"observed": {"line": line, "error": repr(e)}, "clause": "a well-formed string argument is accepted"}
                    if c.password != text:
                        return {"observed": {"line": line, "password": c.password, "expected": text}, "clause": "quoted-string escapes are decoded / literals are taken by count"}
        return None


class FetchAtts(Harness):
    """C08: fetch attributes (sections, partials, .PEEK, RFC822 forms) are decoded faithfully -- every sentence of a small
    generated grammar is parsed by the real parser and compared, component by component, with an independent reading."""

    scope = ("FETCH 1 <att> and FETCH 1 (<att> <att>) for att in {BODY, BODY.PEEK} x 11 sections x {no partial, <0.10>, <5.1>, <100.50>} x 3 letter cases, "
             "plus RFC822, RFC822.HEADER/.TEXT/.SIZE, BODY, BODYSTRUCTURE, UID, FLAGS, INTERNALDATE, ENVELOPE")
    exhaustive = True

    SECTIONS = ["", "HEADER", "TEXT", "1", "1.2", "1.MIME", "2.HEADER", "1.2.TEXT", "HEADER.FIELDS (From To)", "HEADER.FIELDS.NOT (Subject)", "3.HEADER.FIELDS (Date)"]
    PARTIALS = [None, (0, 10), (5, 1), (100, 50)]

    @staticmethod
    def expected_section(sec):
        out = []
        if not sec:
            return out
        head, _, flds = sec.partition(" ")
        parts = head.split(".")
        i = 0
        while i < len(parts) and parts[i].isdigit():
            out.append(int(parts[i]))
            i += 1
        name = ".".join(parts[i:]).lower()
        if name.startswith("header.fields"):
            out.append((name, [f.lower() for f in flds.strip("()").split()]))
        elif name:
            out.append(name)
        return out

    def inputs(self, tier, seed):
        for peek in (False, True):
            for sec in self.SECTIONS:
                for part in self.PARTIALS:
                    for case in ("upper", "lower", "title"):
                        yield {"peek": peek, "section": sec, "partial": part, "case": case}
        for simple in ("RFC822", "RFC822.HEADER", "RFC822.TEXT", "RFC822.SIZE", "BODY", "BODYSTRUCTURE", "UID", "FLAGS", "INTERNALDATE", "ENVELOPE"):
            yield {"simple": simple}

    def check(self, inp):
        from asimap.parse import IMAPClientCommand

        def norm(section):
            out = []
            for e in section or []:
                if isinstance(e, tuple):
                    out.append((str(e[0]).lower(), [str(f).lower() for f in e[1]]))
                elif isinstance(e, int):
                    out.append(e)
                else:
                    out.append(str(e).lower())
            return out

        if "simple" in inp:
            s = inp["simple"]
            c = IMAPClientCommand(f"a FETCH 1 {s}\r\n")
            c.parse()
            a = c.fetch_atts[0]
            want = {"RFC822": ("body", [], False), "RFC822.HEADER": ("body", ["header"], True), "RFC822.TEXT": ("body", ["text"], False),
                    "RFC822.SIZE": ("rfc822.size", None, False), "BODY": ("bodystructure", None, False), "BODYSTRUCTURE": ("bodystructure", None, False),
                    "UID": ("uid", None, False), "FLAGS": ("flags", None, False), "INTERNALDATE": ("internaldate", None, False), "ENVELOPE": ("envelope", None, False)}[s]
            got = (str(a.attribute), None if a.section is None else norm(a.section), bool(a.peek))
            if got != want or a.partial is not None:
                return {"observed": {"line": s, "got": repr(got), "partial": a.partial}, "clause": "fetch attributes are decoded faithfully"}
            return None
        word = "BODY.PEEK" if inp["peek"] else "BODY"
        sec = inp["section"]
        word, sec = {"upper": (word, sec), "lower": (word.lower(), sec.lower()), "title": (word.title(), sec.title())}[inp["case"]]
        att = f"{word}[{sec}]" + (f"<{inp['partial'][0]}.{inp['partial'][1]}>" if inp["partial"] else "")
        for line in (f"a FETCH 1 {att}\r\n", f"a UID FETCH 1:* (FLAGS {att})\r\n"):
            c = IMAPClientCommand(line)
            try:
                c.parse()
            except Exception as e:  # noqa: BLE001
                return {"observed": {"line": line, "error": repr(e)}, "clause": "a valid fetch attribute is accepted"}
            a = c.fetch_atts[-1]
            want_partial = tuple(inp["partial"]) if inp["partial"] else None
            problems = []
            if str(a.attribute) != "body":
                problems.append(f"attribute {a.attribute}")
            if bool(a.peek) != inp["peek"]:
                problems.append(f"peek {a.peek}")
            if (tuple(a.partial) if a.partial else None) != want_partial:
                problems.append(f"partial {a.partial}")
            if norm(a.section) != self.expected_section(inp["section"]):
                problems.append(f"section {a.section}")
            # a command made only of FLAGS/UID/.PEEK attributes does not set \Seen
            if bool(c.fetch_peek) != inp["peek"]:
                problems.append(f"fetch_peek {c.fetch_peek}")
            if problems:
                return {"observed": {"line": line, "wrong": problems}, "clause": "sections, partials and .PEEK are decoded faithfully"}
        return None


class Terminates(Harness):
    """Parsing never hangs (C08: 'never any other failure, hang or dropped connection'): every command line is accepted or rejected
    within a time that does not blow up with its length.  Each input is parsed in its own interpreter under a wall-clock limit."""

    scope = "24 command lines built from long runs (60-200 characters) that end badly: unterminated quoted strings, a bad escape or a bare CR after a long run, long atoms followed by a stray quote, long digit / set / flag runs, deep-but-legal parentheses; limit 5 s per line (a normal parse takes milliseconds)"
    exhaustive = False
    LIMIT = 5

    def inputs(self, tier, seed):
        a, n = "a" * 60, "a" * 200
        lines = [
            f'A LOGIN fred "{a}', f'A LOGIN fred "{n}', f'A LOGIN fred "{a}\\x"', f'A LOGIN fred "{a}\ra"', f'A LOGIN "{a}" "{a}',
            f'A SELECT "{a}', f'A SELECT {a}"', f'A CREATE "{a}\\', f'A LIST "" "{a}', f'A STATUS "{a} (MESSAGES)',
            f'A SEARCH SUBJECT "{a}', f'A SEARCH HEADER X "{a}" "{a}', f'A SEARCH OR OR OR SUBJECT "{a}" TEXT "{a}', f'A FETCH 1 (BODY[HEADER.FIELDS ("{a})])',
            f'A STORE 1 +FLAGS (\\{a} "{a})', f'A APPEND "{a} ()', f'A UID FETCH {"1," * 100}x FLAGS', f'A FETCH {"1:2," * 60} (FLAGS', f'A SEARCH {"(" * 40}ALL',
            f'A ID ("{a}" "{a}', f'A ID ("{a}" nil "{a}', f'A RENAME "{a}" "{a}', f'A COPY 1 "{a}', f'A LSUB "{a}" "{a}',
        ]
        for ln in lines:
            yield {"line": ln}

    def check(self, inp):
        import os, subprocess, sys, time

        repo = os.environ.get("PYVC_REPO", "/repo")
        code = ("import sys; sys.path.insert(0, %r)\n"
                "from asimap.parse import IMAPClientCommand, BadCommand\n"
                "c = IMAPClientCommand(sys.argv[1] + '\\r\\n')\n"
                "try:\n    c.parse()\nexcept BadCommand:\n    pass\n" % repo)
        t0 = time.time()
        try:
            r = subprocess.run([sys.executable, "-c", code, inp["line"]], capture_output=True, text=True, timeout=self.LIMIT)
        except subprocess.TimeoutExpired:
            return {"observed": f"parse() still running after {self.LIMIT} s", "clause": "parsing a command line terminates promptly (accept, or reject with BAD)"}
        if r.returncode != 0:
            return {"observed": (r.stderr or "")[-300:], "clause": "parse() lets only BadCommand escape"}
        return None
