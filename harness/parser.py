"""Concrete oracle for C08: parsing is total (only BadCommand escapes) and consumes the whole command."""
import random

from pyvc.harness import Harness

SENTENCES = [
    "NOOP", "CAPABILITY", "LOGOUT", "CHECK", "CLOSE", "EXPUNGE", "IDLE", "NAMESPACE", "UNSELECT",
    "LOGIN user pass", 'LOGIN "us er" "pa\\"ss"', "LOGIN {4}\r\nuser {4+}\r\npass",
    "SELECT inbox", 'SELECT "a b"', "EXAMINE INBOX", "CREATE a/b", "DELETE a", "RENAME a b", "SUBSCRIBE a", "UNSUBSCRIBE a",
    'LIST "" *', 'LIST "" %', 'LIST (SUBSCRIBED) "" "*" RETURN (CHILDREN)', 'LSUB "" *', "STATUS inbox (MESSAGES RECENT UIDNEXT UIDVALIDITY UNSEEN)",
    "APPEND inbox {10}\r\nabcdefghij", 'APPEND inbox (\\Seen kw) "05-Jan-2024 10:00:00 +0000" {3}\r\nabc',
    "FETCH 1 FLAGS", "FETCH 1:* (FLAGS UID RFC822.SIZE INTERNALDATE ENVELOPE BODYSTRUCTURE)", "FETCH 1,3:5 BODY[HEADER.FIELDS (SUBJECT FROM)]",
    "FETCH 2 BODY.PEEK[1.2.TEXT]<0.100>", "FETCH 1 (RFC822 RFC822.HEADER RFC822.TEXT)", "UID FETCH 1:* FAST", "FETCH * ALL",
    "STORE 1 +FLAGS (\\Deleted)", "STORE 1:3 -FLAGS.SILENT (\\Seen kw)", "UID STORE 5 FLAGS (\\Answered)",
    "COPY 1:2 other", "UID COPY 4 other", "MOVE 1 other", "UID MOVE 2:* other", "UID EXPUNGE 1:3",
    "SEARCH ALL", "SEARCH UNSEEN FLAGGED", "SEARCH NOT DELETED", "SEARCH OR SEEN (FLAGGED UNDRAFT)", "SEARCH BEFORE 1-Feb-2020 SINCE 31-Jan-2020",
    "SEARCH ON 31-Feb-2020", 'SEARCH SENTBEFORE "29-Feb-2019"', "SEARCH HEADER subject hello BODY x TEXT y", "SEARCH LARGER 10 SMALLER 20 UID 1:5 2:4",
    "SEARCH KEYWORD kw UNKEYWORD kw2 NEW OLD RECENT", "UID SEARCH CHARSET UTF-8 FROM a TO b CC c BCC d SUBJECT e", 'ID ("name" "x")', "ID NIL",
    'APPEND x "99-Jan-2020 10:00:00 +0000" {1}\r\na', 'APPEND x "31-Feb-2020 25:61:00 +0000" {1}\r\na',
]


def mutations(s, r, n):
    out = []
    for _ in range(n):
        k = r.randrange(5)
        if k == 0 and len(s) > 1:
            out.append(s[: r.randrange(1, len(s))])
        elif k == 1:
            i = r.randrange(len(s) + 1)
            out.append(s[:i] + r.choice(['"', "(", ")", "{", "}", "\\", " ", "*", ":", ",", "\r\n", "\x00", "[", "]", "<", ">", "%"]) + s[i:])
        elif k == 2 and len(s) > 2:
            i = r.randrange(len(s) - 1)
            out.append(s[:i] + s[i + 1:])
        elif k == 3:
            out.append(s + " " + r.choice(["x", "1", "(", "NOT", "{3}\r\nabc"]))
        else:
            i = r.randrange(len(s) + 1)
            out.append(s[:i] + r.choice(SENTENCES)[: r.randrange(1, 12)] + s[i:])
    return out


class Totality(Harness):
    scope = "~60 sentences of the command grammar (all commands, UID forms, nested search keys, sections/partials, LIST-EXTENDED, literals, impossible dates) and 8 (quick) / 60 (thorough) seeded mutations of each; deep NOT-nesting"
    exhaustive = False

    def inputs(self, tier, seed):
        r = random.Random(seed)
        n = 8 if tier == "quick" else 60
        for s in SENTENCES:
            yield {"line": s, "expect": "consumed"}
            for m in mutations(s, r, n):
                yield {"line": m}
        yield {"line": "SEARCH " + "NOT " * 3000 + "SEEN"}
        yield {"line": "SEARCH " + "(" * 3000 + "SEEN" + ")" * 3000}

    def check(self, inp):
        from asimap.parse import BadCommand, IMAPClientCommand

        c = IMAPClientCommand("a1 " + inp["line"] + "\r\n")
        try:
            c.parse()
        except BadCommand:
            return None
        except Exception as e:
            return {"observed": f"{type(e).__name__}: {str(e)[:80]}", "clause": "parse() rejects with a BadCommand (the client gets BAD), never any other failure"}
        # known finding F20 (trailing data after a complete command is silently ignored; the repository's own tests pin
        # `UNSELECT INBOX`): replayed by harness.parser:TrailingData, not reported here
        return None


class TrailingData(Harness):
    """Witness of known finding F20: `a NOOP x` is accepted as NOOP."""

    scope = "single witness"

    def inputs(self, tier, seed):
        yield {"line": "NOOP x"}

    def check(self, inp):
        from asimap.parse import BadCommand, IMAPClientCommand

        c = IMAPClientCommand("a1 " + inp["line"] + "\r\n")
        try:
            c.parse()
        except BadCommand:
            return None
        rest = c.input
        if rest not in ("", "\r\n"):
            return {"observed": {"left": rest[:40]}, "clause": "nothing is left unparsed"}
        return None
