"""Concrete oracles for Mailbox operations on a real MH folder (C05, C03, C02, C13)."""
import itertools
import mailbox

from pyvc.harness import Harness

from .realsrv import World, run


class Expunge(Harness):
    scope = "real 5-message folder whose first message was expunged (uids 2..5, keys 2..5); Deleted in subsets of size<=2; uid_msg_set in {None, [], [u], [u,v], [99]}; check_deleted in {True, False}"
    exhaustive = True

    def inputs(self, tier, seed):
        uids = [2, 3, 4, 5]
        dsets = [[]] + [[u] for u in uids[:3]] + [[2, 3], [3, 5]]
        args = [None, [], [3], [2, 4], [99], [5, 3]]
        for d in dsets:
            for a in args:
                for cd in (True, False):
                    yield {"deleted": d, "uid_msg_set": a, "check_deleted": cd}

    def check(self, inp):
        async def go():
            async with World({"inbox": 5}) as w:
                a = w.session("a")
                await a.cmd("SELECT inbox")
                await a.cmd("STORE 1 +FLAGS (\\Deleted)")
                await a.cmd("EXPUNGE")
                for u in inp["deleted"]:
                    await a.cmd(f"UID STORE {u} +FLAGS (\\Deleted \\Flagged)")
                mbox = a.h.mbox
                before = list(zip(mbox.msg_keys, mbox.uids))
                next_uid = mbox.next_uid
                await mbox.expunge(inp["uid_msg_set"], inp["check_deleted"])
                after = list(zip(mbox.msg_keys, mbox.uids))
                disk = sorted(int(k) for k in mailbox.MH(str(w.maildir / "inbox")).keys())
                seqs = {s: sorted(v) for s, v in mbox.sequences.items() if v}
                idx_ok = mbox._msg_key_to_idx == {k: i for i, k in enumerate(mbox.msg_keys)} and mbox._uid_to_idx == {u: i for i, u in enumerate(mbox.uids)}
                return before, after, disk, seqs, mbox.next_uid == next_uid, idx_ok, mbox.num_msgs

        before, after, disk, seqs, nu_same, idx_ok, num = run(go())
        L, cd = inp["uid_msg_set"], inp["check_deleted"]
        if cd:
            D = {k for k, u in before if u in inp["deleted"] and (L is None or u in L)}
        else:
            D = {k for k, u in before if L is not None and u in L}
        want = [(k, u) for k, u in before if k not in D]
        if after != want:
            return {"observed": after, "clause": f"(key, uid) pairs == {want}"}
        if disk != [k for k, _ in want]:
            return {"observed": disk, "clause": f"message files on disk == {[k for k, _ in want]}"}
        if any(k in D for ks in seqs.values() for k in ks):
            return {"observed": seqs, "clause": "no sequence mentions a removed key"}
        if not nu_same or not idx_ok or num != len(want):
            return {"observed": [nu_same, idx_ok, num], "clause": "next_uid unchanged, index dicts rebuilt, num_msgs == len"}
        return None


def deliver(maildir, folder, n, unseen=True, extra_seq=None, start=100):
    """What an external MH agent does: add files with the next free numbers, optionally list them in sequences."""
    mh = mailbox.MH(str(maildir / folder))
    from .realsrv import make_message

    keys = []
    for i in range(n):
        keys.append(int(mh.add(make_message(start + i))))
    seqs = mh.get_sequences()
    if unseen:
        seqs.setdefault("unseen", [])
        seqs["unseen"] = sorted(set(seqs["unseen"]) | set(keys))
    if extra_seq:
        seqs.setdefault(extra_seq, [])
        seqs[extra_seq] = sorted(set(seqs[extra_seq]) | set(keys))
    mh.set_sequences(seqs)
    return keys


class Resync(Harness):
    """check_new_msgs_and_flags after external deliveries (C02 allocation, C13 delivery)."""

    scope = "real folder of N in {0,3} messages, optionally after expunging the last / a middle message; 0..2 deliveries, seen or unseen, optionally in a custom sequence"
    exhaustive = True

    def inputs(self, tier, seed):
        for n in (0, 3):
            for pre in ((None,) if n == 0 else (None, "last", "middle")):
                for k in (0, 1, 2):
                    for unseen in (True, False):
                        for extra in (None, "flagged"):
                            yield {"n": n, "pre_expunge": pre, "deliver": k, "unseen": unseen, "extra": extra}

    def check(self, inp):
        async def go():
            async with World({"inbox": inp["n"]}) as w:
                a = w.session("a")
                await a.cmd("SELECT inbox")
                if inp["pre_expunge"]:
                    tgt = 3 if inp["pre_expunge"] == "last" else 2
                    await a.cmd(f"STORE {tgt} +FLAGS (\\Deleted \\Flagged)")
                    await a.cmd("EXPUNGE")
                mbox = a.h.mbox
                before = dict(uids=list(mbox.uids), keys=list(mbox.msg_keys), next_uid=mbox.next_uid, vv=mbox.uid_vv,
                              flags={k: sorted(mbox.msg_sequences(k)) for k in mbox.msg_keys})
                new = deliver(w.maildir, "inbox", inp["deliver"], inp["unseen"], inp["extra"])
                async with mbox.mailbox.lock_folder():
                    changed = await mbox.check_new_msgs_and_flags(optional=False)
                after = dict(uids=list(mbox.uids), keys=list(mbox.msg_keys), next_uid=mbox.next_uid, vv=mbox.uid_vv,
                             flags={k: sorted(mbox.msg_sequences(k)) for k in mbox.msg_keys})
                disk = {s: sorted(v) for s, v in mailbox.MH(str(w.maildir / "inbox")).get_sequences().items()}
                mem = {s: sorted(v) for s, v in mbox.sequences.items() if v}
                return before, new, changed, after, disk, mem

        before, new, changed, after, disk, mem = run(go())
        k = len(new)
        want_uids = before["uids"] + list(range(before["next_uid"], before["next_uid"] + k))
        if after["uids"] != want_uids or after["keys"] != before["keys"] + new:
            return {"observed": after, "clause": f"uids == {want_uids}, keys == old + {new}"}
        if after["next_uid"] != before["next_uid"] + k or after["vv"] != before["vv"]:
            return {"observed": after, "clause": "next_uid advances by the number of new messages; uid_vv unchanged"}
        for key in before["keys"]:
            if after["flags"][key] != before["flags"][key]:
                return {"observed": after["flags"], "clause": "flags of existing messages unchanged"}
        for key in new:
            want = {"Recent", "unseen" if inp["unseen"] else "Seen"} | ({inp["extra"]} if inp["extra"] else set())
            if set(after["flags"][key]) != want:
                return {"observed": after["flags"][key], "clause": f"new message flags == {sorted(want)}"}
        if k and disk != mem:
            return {"observed": {"disk": disk, "memory": mem}, "clause": ".mh_sequences equals the in-memory sequences after a resync that found new messages"}
        if bool(changed) != (k > 0):
            return {"observed": changed, "clause": "returns True iff new messages were found"}
        return None
