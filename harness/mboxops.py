"""Concrete oracles for Mailbox operations on a real MH folder (C05, C03, C02, C13)."""
import itertools
import mailbox

from pyvc.harness import Harness

from .realsrv import World, run


class Expunge(Harness):
    scope = "real 5-message folder whose first message was expunged (uids 2..5, keys 2..5); Deleted in subsets of size<=2; uid_msg_set in {None, [], [u], [u,v], [99]}; check_deleted in {True, False}"
    exhaustive = True

    def inputs(self, tier, seed):
        uids = [2, 3, 4, 5]
        dsets = [[]] + [[u] for u in uids[:3]] + [[2, 3], [3, 5]]
        args = [None, [], [3], [2, 4], [99], [5, 3]]
        for d in dsets:
            for a in args:
                for cd in (True, False):
                    yield {"deleted": d, "uid_msg_set": a, "check_deleted": cd}

    def check(self, inp):
        async def go():
            async with World({"inbox": 5}) as w:
                a = w.session("a")
                await a.cmd("SELECT inbox")
                await a.cmd("STORE 1 +FLAGS (\\Deleted)")
                await a.cmd("EXPUNGE")
                for u in inp["deleted"]:
                    await a.cmd(f"UID STORE {u} +FLAGS (\\Deleted \\Flagged)")
                mbox = a.h.mbox
                before = list(zip(mbox.msg_keys, mbox.uids))
                next_uid = mbox.next_uid
                await mbox.expunge(inp["uid_msg_set"], inp["check_deleted"])
                after = list(zip(mbox.msg_keys, mbox.uids))
                disk = sorted(int(k) for k in mailbox.MH(str(w.maildir / "inbox")).keys())
                seqs = {s: sorted(v) for s, v in mbox.sequences.items() if v}
                idx_ok = mbox._msg_key_to_idx == {k: i for i, k in enumerate(mbox.msg_keys)} and mbox._uid_to_idx == {u: i for i, u in enumerate(mbox.uids)}
                return before, after, disk, seqs, mbox.next_uid == next_uid, idx_ok, mbox.num_msgs

        before, after, disk, seqs, nu_same, idx_ok, num = run(go())
        L, cd = inp["uid_msg_set"], inp["check_deleted"]
        if cd:
            D = {k for k, u in before if u in inp["deleted"] and (L is None or u in L)}
        else:
            D = {k for k, u in before if L is not None and u in L}
        want = [(k, u) for k, u in before if k not in D]
        if after != want:
            return {"observed": after, "clause": f"(key, uid) pairs == {want}"}
        if disk != [k for k, _ in want]:
            return {"observed": disk, "clause": f"message files on disk == {[k for k, _ in want]}"}
        if any(k in D for ks in seqs.values() for k in ks):
            return {"observed": seqs, "clause": "no sequence mentions a removed key"}
        if not nu_same or not idx_ok or num != len(want):
            return {"observed": [nu_same, idx_ok, num], "clause": "next_uid unchanged, index dicts rebuilt, num_msgs == len"}
        return None
