"""Concrete oracles for the flag algebra (C04)."""
import itertools

from pyvc.harness import Harness

SYS = {"\\Answered": "replied", "\\Deleted": "Deleted", "\\Draft": "Draft", "\\Flagged": "flagged", "\\Recent": "Recent", "\\Seen": "Seen"}
RESERVED = set(SYS.values()) | {"unseen"}


def snapshot(m):
    return {(s, k) for s, ks in m.sequences.items() for k in ks}


class FlagHelpers(Harness):
    scope = "keys {1,2}; sequences over {Seen, unseen, Recent, flagged, kw}; every initial membership table of key 1 plus key 2 in Seen; every helper and flag / flag list of <=2"
    exhaustive = True
    NAMES = ["Seen", "unseen", "Recent", "flagged", "kw"]

    def inputs(self, tier, seed):
        for bits in itertools.product((0, 1), repeat=len(self.NAMES)):
            init = [[s, 1] for s, b in zip(self.NAMES, bits) if b] + [["Seen", 2], ["kw", 2]]
            for f in self.NAMES:
                yield {"init": init, "op": "add", "flag": f}
                yield {"init": init, "op": "remove", "flag": f}
            for n in range(0, 3):
                for fl in itertools.permutations(["Seen", "flagged", "kw", "unseen"], n):
                    yield {"init": init, "op": "replace", "flags": list(fl)}

    def check(self, inp):
        from harness.seqset import bare_mailbox

        m = bare_mailbox([1, 2])
        for s, k in inp["init"]:
            m.sequences[s].add(k)
        old = snapshot(m)
        key = 1
        if inp["op"] == "add":
            m._help_add_flag(key, inp["flag"])
            f = inp["flag"]
            want = set(old) | {(f, key)}
            if f == "Seen":
                want.discard(("unseen", key))
            if f == "unseen":
                want.discard(("Seen", key))
        elif inp["op"] == "remove":
            m._help_remove_flag(key, inp["flag"])
            f = inp["flag"]
            want = set(old) - {(f, key)}
            if f == "Seen":
                want.add(("unseen", key))
            if f == "unseen":
                want.add(("Seen", key))
        else:
            fl = inp["flags"]
            m._help_replace_flags(key, fl)
            want = {(s, k) for (s, k) in old if k != key}
            want |= {(s, key) for s in fl}
            if "Seen" not in fl:
                want.add(("unseen", key))
            if ("Recent", key) in old:
                want.add(("Recent", key))
        got = snapshot(m)
        if got != want:
            return {"observed": sorted(got), "clause": f"membership table == {sorted(want)}"}
        return None


class FlagMap(Harness):
    scope = "system flags, their case variants, reserved sequence names, and assorted keyword atoms"
    exhaustive = False
    known = {
        "F05": lambda i: i["flag"] in RESERVED,
        "F06": lambda i: i["flag"].lower() in {k.lower() for k in SYS} and i["flag"] not in SYS,
    }

    def inputs(self, tier, seed):
        words = list(SYS) + [k.lower() for k in SYS] + [k.upper() for k in SYS] + sorted(RESERVED)
        words += ["$Forwarded", "Junk", "NonJunk", "seen", "recent", "x", "Replied", "unSeen", "\\Foo", "a.b", "0"]
        for w in words:
            yield {"flag": w}

    def check(self, inp):
        from asimap.constants import flag_to_seq, seq_to_flag

        f = inp["flag"]
        got = flag_to_seq(f)
        if f in SYS:
            if got != SYS[f]:
                return {"observed": got, "clause": f"flag_to_seq({f!r}) == {SYS[f]!r}"}
            if seq_to_flag(got) != f:
                return {"observed": seq_to_flag(got), "clause": "seq_to_flag inverts flag_to_seq on system flags"}
            return None
        # a keyword (or unknown \\-flag): stored under a name that no system flag uses
        if got in RESERVED or f.lower() in {k.lower() for k in SYS}:
            return {"observed": got, "clause": "a client keyword never maps onto a system-flag sequence; system flags are case-insensitive"}
        if got != f:
            return {"observed": got, "clause": "keywords are stored under their own name"}
        return None
