"""Drive the real asimap user server on a scratch maildir (outside /repo and /verif/evidence).

`Session` = one Authenticated handler with a recording fake proxy.  Commands
are real IMAP text lines parsed by the real parser.
"""
from __future__ import annotations

import asyncio
import mailbox
import os
import shutil
import tempfile
from pathlib import Path


def scratch_dir() -> str:
    base = os.environ.get("PYVC_TMP") or tempfile.gettempdir()
    os.makedirs(base, exist_ok=True)
    return tempfile.mkdtemp(prefix="asimap-verif-", dir=base)


def make_message(i: int, body: str | None = None) -> bytes:
    return (
        f"From: sender{i}@example.com\r\nTo: rcpt@example.com\r\nSubject: message {i}\r\n"
        f"Date: Mon, 0{(i % 9) + 1} Jan 2024 10:00:00 +0000\r\nMessage-ID: <m{i}@verif>\r\n\r\n"
        f"{body if body is not None else f'body of message {i}'}\r\n"
    ).encode()


def make_maildir(root: str, folders: dict[str, int | list[bytes]]) -> Path:
    md = Path(root) / "Mail"
    mh = mailbox.MH(str(md), create=True)
    for name, content in folders.items():
        f = mh
        parts = name.split("/")
        for p in parts:
            try:
                f = f.get_folder(p)
            except mailbox.NoSuchMailboxError:
                f = f.add_folder(p)
        msgs = [make_message(i + 1) for i in range(content)] if isinstance(content, int) else content
        for m in msgs:
            f.add(m)
    return md


class FakeProxy:
    def __init__(self, name: str):
        self.name = name
        self.rem_addr = "127.0.0.1"
        self.port = abs(hash(name)) % 50000 + 1024
        self.out: list[str] = []
        self.closed = False

    async def push(self, *data):
        for d in data:
            self.out.append(d.decode("latin-1") if isinstance(d, bytes) else d)

    async def close(self, cancel_reader=True):
        self.closed = True

    def take(self) -> list[str]:
        o, self.out = self.out, []
        return o


class Session:
    def __init__(self, server, name: str):
        from asimap.client import Authenticated

        self.proxy = FakeProxy(name)
        self.h = Authenticated(self.proxy, server)
        self.n = 0

    async def cmd(self, text: str, literal: bytes | None = None) -> list[str]:
        from asimap.parse import IMAPClientCommand

        self.n += 1
        tag = f"{self.proxy.name}{self.n}"
        c = IMAPClientCommand(f"{tag} {text}\r\n")
        c.parse()
        await self.h.command(c)
        return self.proxy.take()


class World:
    """async context: real IMAPUserServer on a scratch maildir."""

    def __init__(self, folders: dict):
        self.folders = folders
        self.root = scratch_dir()
        self.server = None

    async def __aenter__(self):
        import asimap.client
        from asimap.user_server import IMAPUserServer

        # a command that only ends by the watchdog must show up quickly in the harness
        asimap.client.COMMAND_TIMEOUT = int(os.environ.get("PYVC_CMD_TIMEOUT", "4"))

        self.maildir = make_maildir(self.root, self.folders)
        self.server = await IMAPUserServer.new(self.maildir)
        return self

    async def restart(self, find_folders: bool = False):
        from asimap.user_server import IMAPUserServer

        await self.server.shutdown()
        self.server = await IMAPUserServer.new(self.maildir)
        # the real start-up (IMAPUserServer.run) looks for folders it has no row for before it serves any client
        if find_folders:
            await self.server.find_all_folders()

    def session(self, name: str) -> Session:
        return Session(self.server, name)

    async def __aexit__(self, *exc):
        try:
            await asyncio.wait_for(self.server.shutdown(), 10)
        except Exception:
            pass
        shutil.rmtree(self.root, ignore_errors=True)


def run(coro, timeout=60):
    async def _w():
        return await asyncio.wait_for(coro, timeout)

    return asyncio.run(_w())


def uids_of(lines: list[str]) -> list[int]:
    """UIDs from `* SEARCH ...` of a UID SEARCH ALL."""
    for ln in lines:
        if ln.startswith("* SEARCH"):
            return [int(x) for x in ln.split()[2:]]
    return []
