"""Concrete oracle for C16: message data items are mutually consistent (real FETCH on real messages)."""
import glob
import os
import re

from pyvc.harness import Harness

from .realsrv import World, make_message, run

REPO = os.environ.get("PYVC_REPO", "/repo")


def parse_literals(lines):
    """FETCH responses as pushed: returns list of dict item -> bytes/str for each `* n FETCH`."""
    data = "".join(lines).encode("latin-1")
    out = []
    for m in re.finditer(rb"\* (\d+) FETCH \(", data):
        pos = m.end()
        items = {}
        while pos < len(data):
            if data[pos:pos + 1] == b")":
                break
            if data[pos:pos + 1] == b" ":
                pos += 1
                continue
            km = re.match(rb"([A-Z0-9.]+(?:\[[^\]]*\])?(?:<\d+>)?) ", data[pos:])
            if not km:
                break
            key = km.group(1).decode()
            pos += km.end()
            lm = re.match(rb"\{(\d+)\}\r\n", data[pos:])
            if lm:
                n = int(lm.group(1))
                pos += lm.end()
                items[key] = data[pos:pos + n]
                pos += n
            else:
                vm = re.match(rb"(\([^)]*\)|\"[^\"]*\"|[^ )]+)", data[pos:])
                items[key] = vm.group(1)
                pos += vm.end()
        out.append((int(m.group(1)), items))
    return out


def corpus():
    """name -> raw message"""
    msgs = {}
    base = os.path.join(REPO, "asimap/test/fixtures/mhdir")
    for f in sorted(glob.glob(os.path.join(base, "*/*"))):
        if os.path.basename(f).isdigit():
            msgs["fixture:" + os.path.relpath(f, base)] = open(f, "rb").read()
    gen = [make_message(1, ""), make_message(2, "no newline at end").rstrip(b"\r\n"), make_message(3, "lf only\nline2\n").replace(b"\r\n", b"\n"),
           make_message(4, ".dot\r\n..dots\r\n"), make_message(5, "x" * 3000)]
    for i, m in enumerate(gen):
        msgs[f"generated:{i}"] = m
    # the quoting-stress messages of the response-grammar oracle (8-bit, encoded words, folded headers, multipart with message/rfc822)
    for i, (_, raw) in enumerate(tricky_messages()):
        msgs[f"tricky:{i}"] = raw
    return msgs


class BodyFraming(Harness):
    scope = "the repository's fixture corpus (asimap/test/fixtures/mhdir, ~30 messages incl. the 'problems' set) plus 5 generated edge messages and 19 quoting-stress messages; all data items of C16; partials <0.10>, <5.50>, <999999.5>"
    exhaustive = False
    # genuine inconsistencies of the unchanged tree on three fixture messages (known findings; any other message must pass)
    known = {
        "F44": lambda i, bad: i["message"] in ("fixture:one/14", "fixture:problems/2") and bad["clause"] == "all lines end in CRLF",
        "F45": lambda i, bad: i["message"] == "fixture:one/19" and bad["clause"] == "BODY[HEADER] + BODY[TEXT] == BODY[]",
    }

    def inputs(self, tier, seed):
        for name in corpus():
            yield {"message": name}

    def check(self, inp):
        raw = corpus()[inp["message"]]

        async def go():
            async with World({"inbox": [raw], "other": 0}) as w:
                a = w.session("a")
                await a.cmd("SELECT inbox")
                r1 = await a.cmd("FETCH 1 (RFC822.SIZE BODY.PEEK[] BODY.PEEK[HEADER] BODY.PEEK[TEXT] RFC822.HEADER)")
                r2 = await a.cmd("FETCH 1 (BODY.PEEK[]<0.10> BODY.PEEK[]<5.50> BODY.PEEK[]<999999.5>)")
                r3 = await a.cmd("FETCH 1 (BODY.PEEK[])")
                r4 = await a.cmd("FETCH 1 (RFC822 RFC822.TEXT)")
                await a.cmd("COPY 1 other")
                b = w.session("b")
                await b.cmd("SELECT other")
                r5 = await b.cmd("FETCH 1 (BODY.PEEK[])")
                return r1, r2, r3, r4, r5

        r1, r2, r3, r4, r5 = run(go(), timeout=90)

        def one(r):
            p = parse_literals(r)
            return p[0][1] if p else {}

        i1, i2, i3, i4, i5 = one(r1), one(r2), one(r3), one(r4), one(r5)
        full = i1.get("BODY[]")
        if full is None:
            return {"observed": r1[:2], "clause": "BODY[] is returned as a literal"}
        if int(i1.get("RFC822.SIZE", b"-1")) != len(full):
            return {"observed": {"size": i1.get("RFC822.SIZE"), "len": len(full)}, "clause": "RFC822.SIZE == octets of BODY[]"}
        if i1.get("BODY[HEADER]", b"") + i1.get("BODY[TEXT]", b"") != full:
            return {"observed": {"header+text": len(i1.get("BODY[HEADER]", b"")) + len(i1.get("BODY[TEXT]", b"")), "full": len(full)}, "clause": "BODY[HEADER] + BODY[TEXT] == BODY[]"}
        if i1.get("RFC822.HEADER") != i1.get("BODY[HEADER]"):
            return {"observed": "RFC822.HEADER differs", "clause": "RFC822.HEADER == BODY.PEEK[HEADER]"}
        for key, (o, n) in (("BODY[]<0>", (0, 10)), ("BODY[]<5>", (5, 50)), ("BODY[]<999999>", (999999, 5))):
            if i2.get(key) != full[o:o + n]:
                return {"observed": {key: i2.get(key)}, "clause": f"partial <{o}.{n}> is exactly that slice of BODY[]"}
        if i3.get("BODY[]") != full:
            return {"observed": "second fetch differs", "clause": "repeated fetches are byte-identical"}
        if i4.get("RFC822") != full or i4.get("RFC822.TEXT") != i1.get("BODY[TEXT]"):
            return {"observed": "RFC822 / RFC822.TEXT differ from BODY[] / BODY[TEXT]", "clause": "RFC822* equal their BODY[] counterparts"}
        if full.replace(b"\r\n", b"").find(b"\n") >= 0 or full.replace(b"\r\n", b"").find(b"\r") >= 0:
            return {"observed": "bare CR or LF", "clause": "all lines end in CRLF"}
        if i5.get("BODY[]") != full:
            return {"observed": {"copy": len(i5.get("BODY[]", b"")), "orig": len(full)}, "clause": "a COPY returns bytes identical to its source"}
        return None


# ---------------------------------------------------------------------------------------------------------------
# C07 (c, e): strings of ENVELOPE
QUOTED_RE = re.compile(rb'"([^"\\\r\n]|\\[\\"])*"')


def unquote(q: bytes) -> bytes:
    return re.sub(rb"\\(.)", rb"\1", q[1:-1])


class QuoteString(Harness):
    """fetch.quote_string against the quoted-string grammar: all byte strings over a 7-letter alphabet up to a length."""
    scope = "every byte string over {\", \\, CR, LF, a, space, 0xE9} of length <= 5 (quick) / <= 7 (thorough)"
    exhaustive = True

    def inputs(self, tier, seed):
        yield {"max_len": 5 if tier == "quick" else 7}

    def check(self, inp):
        import itertools

        from asimap.fetch import quote_string, quoted_str

        alpha = [b'"', b"\\", b"\r", b"\n", b"a", b" ", b"\xe9"]
        for n in range(inp["max_len"] + 1):
            for tup in itertools.product(alpha, repeat=n):
                v = b"".join(tup)
                q = quote_string(v)
                if quoted_str(v.decode("latin-1")).encode("latin-1") != q:
                    return {"observed": {"value": repr(v), "quoted_str": quoted_str(v.decode("latin-1")), "quote_string": repr(q)}, "clause": "quoted_str (text) and quote_string (bytes) agree"}
                if not QUOTED_RE.fullmatch(q):
                    return {"observed": {"value": repr(v), "result": repr(q)}, "clause": "quote_string yields a well-formed quoted string"}
                if unquote(q) != v.replace(b"\r", b"").replace(b"\n", b""):
                    return {"observed": {"value": repr(v), "result": repr(q)}, "clause": "unquoting gives the value back (CR/LF removed)"}
        return None


def header_values(tier, seed):
    import random

    rnd = random.Random(seed)
    fixed = [
        "", "plain", 'say "hi"', "back\\slash", 'both \\" at once', "folded\r\n line", "bare\nLF", "bare\rCR", "caf\xe9 au lait",
        "日本語", "日本 " * 40, 'quote " and 日本', "=?utf-8?q?already_encoded?=", "trailing\\", '"', "\\", "\\\\\"\"",
        "x" * 300, "é" * 120 + " 世界" * 30,
    ]
    yield from fixed
    alpha = ['"', "\\", "\r", "\n", "a", " ", "\xe9", "世", "?", "=", "_"]
    for _ in range(300 if tier == "quick" else 5000):
        yield "".join(rnd.choice(alpha) for _ in range(rnd.randint(0, 12 if rnd.random() < 0.8 else 120)))


class EnvelopeStrings(Harness):
    scope = "encode_header / header_or_nil on 19 hand-picked header values and 300 (quick) / 5000 (thorough) random ones over quotes, backslashes, CR, LF, 8-bit and non-latin-1 letters"
    exhaustive = False

    def inputs(self, tier, seed):
        for h in header_values(tier, seed):
            yield {"hdr": h}

    def from_model(self, model):
        h = model.get("hdr")
        return {"hdr": h} if isinstance(h, str) else None

    def check(self, inp):
        from email.header import decode_header, make_header
        from email.message import EmailMessage

        from asimap.fetch import encode_header, header_or_nil

        h = inp["hdr"]
        q = encode_header(h)
        if not QUOTED_RE.fullmatch(q):
            return {"observed": {"result": repr(q)}, "clause": "quoted strings contain no raw CR, LF, unescaped double quote or backslash"}
        plain = h.replace("\r", "").replace("\n", "")
        got = unquote(q).decode("latin-1")
        try:
            h.encode("latin-1")
            latin = True
        except UnicodeEncodeError:
            latin = False
        if latin:
            if got != plain:
                return {"observed": {"result": repr(q)}, "clause": "a latin-1 header value is given back verbatim"}
        else:
            try:
                dec = str(make_header(decode_header(got)))
            except Exception as e:  # noqa: BLE001
                dec = f"<undecodable: {e!r}>"
            lossy = h.encode("latin-1", errors="replace").decode("latin-1").replace("\r", "").replace("\n", "")
            same = dec == plain
            if not same and plain != h:
                # email.header turns CR/LF inside the value into white space between encoded words: compare the visible text
                def strip_ws(t):
                    return re.sub(r"[ \t\r\n]+", "", t)
                same = strip_ws(dec) == strip_ws(h)
            if not same and got != lossy:
                return {"observed": {"result": repr(q), "decoded": dec}, "clause": "decoding the string gives back the header value"}
        m = EmailMessage()
        if header_or_nil(m, "subject") != b"NIL":
            return {"observed": "missing field not NIL", "clause": "a missing field is NIL"}
        return None


class NameQuoting(Harness):
    """client.quoted and the LIST line built from it: every name over a small alphabet gives a well-formed quoted string that decodes back."""
    scope = "every mailbox name over {\", \\, a, space, /, 0xE9} of length <= 5 (quick) / <= 7 (thorough): client.quoted and Authenticated._fmt_list_response"
    exhaustive = True

    def inputs(self, tier, seed):
        yield {"max_len": 5 if tier == "quick" else 7}

    def check(self, inp):
        import itertools

        from asimap.client import Authenticated, quoted

        alpha = ['"', "\\", "a", " ", "/", "\xe9"]
        for n in range(inp["max_len"] + 1):
            for tup in itertools.product(alpha, repeat=n):
                name = "".join(tup)
                q = quoted(name).encode("latin-1")
                if not QUOTED_RE.fullmatch(q) or unquote(q).decode("latin-1") != name:
                    return {"observed": {"name": name, "quoted": repr(q)}, "clause": "quoted(name) is a well-formed quoted string that decodes to name"}
                line = Authenticated._fmt_list_response(name, {"\\HasNoChildren"}, None).encode("latin-1")
                if line != b'* LIST (\\HasNoChildren) "/" ' + q + b"\r\n":
                    return {"observed": {"name": name, "line": repr(line)}, "clause": "LIST sends the name as that quoted string"}
        return None


# ---------------------------------------------------------------------------------------------------------------
# C07 (a)-(d): everything a session receives is tokenised by an independent RFC 3501 response tokenizer
def tokenize_responses(data: bytes):
    """Returns None when `data` is a sequence of complete CRLF-terminated responses whose literals have their announced length, whose
    quoted strings contain no raw CR / LF / unescaped quote and whose parentheses balance on every response; else a description."""
    pos, n, depth, line_start = 0, len(data), 0, 0
    while pos < n:
        c = data[pos:pos + 1]
        if c == b'"':
            pos += 1
            while True:
                if pos >= n:
                    return f"unterminated quoted string in response starting at {line_start}: {data[line_start:line_start + 80]!r}"
                d = data[pos:pos + 1]
                if d == b"\\":
                    if data[pos + 1:pos + 2] not in (b"\\", b'"'):
                        return f"bad escape in quoted string at {pos}: {data[max(line_start, pos - 30):pos + 10]!r}"
                    pos += 2
                elif d == b'"':
                    pos += 1
                    break
                elif d in (b"\r", b"\n"):
                    return f"raw CR/LF inside a quoted string at {pos}: {data[max(line_start, pos - 40):pos + 10]!r}"
                else:
                    pos += 1
        elif c == b"{":
            m = re.match(rb"\{(\d+)\}\r\n", data[pos:])
            if not m:
                pos += 1  # a brace inside an atom / text
                continue
            k = int(m.group(1))
            pos += m.end()
            if pos + k > n:
                return f"literal announces {k} octets but only {n - pos} follow"
            pos += k
        elif c == b"(":
            depth += 1
            pos += 1
        elif c == b")":
            depth -= 1
            if depth < 0:
                return f"unbalanced ')' at {pos}: {data[max(line_start, pos - 40):pos + 5]!r}"
            pos += 1
        elif c == b"\r":
            if data[pos:pos + 2] != b"\r\n":
                return f"bare CR at {pos}: {data[max(line_start, pos - 40):pos + 5]!r}"
            if depth != 0:
                return f"response ends with {depth} unclosed '(': {data[line_start:line_start + 120]!r}"
            pos += 2
            line_start = pos
        elif c == b"\n":
            return f"bare LF at {pos}: {data[max(line_start, pos - 40):pos + 5]!r}"
        else:
            pos += 1
    if line_start != n:
        return f"last response is not CRLF-terminated: {data[line_start:line_start + 80]!r}"
    return None


def tricky_messages():
    hdrs = [
        ('Subject', 'plain subject'), ('Subject', 'say "hi" (really)'), ('Subject', 'back\\slash and (paren'), ('Subject', 'unbalanced ) paren " quote'),
        ('Subject', 'caf\xe9 8-bit'), ('Subject', '=?utf-8?b?5pel5pys6Kqe?= encoded'), ('Subject', 'folded\r\n continuation line'), ('Subject', '日本語 ' * 30),
        ('From', '"Doe, John (Jr.)" <john@example.com>'), ('From', 'a"b\\c@example.com'), ('To', 'group: a@x.org, "Q \\" uote" <q@y.org>;'),
        ('To', '(comment) c@z.org, =?iso-8859-1?q?J=F6rg?= <j@d.de>'), ('Cc', 'no-at-sign'), ('Message-ID', '<weird"id(1)@host>'), ('In-Reply-To', '<a@b> <c"d@e>'),
        ('Content-Type', 'text/plain; charset="utf-8"; name="fi\\"le (1).txt"'), ('Content-Disposition', 'attachment; filename="a b (c).txt"'), ('Content-Description', 'desc "quoted" \\ (x)'),
    ]
    for name, val in hdrs:
        base = {"From": "f@example.com", "To": "t@example.com", "Subject": "s", "Date": "Mon, 1 Jan 2024 10:00:00 +0000", "Message-ID": "<m@x>"}
        base[name] = val
        try:
            raw = "".join(f"{k}: {v}\r\n" for k, v in base.items()).encode("utf-8", "surrogateescape") + b"\r\nbody (with) \"chars\"\r\n"
        except UnicodeEncodeError:
            continue
        yield f"{name}: {val[:30]}", raw
    # multipart with odd parameters
    yield "multipart", (b'From: a@b\r\nSubject: mp\r\nMIME-Version: 1.0\r\nContent-Type: multipart/mixed; boundary="b(1)"\r\n\r\n--b(1)\r\nContent-Type: text/plain; name="x\\"y"\r\n\r\nhello\r\n'
                        b'--b(1)\r\nContent-Type: message/rfc822\r\n\r\nSubject: inner "q" (p)\r\nFrom: i@j\r\n\r\ninner body\r\n--b(1)--\r\n')


class ResponseGrammar(Harness):
    """C07 (a)-(d): every byte a session receives for FETCH ENVELOPE / BODYSTRUCTURE / BODY[] / FLAGS, LIST, LSUB, STATUS and error
    replies, on messages and mailbox names chosen to stress quoting, goes through an independent response tokenizer."""

    scope = "20 messages with quotes, backslashes, parentheses, 8-bit, encoded words, folded lines, groups and comments in their headers and MIME parameters; mailbox names with quote, backslash, parentheses, space and 8-bit letters; FETCH (ENVELOPE BODYSTRUCTURE FLAGS UID RFC822.SIZE BODY.PEEK[HEADER]), LIST, LSUB, STATUS, SELECT, SEARCH, NO and BAD replies"
    exhaustive = False

    def inputs(self, tier, seed):
        for i, (name, _) in enumerate(tricky_messages()):
            yield {"message": i, "what": name}
        yield {"names": True}

    def check(self, inp):
        async def go():
            if inp.get("names"):
                async with World({"inbox": 1}) as w:
                    a = w.session("a")
                    out = []
                    for nm in ['plain', 'with space', 'q"uote', 'back\\slash', 'par(en)s', 'caf\xe9', 'deep/er "x"/y']:
                        q = '"' + nm.replace("\\", "\\\\").replace('"', '\\"') + '"'
                        out += await a.cmd(f"CREATE {q}")
                        out += await a.cmd(f"SUBSCRIBE {q}")
                        out += await a.cmd(f"STATUS {q} (MESSAGES UIDNEXT UNSEEN)")
                    out += await a.cmd('LIST "" *')
                    out += await a.cmd('LSUB "" *')
                    out += await a.cmd('LIST (SUBSCRIBED) "" "*" RETURN (CHILDREN STATUS (MESSAGES))')
                    out += await a.cmd('SELECT "no such"')
                    out += await a.cmd('STATUS "q\\"uote" (BOGUS)') if False else []
                    return "".join(out).encode("latin-1")
            raw = list(tricky_messages())[inp["message"]][1]
            async with World({"inbox": [raw]}) as w:
                a = w.session("a")
                out = await a.cmd("SELECT inbox")
                out += await a.cmd("FETCH 1 (ENVELOPE BODYSTRUCTURE FLAGS UID RFC822.SIZE INTERNALDATE)")
                out += await a.cmd("FETCH 1 (BODY BODY.PEEK[HEADER] BODY.PEEK[TEXT]<0.20>)")
                out += await a.cmd("UID SEARCH SUBJECT \"s\"")
                out += await a.cmd("STORE 1 +FLAGS (kw \\Flagged)")
                out += await a.cmd("FETCH 9 FLAGS")
                return "".join(out).encode("latin-1")

        data = run(go(), timeout=90)
        err = tokenize_responses(data)
        return {"observed": err, "clause": "complete CRLF-terminated responses, literal counts, quoted strings without raw CR/LF/unescaped quote, balanced parentheses"} if err else None


def _has_raw_8bit_header(raw: bytes) -> bool:
    head = raw.split(b"\r\n\r\n", 1)[0].split(b"\n\n", 1)[0]
    return any(c >= 0x80 for c in head)


class AppendRoundTrip(Harness):
    """C16 (h): a message stored with APPEND comes back with the same header fields and the same body content."""

    scope = "the quoting-stress messages and generated edge messages, APPENDed through the real parser as literals (CRLF line ends), then fetched with BODY.PEEK[]: header fields (name, unfolded value) in order and body octets compared"
    exhaustive = False
    # known finding F53: a header field with raw 8-bit octets (not RFC 2047 encoded) is rewritten on the way in
    known = {"F53": lambda i, bad: _has_raw_8bit_header(corpus()[i["message"]]) and bad["clause"] == "returned with the same header fields"}

    def inputs(self, tier, seed):
        for name in corpus():
            if name.startswith(("tricky:", "generated:")):
                yield {"message": name}

    def check(self, inp):
        import email
        import email.policy

        raw = corpus()[inp["message"]]
        raw = re.sub(rb"(?<!\r)\n", b"\r\n", raw)

        async def go():
            from asimap.parse import IMAPClientCommand

            async with World({"inbox": 0}) as w:
                a = w.session("a")
                await a.cmd("SELECT inbox")
                line = b"x1 APPEND inbox {%d}\r\n" % len(raw) + raw + b"\r\n"
                c = IMAPClientCommand(line.decode("latin-1"))
                c.parse()
                await a.h.command(c)
                r = a.proxy.take()
                if not any(" OK " in l for l in r[-1:]):
                    return None, f"APPEND refused: {r[-1:]}"
                out = await a.cmd("FETCH 1 (BODY.PEEK[])")
                p = parse_literals(out)
                return (p[0][1].get("BODY[]") if p else None), None

        got, err = run(go(), timeout=60)
        if err:
            return {"observed": err, "clause": "a well-formed message can be appended"}
        if got is None:
            return {"observed": "no BODY[] literal", "clause": "the appended message can be fetched"}

        def view(b):
            m = email.message_from_bytes(b, policy=email.policy.compat32)
            hdrs = [(k.lower(), re.sub(r"\s+", " ", str(v)).strip()) for k, v in m.items()]
            body = b.split(b"\r\n\r\n", 1)[1] if b"\r\n\r\n" in b else b""
            return hdrs, body.rstrip(b"\r\n")

        h1, b1 = view(raw)
        h2, b2 = view(got)
        if h1 != h2:
            diff = [x for x in h1 if x not in h2][:3], [x for x in h2 if x not in h1][:3]
            return {"observed": {"missing_or_changed": str(diff)[:400]}, "clause": "returned with the same header fields"}
        if b1 != b2:
            return {"observed": {"stored": len(b1), "returned": len(b2)}, "clause": "returned with the same body content"}
        return None
