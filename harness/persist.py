"""Concrete oracles for persistence: orderly restart (C12), codec, crash points in schema migration (C11)."""
import itertools
import os
import re
import shutil
import sqlite3

from pyvc.harness import Harness

from .realsrv import World, run, scratch_dir, uids_of


class Codec(Harness):
    scope = "every subset of 0..12 (8192 lists): expand_sequence(compact_sequence(xs)) == sorted(xs)"
    exhaustive = True

    def inputs(self, tier, seed):
        n = 13 if tier == "quick" else 15
        for mask in range(1 << n):
            yield {"xs": [i for i in range(n) if mask >> i & 1]}

    def check(self, inp):
        from asimap.utils import compact_sequence, expand_sequence

        xs = inp["xs"]
        enc = compact_sequence(xs)
        dec = expand_sequence(enc) if enc else []
        if dec != xs:
            return {"observed": {"encoded": enc, "decoded": dec}, "clause": "expand_sequence(compact_sequence(xs)) == xs"}
        return None


async def observe(sess, names):
    out = {}
    # the listing first: selecting a mailbox activates it, which would give a directory without a database row its row
    lst = sorted(l for l in await sess.cmd('LIST "" *') if l.startswith("* LIST"))
    lsub = sorted(l for l in await sess.cmd('LSUB "" *') if l.startswith("* LSUB"))
    # the property lets a missing SPECIAL-USE mailbox (Drafts, Junk, ...) be created again at start-up: those are not compared
    lst = [l for l in lst if not re.search(r"\\(Archive|Drafts|Junk|Sent|Trash|All|Flagged)\b", l)]
    out["_list"] = sorted(re.sub(r"\\(Marked|Unmarked) ?", "", l) for l in lst)
    out["_lsub"] = sorted(re.sub(r"\\(Marked|Unmarked) ?", "", l) for l in lsub)
    for n in names:
        sel = await sess.cmd(f"SELECT {n}")
        st = {k: re.search(k + r" (\d+)", "".join(sel)) for k in ("UIDVALIDITY", "UIDNEXT")}
        fl = await sess.cmd("UID FETCH 1:* (FLAGS)") if any("EXISTS" in l and not l.startswith("* 0 ") for l in sel) else []
        flags = {}
        for l in fl:
            m = re.match(r"\* \d+ FETCH \(.*", l)
            if m and "UID " in l:
                uid = int(re.search(r"UID (\d+)", l).group(1))
                f = set(re.search(r"FLAGS \(([^)]*)\)", l).group(1).split()) - {"\\Recent"}
                flags[uid] = sorted(f)
        out[n] = {"select_ok": any(" OK " in l for l in sel[-1:]), "vv": st["UIDVALIDITY"] and st["UIDVALIDITY"].group(1), "next": st["UIDNEXT"] and st["UIDNEXT"].group(1), "flags": flags}
    return out


class Restart(Harness):
    """An orderly restart changes nothing a client can see (C12)."""

    scope = "histories of <=3 steps from {expunge middle, expunge last, keyword+flags, flag set and removed again, append, subscribe, delete-parent-to-\\Noselect, delete-parent-and-create-again, create with two missing ancestors, rename, copy} on a 3-folder tree; restart after each step"
    exhaustive = False

    STEPS = ["expunge-mid", "expunge-last", "flags", "unflag", "append", "subscribe", "noselect", "rename", "copy", "recreate", "deep-create"]

    def inputs(self, tier, seed):
        n = 2 if tier == "quick" else 3
        for k in range(1, n + 1):
            for h in itertools.permutations(self.STEPS, k):
                yield {"history": list(h)}

    def check(self, inp):
        async def go():
            async with World({"inbox": 4, "work": 3, "work/sub": 2}) as w:
                # as at a real start-up: the folders that were put on disk behind the server's back get their rows now
                await w.server.find_all_folders()
                a = w.session("a")
                await a.cmd("SELECT inbox")
                names = ["inbox", "work", "work/sub"]
                for i, step in enumerate(inp["history"]):
                    if step == "expunge-mid":
                        await a.cmd("SELECT inbox"); await a.cmd("STORE 2 +FLAGS (\\Deleted)"); await a.cmd("EXPUNGE")
                    elif step == "expunge-last":
                        await a.cmd("SELECT work"); await a.cmd("STORE * +FLAGS (\\Deleted)"); await a.cmd("EXPUNGE")
                    elif step == "flags":
                        await a.cmd("SELECT inbox"); await a.cmd("STORE 1 +FLAGS (\\Seen \\Flagged $Forwarded kw)")
                    elif step == "unflag":
                        # the flag disappears from the mailbox altogether (its sequence becomes empty)
                        await a.cmd("SELECT inbox"); await a.cmd("STORE 1 +FLAGS (\\Flagged kw2)"); await a.cmd("STORE 1:* -FLAGS (\\Flagged kw2 kw)")
                    elif step == "append":
                        await a.cmd("APPEND work (\\Seen) {20}\r\nSubject: x\r\n\r\nbody\r\n\r\n")
                    elif step == "subscribe":
                        await a.cmd("SUBSCRIBE work/sub")
                    elif step == "noselect":
                        await a.cmd("SELECT inbox"); await a.cmd("DELETE work")
                    elif step == "rename":
                        await a.cmd("SELECT inbox"); await a.cmd("RENAME work/sub moved")
                        names = [n if n != "work/sub" else "moved" for n in names]
                    elif step == "recreate":
                        # DELETE of a mailbox with a child keeps it as \\Noselect with a new UIDVALIDITY, which CREATE then reveals
                        await a.cmd("SELECT inbox"); await a.cmd("DELETE work"); await a.cmd("CREATE work")
                    elif step == "deep-create":
                        # one CREATE that makes two missing ancestors as well
                        await a.cmd("CREATE deep/er/leaf")
                        names = names + [n for n in ("deep", "deep/er", "deep/er/leaf") if n not in names]
                    elif step == "copy":
                        await a.cmd("SELECT inbox"); await a.cmd("COPY 1 work/sub" if "work/sub" in names else "COPY 1 moved")
                    await a.cmd("SELECT inbox")
                    before = await observe(a, names)
                    await w.restart(find_folders=True)
                    a = w.session(f"a{i}")
                    after = await observe(a, names)
                    if before != after:
                        diff = {k: (before[k], after[k]) for k in before if before[k] != after.get(k)}
                        return step, diff
                return None

        res = run(go(), timeout=180)
        if res:
            return {"observed": {"after_step": res[0], "diff": str(res[1])[:600]}, "clause": "SELECT/STATUS/UID FETCH FLAGS/LIST/LSUB identical before and after an orderly restart"}
        return None


CHILD = r'''
import asyncio, os, sys
sys.path.insert(0, os.environ["PYVC_REPO"])
import logging; logging.disable(logging.CRITICAL)
import aiosqlite
from asimap.db import Database
kill_at = int(sys.argv[2])
count = [0]
orig = aiosqlite.Connection.execute
def patched(self, *a, **k):
    count[0] += 1
    if kill_at >= 0 and count[0] == kill_at:
        os._exit(9)          # the process dies here: no cleanup code runs
    return orig(self, *a, **k)
aiosqlite.Connection.execute = patched
async def main():
    db = await Database.new(sys.argv[1])
    await db.conn.close()
try:
    asyncio.run(main())
except Exception as e:
    print("FAILED", type(e).__name__, e)
    os._exit(3)
print("STATEMENTS", count[0])
os._exit(0)
'''


class MigrationCrash(Harness):
    """A kill before any SQL statement of first start-up / schema migration must not prevent the next start (C11 a)."""

    scope = "first start-up of an empty mail directory: the process is killed (os._exit) immediately before the k-th SQL statement, for every k; then a normal start must succeed"
    exhaustive = True

    def inputs(self, tier, seed):
        import subprocess, sys
        d = scratch_dir()
        try:
            p = subprocess.run([sys.executable, "-c", CHILD, d, "-1"], capture_output=True, text=True, env=dict(os.environ))
            m = re.search(r"STATEMENTS (\d+)", p.stdout)
            n = int(m.group(1)) if m else 0
        finally:
            shutil.rmtree(d, ignore_errors=True)
        for k in range(1, n + 1):
            yield {"kill_before_statement": k}

    def check(self, inp):
        import subprocess, sys
        d = scratch_dir()
        try:
            env = dict(os.environ)
            subprocess.run([sys.executable, "-c", CHILD, d, str(inp["kill_before_statement"])], capture_output=True, text=True, env=env)
            p = subprocess.run([sys.executable, "-c", CHILD, d, "-1"], capture_output=True, text=True, env=env)
            if p.returncode != 0:
                return {"observed": (p.stdout + p.stderr)[-300:], "clause": "starting again on the same directory succeeds"}
            return None
        finally:
            shutil.rmtree(d, ignore_errors=True)


CRASH_CHILD = r'''
import asyncio, json, os, sys
sys.path.insert(0, os.environ["PYVC_REPO"]); sys.path.insert(0, os.environ["PYVC_ROOT"])
import logging; logging.disable(logging.CRITICAL)
from pathlib import Path
from harness.realsrv import Session, make_message
import re
phase, maildir, spec = sys.argv[1], Path(sys.argv[2]), json.loads(sys.argv[3])
async def observe(server, name):
    s = Session(server, name)
    sel = await s.cmd("SELECT inbox")
    nxt = [int(m.group(1)) for l in sel for m in [re.search(r"UIDNEXT (\d+)", l)] if m]
    vv = [int(m.group(1)) for l in sel for m in [re.search(r"UIDVALIDITY (\d+)", l)] if m]
    srch = await s.cmd("UID SEARCH ALL")
    uids = [int(x) for l in srch if l.startswith("* SEARCH") for x in l.split()[2:]]
    pairs = {}
    text = ""
    for u in uids:
        try:
            f = await asyncio.wait_for(s.cmd(f"UID FETCH {u} (BODY.PEEK[HEADER.FIELDS (SUBJECT)])"), 8)
        except Exception as e:
            pairs[u] = f"<unreadable: {type(e).__name__}>"
            s = Session(server, name + "x" + str(u))
            await s.cmd("SELECT inbox")
            continue
        m = re.search(r"(?:Subject|subject): ([^\r\n]*)", "".join(f))
        pairs[u] = m.group(1).strip() if m else "<unreadable>"
    return {"uidnext": nxt[0] if nxt else None, "uidvalidity": vv[0] if vv else None, "pairs": pairs, "raw": text[:400] if not pairs else ""}
async def main():
    from asimap.user_server import IMAPUserServer
    server = await IMAPUserServer.new(maildir)
    if phase == "before":
        s = Session(server, "a")
        await s.cmd("SELECT inbox")
        await s.cmd("STORE 2 +FLAGS.SILENT (\\Deleted)")
        await s.cmd("EXPUNGE")            # uids 1,3,4 remain; UIDNEXT 5
        obs = await observe(server, "b")
        print("OBS " + json.dumps(obs)); sys.stdout.flush()
        # what an interrupted EXPUNGE / APPEND leaves behind: files removed or added, nothing committed
        inbox = maildir / "inbox"
        keys = sorted(int(p.name) for p in inbox.iterdir() if p.name.isdigit())
        for idx in spec["remove"]:
            (inbox / str(keys[idx])).unlink()
        for j in range(spec["add"]):
            (inbox / str(keys[-1] + 1 + j)).write_bytes(make_message(100 + j))
        os._exit(0)                       # killed: no shutdown, no commit
    obs = await observe(server, "c")
    print("OBS " + json.dumps(obs)); sys.stdout.flush()
    os._exit(0)
asyncio.run(main())
'''


class CrashRecovery(Harness):
    """C11 (mailbox level): a kill that leaves the folder with files removed and/or added but nothing committed never rebinds a UID
    and never lowers UIDNEXT."""

    scope = "inbox with UIDs 1,3,4 (UID 2 expunged, UIDNEXT 5); the process is killed after removing any subset of the 3 message files and adding 0 or 1 new file behind the server's back; restart and compare"
    exhaustive = True

    def inputs(self, tier, seed):
        import itertools

        for r in range(0, 4):
            for rem in itertools.combinations(range(3), r):
                for add in (0, 1):
                    yield {"remove": list(rem), "add": add}

    def check(self, inp):
        import json
        import subprocess
        import sys

        from .realsrv import make_maildir, scratch_dir

        root = scratch_dir()
        try:
            maildir = make_maildir(root, {"inbox": 4})
            env = dict(os.environ, PYVC_ROOT=os.path.dirname(os.path.dirname(os.path.abspath(__file__))))
            env.setdefault("PYVC_REPO", "/repo")

            def child(phase):
                p = subprocess.run([sys.executable, "-c", CRASH_CHILD, phase, str(maildir), json.dumps(inp)], capture_output=True, text=True, env=env, timeout=120)
                m = re.search(r"OBS (.*)", p.stdout)
                if not m:
                    return None, (p.stdout + p.stderr)[-400:]
                return json.loads(m.group(1)), ""

            before, err = child("before")
            if before is None:
                return {"observed": err, "clause": "harness: first run"}
            after, err = child("after")
            if after is None:
                return {"observed": err, "clause": "starting again on the same directory succeeds and the mailbox can be selected"}
            if after["uidvalidity"] == before["uidvalidity"]:
                if after["uidnext"] is None or after["uidnext"] < before["uidnext"]:
                    return {"observed": {"before": before["uidnext"], "after": after["uidnext"]}, "clause": "UIDNEXT is above every revealed UID (never decreases)"}
                for uid, subj in after["pairs"].items():
                    if subj.startswith("<unreadable"):
                        # a listed message whose file is gone (DESIGN 12.4, observation O1): it denotes no message at all, which
                        # none of C11's clauses forbids; what is checked is that no UID denotes a DIFFERENT message
                        continue
                    old = before["pairs"].get(uid)
                    if old is not None and old != subj:
                        return {"observed": {"uid": uid, "was": old, "now": subj}, "clause": "no revealed (UIDVALIDITY, UID) pair denotes a different message"}
                    if old is None and int(uid) < before["uidnext"]:
                        return {"observed": {"uid": uid, "now": subj, "uidnext_before": before["uidnext"]}, "clause": "a UID below the old UIDNEXT is never given to another message"}
            return None
        finally:
            shutil.rmtree(root, ignore_errors=True)


FLAGS_CHILD = r'''
import asyncio, json, os, sys
sys.path.insert(0, os.environ["PYVC_REPO"]); sys.path.insert(0, os.environ["PYVC_ROOT"])
import logging; logging.disable(logging.CRITICAL)
from pathlib import Path
from harness.realsrv import Session
import re
phase, maildir, spec = sys.argv[1], Path(sys.argv[2]), json.loads(sys.argv[3])
async def flags_of(server, tag):
    out = {}
    for box in ("inbox", "work"):
        s = Session(server, tag + box)
        await s.cmd("EXAMINE " + box)
        f = await s.cmd("UID FETCH 1:* FLAGS")
        for m in re.finditer(r"UID (\d+) FLAGS \(([^)]*)\)|FLAGS \(([^)]*)\) UID (\d+)", "".join(f)):
            uid = m.group(1) or m.group(4)
            fl = m.group(2) if m.group(1) else m.group(3)
            out[f"{box}:{uid}"] = sorted(x for x in fl.split() if x != "\\Recent")
    return out
async def main():
    from asimap.user_server import IMAPUserServer
    server = await IMAPUserServer.new(maildir)
    if phase == "before":
        a = Session(server, "a")
        acked = {}
        for box, cmds in spec["steps"]:
            await a.cmd("SELECT " + box)
            for c in cmds:
                r = await a.cmd(c)
                if not any(" OK " in l for l in r[-1:]):
                    print("NOTOK", c, r[-1:])
        if spec.get("observe"):
            print("OBS " + json.dumps(await flags_of(server, "b"))); sys.stdout.flush()
        else:
            print("OBS {}"); sys.stdout.flush()
        os._exit(0)          # killed: no orderly shutdown, and (in the run that is restarted) no further command after the acknowledged ones
    print("OBS " + json.dumps(await flags_of(server, "c"))); sys.stdout.flush()
    os._exit(0)
asyncio.run(main())
'''


class CrashFlags(Harness):
    """C11: acknowledged flag changes persist across a kill -- in every mailbox, not only the one that committed last."""

    scope = "two mailboxes carrying the same flags; histories of 1-3 acknowledged STORE / EXPUNGE steps that set flags and empty whole sequences in one mailbox; kill (no shutdown); restart; all flags of both mailboxes compared"
    exhaustive = False

    STEPS = [
        ("inbox", ["STORE 1 +FLAGS (\\Flagged \\Answered kw)"]),
        ("work", ["STORE 1 +FLAGS (\\Flagged kw)"]),
        ("work", ["STORE 1:* -FLAGS (\\Flagged kw)"]),
        ("inbox", ["STORE 1:* -FLAGS (\\Answered)"]),
        ("work", ["STORE 2 +FLAGS (\\Deleted)", "EXPUNGE"]),
        ("inbox", ["STORE 1:* +FLAGS (\\Seen)"]),
    ]

    def inputs(self, tier, seed):
        import itertools

        n = 3 if tier == "quick" else 4
        for k in range(1, n + 1):
            for h in itertools.permutations(range(len(self.STEPS)), k):
                if k <= 2 or (0 in h and 2 in h):
                    yield {"history": list(h)}

    def check(self, inp):
        import json
        import subprocess
        import sys

        from .realsrv import make_maildir, scratch_dir

        root = scratch_dir()
        try:
            maildir = make_maildir(root, {"inbox": 3, "work": 3})
            env = dict(os.environ, PYVC_ROOT=os.path.dirname(os.path.dirname(os.path.abspath(__file__))))
            env.setdefault("PYVC_REPO", "/repo")
            spec = {"steps": [self.STEPS[i] for i in inp["history"]]}

            def child(phase):
                p = subprocess.run([sys.executable, "-c", FLAGS_CHILD, phase, str(maildir), json.dumps(spec)], capture_output=True, text=True, env=env, timeout=120)
                m = re.search(r"OBS (.*)", p.stdout)
                return (json.loads(m.group(1)) if m else None), (p.stdout + p.stderr)[-400:]

            # what the acknowledged commands amount to: the same history on a twin directory, observed without a kill
            twin_root = scratch_dir()
            try:
                twin = make_maildir(twin_root, {"inbox": 3, "work": 3})
                p = subprocess.run([sys.executable, "-c", FLAGS_CHILD, "before", str(twin), json.dumps({**spec, "observe": True})], capture_output=True, text=True, env=env, timeout=120)
                m = re.search(r"OBS (.*)", p.stdout)
                before = json.loads(m.group(1)) if m else None
                err = (p.stdout + p.stderr)[-400:]
            finally:
                shutil.rmtree(twin_root, ignore_errors=True)
            if before is None:
                return {"observed": err, "clause": "harness: twin run"}
            killed, err = child("before")
            if killed is None:
                return {"observed": err, "clause": "harness: first run"}
            after, err = child("after")
            if after is None:
                return {"observed": err, "clause": "starting again on the same directory succeeds and every mailbox can be selected"}
            if before != after:
                diff = {k: (before.get(k), after.get(k)) for k in set(before) | set(after) if before.get(k) != after.get(k)}
                return {"observed": {"differs": str(diff)[:500]}, "clause": "acknowledged flag changes persist"}
            return None
        finally:
            shutil.rmtree(root, ignore_errors=True)
