"""Concrete oracles for persistence: orderly restart (C12), codec, crash points in schema migration (C11)."""
import itertools
import os
import re
import shutil
import sqlite3

from pyvc.harness import Harness

from .realsrv import World, run, scratch_dir, uids_of


class Codec(Harness):
    scope = "every subset of 0..12 (8192 lists): expand_sequence(compact_sequence(xs)) == sorted(xs)"
    exhaustive = True

    def inputs(self, tier, seed):
        n = 13 if tier == "quick" else 15
        for mask in range(1 << n):
            yield {"xs": [i for i in range(n) if mask >> i & 1]}

    def check(self, inp):
        from asimap.utils import compact_sequence, expand_sequence

        xs = inp["xs"]
        enc = compact_sequence(xs)
        dec = expand_sequence(enc) if enc else []
        if dec != xs:
            return {"observed": {"encoded": enc, "decoded": dec}, "clause": "expand_sequence(compact_sequence(xs)) == xs"}
        return None


async def observe(sess, names):
    out = {}
    for n in names:
        sel = await sess.cmd(f"SELECT {n}")
        st = {k: re.search(k + r" (\d+)", "".join(sel)) for k in ("UIDVALIDITY", "UIDNEXT")}
        fl = await sess.cmd("UID FETCH 1:* (FLAGS)") if any("EXISTS" in l and not l.startswith("* 0 ") for l in sel) else []
        flags = {}
        for l in fl:
            m = re.match(r"\* \d+ FETCH \(.*", l)
            if m and "UID " in l:
                uid = int(re.search(r"UID (\d+)", l).group(1))
                f = set(re.search(r"FLAGS \(([^)]*)\)", l).group(1).split()) - {"\\Recent"}
                flags[uid] = sorted(f)
        out[n] = {"select_ok": any(" OK " in l for l in sel[-1:]), "vv": st["UIDVALIDITY"] and st["UIDVALIDITY"].group(1), "next": st["UIDNEXT"] and st["UIDNEXT"].group(1), "flags": flags}
    lst = sorted(l for l in await sess.cmd('LIST "" *') if l.startswith("* LIST"))
    lsub = sorted(l for l in await sess.cmd('LSUB "" *') if l.startswith("* LSUB"))
    out["_list"] = sorted(re.sub(r"\\(Marked|Unmarked) ?", "", l) for l in lst)
    out["_lsub"] = sorted(re.sub(r"\\(Marked|Unmarked) ?", "", l) for l in lsub)
    return out


class Restart(Harness):
    """An orderly restart changes nothing a client can see (C12)."""

    scope = "histories of <=3 steps from {expunge middle, expunge last, keyword+flags, append, subscribe, delete-parent-to-\\Noselect, rename, copy} on a 3-folder tree; restart after each step"
    exhaustive = False

    STEPS = ["expunge-mid", "expunge-last", "flags", "append", "subscribe", "noselect", "rename", "copy"]

    def inputs(self, tier, seed):
        n = 2 if tier == "quick" else 3
        for k in range(1, n + 1):
            for h in itertools.permutations(self.STEPS, k):
                yield {"history": list(h)}

    def check(self, inp):
        async def go():
            async with World({"inbox": 4, "work": 3, "work/sub": 2}) as w:
                a = w.session("a")
                await a.cmd("SELECT inbox")
                names = ["inbox", "work", "work/sub"]
                for i, step in enumerate(inp["history"]):
                    if step == "expunge-mid":
                        await a.cmd("SELECT inbox"); await a.cmd("STORE 2 +FLAGS (\\Deleted)"); await a.cmd("EXPUNGE")
                    elif step == "expunge-last":
                        await a.cmd("SELECT work"); await a.cmd("STORE * +FLAGS (\\Deleted)"); await a.cmd("EXPUNGE")
                    elif step == "flags":
                        await a.cmd("SELECT inbox"); await a.cmd("STORE 1 +FLAGS (\\Seen \\Flagged $Forwarded kw)")
                    elif step == "append":
                        await a.cmd("APPEND work (\\Seen) {20}\r\nSubject: x\r\n\r\nbody\r\n\r\n")
                    elif step == "subscribe":
                        await a.cmd("SUBSCRIBE work/sub")
                    elif step == "noselect":
                        await a.cmd("SELECT inbox"); await a.cmd("DELETE work")
                    elif step == "rename":
                        await a.cmd("SELECT inbox"); await a.cmd("RENAME work/sub moved")
                        names = [n if n != "work/sub" else "moved" for n in names]
                    elif step == "copy":
                        await a.cmd("SELECT inbox"); await a.cmd("COPY 1 work/sub" if "work/sub" in names else "COPY 1 moved")
                    await a.cmd("SELECT inbox")
                    before = await observe(a, names)
                    await w.restart()
                    a = w.session(f"a{i}")
                    after = await observe(a, names)
                    if before != after:
                        diff = {k: (before[k], after[k]) for k in before if before[k] != after.get(k)}
                        return step, diff
                return None

        res = run(go(), timeout=180)
        if res:
            return {"observed": {"after_step": res[0], "diff": str(res[1])[:600]}, "clause": "SELECT/STATUS/UID FETCH FLAGS/LIST/LSUB identical before and after an orderly restart"}
        return None


CHILD = r'''
import asyncio, os, sys
sys.path.insert(0, os.environ["PYVC_REPO"])
import logging; logging.disable(logging.CRITICAL)
import aiosqlite
from asimap.db import Database
kill_at = int(sys.argv[2])
count = [0]
orig = aiosqlite.Connection.execute
def patched(self, *a, **k):
    count[0] += 1
    if kill_at >= 0 and count[0] == kill_at:
        os._exit(9)          # the process dies here: no cleanup code runs
    return orig(self, *a, **k)
aiosqlite.Connection.execute = patched
async def main():
    db = await Database.new(sys.argv[1])
    await db.conn.close()
try:
    asyncio.run(main())
except Exception as e:
    print("FAILED", type(e).__name__, e)
    os._exit(3)
print("STATEMENTS", count[0])
os._exit(0)
'''


class MigrationCrash(Harness):
    """A kill before any SQL statement of first start-up / schema migration must not prevent the next start (C11 a)."""

    scope = "first start-up of an empty mail directory: the process is killed (os._exit) immediately before the k-th SQL statement, for every k; then a normal start must succeed"
    exhaustive = True

    def inputs(self, tier, seed):
        import subprocess, sys
        d = scratch_dir()
        try:
            p = subprocess.run([sys.executable, "-c", CHILD, d, "-1"], capture_output=True, text=True, env=dict(os.environ))
            m = re.search(r"STATEMENTS (\d+)", p.stdout)
            n = int(m.group(1)) if m else 0
        finally:
            shutil.rmtree(d, ignore_errors=True)
        for k in range(1, n + 1):
            yield {"kill_before_statement": k}

    def check(self, inp):
        import subprocess, sys
        d = scratch_dir()
        try:
            env = dict(os.environ)
            subprocess.run([sys.executable, "-c", CHILD, d, str(inp["kill_before_statement"])], capture_output=True, text=True, env=env)
            p = subprocess.run([sys.executable, "-c", CHILD, d, "-1"], capture_output=True, text=True, env=env)
            if p.returncode != 0:
                return {"observed": (p.stdout + p.stderr)[-300:], "clause": "starting again on the same directory succeeds"}
            return None
        finally:
            shutil.rmtree(d, ignore_errors=True)
