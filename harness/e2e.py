"""End-to-end witnesses on the real server (replays of fixed / known findings)."""
from pyvc.harness import Harness

from .realsrv import World, run, uids_of


class UidExpunge(Harness):
    """UID EXPUNGE removes exactly the \\Deleted messages whose UID is in the set (C05, C15 f)."""

    scope = "5-message mailbox after expunging UID 1 (so UID != sequence number); all Deleted subsets of size<=2 x UID sets {n}, {n:m}, non-existent"
    exhaustive = False

    def inputs(self, tier, seed):
        sets = ["3", "2:3", "77", "4:*", "2,5"]
        dels = [[2], [3], [2, 3], [2, 3, 4, 5], [5]]
        for d in dels:
            for s in sets:
                yield {"deleted": d, "uidset": s}

    def check(self, inp):
        async def go():
            async with World({"inbox": 5}) as w:
                a = w.session("a")
                await a.cmd("SELECT inbox")
                await a.cmd("STORE 1 +FLAGS (\\Deleted)")
                await a.cmd("EXPUNGE")  # now uids 2..5 at positions 1..4
                for u in inp["deleted"]:
                    await a.cmd(f"UID STORE {u} +FLAGS (\\Deleted)")
                before = uids_of(await a.cmd("UID SEARCH ALL"))
                await a.cmd(f"UID EXPUNGE {inp['uidset']}")
                after = uids_of(await a.cmd("UID SEARCH ALL"))
                return before, after

        before, after = run(go())
        mx = before[-1]
        named = set()
        for part in inp["uidset"].split(","):
            if ":" in part:
                x, y = [mx if t == "*" else int(t) for t in part.split(":")]
                named |= set(range(min(x, y), max(x, y) + 1))
            else:
                named.add(mx if part == "*" else int(part))
        want = [u for u in before if not (u in inp["deleted"] and u in named)]
        if after != want:
            return {"observed": {"before": before, "after": after}, "clause": f"remaining UIDs == {want}"}
        return None


class CopyExpansion(Harness):
    """COPY / UID COPY copy exactly the messages the set denotes (C15 e, C05 c)."""

    scope = "source of 5 messages after expunging UID 2 (UIDs 1,3,4,5); sets *, 4:*, 9:*, 2:3, 1,5, 3:1 in UID and sequence form"
    exhaustive = False

    def inputs(self, tier, seed):
        for s in ["*", "4:*", "9:*", "2:3", "1,5", "3:1"]:
            for uid in (True, False):
                yield {"set": s, "uid": uid}

    def check(self, inp):
        import re

        async def go():
            async with World({"inbox": 5, "other": 0}) as w:
                a = w.session("a")
                await a.cmd("SELECT inbox")
                await a.cmd("STORE 2 +FLAGS (\\Deleted)")
                await a.cmd("EXPUNGE")
                uids = uids_of(await a.cmd("UID SEARCH ALL"))
                out = await a.cmd(("UID " if inp["uid"] else "") + f"COPY {inp['set']} other")
                b = w.session("b")
                await b.cmd("SELECT other")
                subj = await b.cmd("FETCH 1:* (BODY.PEEK[HEADER.FIELDS (SUBJECT)])") if not any("NO" in l.split(" ")[1:2] for l in out) else []
                return uids, out, subj

        uids, out, subj = run(go())
        n = len(uids)
        mx = uids[-1] if inp["uid"] else n
        named = set()
        for part in inp["set"].split(","):
            if ":" in part:
                x, y = [mx if t == "*" else int(t) for t in part.split(":")]
                named |= set(range(min(x, y), max(x, y) + 1))
            else:
                named.add(mx if part == "*" else int(part))
        tagged = [l for l in out if re.match(r"^a\d+ ", l)][-1]
        if not inp["uid"] and any(x < 1 or x > n for x in named):
            return None if " BAD" in tagged or " NO" in tagged else {"observed": out, "clause": "non-UID number outside 1..N is rejected"}
        want_uids = [u for u in uids if u in named] if inp["uid"] else [uids[i - 1] for i in sorted(named)]
        # original message i has subject "message i" and got UID i
        got = sorted(int(m.group(1)) for l in subj for m in re.finditer(r"Subject: message (\d+)", l))
        if got != sorted(want_uids):
            return {"observed": {"copied": got, "reply": tagged}, "clause": f"copied exactly the messages with UIDs {sorted(want_uids)}"}
        return None
