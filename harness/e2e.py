"""End-to-end witnesses on the real server (replays of fixed / known findings)."""
from pyvc.harness import Harness

from .realsrv import World, run, uids_of


class UidExpunge(Harness):
    """UID EXPUNGE removes exactly the \\Deleted messages whose UID is in the set (C05, C15 f)."""

    scope = "5-message mailbox after expunging UID 1 (so UID != sequence number); all Deleted subsets of size<=2 x UID sets {n}, {n:m}, non-existent"
    exhaustive = False

    def inputs(self, tier, seed):
        sets = ["3", "2:3", "77", "4:*", "2,5"]
        dels = [[2], [3], [2, 3], [2, 3, 4, 5], [5]]
        for d in dels:
            for s in sets:
                yield {"deleted": d, "uidset": s}

    def check(self, inp):
        async def go():
            async with World({"inbox": 5}) as w:
                a = w.session("a")
                await a.cmd("SELECT inbox")
                await a.cmd("STORE 1 +FLAGS (\\Deleted)")
                await a.cmd("EXPUNGE")  # now uids 2..5 at positions 1..4
                for u in inp["deleted"]:
                    await a.cmd(f"UID STORE {u} +FLAGS (\\Deleted)")
                before = uids_of(await a.cmd("UID SEARCH ALL"))
                await a.cmd(f"UID EXPUNGE {inp['uidset']}")
                after = uids_of(await a.cmd("UID SEARCH ALL"))
                return before, after

        before, after = run(go())
        mx = before[-1]
        named = set()
        for part in inp["uidset"].split(","):
            if ":" in part:
                x, y = [mx if t == "*" else int(t) for t in part.split(":")]
                named |= set(range(min(x, y), max(x, y) + 1))
            else:
                named.add(mx if part == "*" else int(part))
        want = [u for u in before if not (u in inp["deleted"] and u in named)]
        if after != want:
            return {"observed": {"before": before, "after": after}, "clause": f"remaining UIDs == {want}"}
        return None
