"""End-to-end witnesses on the real server (replays of fixed / known findings)."""
import asyncio

from pyvc.harness import Harness

from .realsrv import World, run, uids_of


class UidExpunge(Harness):
    """UID EXPUNGE removes exactly the \\Deleted messages whose UID is in the set (C05, C15 f)."""

    scope = "5-message mailbox after expunging UID 1 (so UID != sequence number); all Deleted subsets of size<=2 x UID sets {n}, {n:m}, non-existent"
    exhaustive = False

    def inputs(self, tier, seed):
        sets = ["3", "2:3", "77", "4:*", "2,5"]
        dels = [[2], [3], [2, 3], [2, 3, 4, 5], [5]]
        for d in dels:
            for s in sets:
                yield {"deleted": d, "uidset": s}

    def check(self, inp):
        async def go():
            async with World({"inbox": 5}) as w:
                a = w.session("a")
                await a.cmd("SELECT inbox")
                await a.cmd("STORE 1 +FLAGS (\\Deleted)")
                await a.cmd("EXPUNGE")  # now uids 2..5 at positions 1..4
                for u in inp["deleted"]:
                    await a.cmd(f"UID STORE {u} +FLAGS (\\Deleted)")
                before = uids_of(await a.cmd("UID SEARCH ALL"))
                await a.cmd(f"UID EXPUNGE {inp['uidset']}")
                after = uids_of(await a.cmd("UID SEARCH ALL"))
                return before, after

        before, after = run(go())
        mx = before[-1]
        named = set()
        for part in inp["uidset"].split(","):
            if ":" in part:
                x, y = [mx if t == "*" else int(t) for t in part.split(":")]
                named |= set(range(min(x, y), max(x, y) + 1))
            else:
                named.add(mx if part == "*" else int(part))
        want = [u for u in before if not (u in inp["deleted"] and u in named)]
        if after != want:
            return {"observed": {"before": before, "after": after}, "clause": f"remaining UIDs == {want}"}
        return None


class CopyExpansion(Harness):
    """COPY / UID COPY copy exactly the messages the set denotes (C15 e, C05 c)."""

    scope = "source of 5 messages after expunging UID 2 (UIDs 1,3,4,5); sets *, 4:*, 9:*, 2:3, 1,5, 3:1 in UID and sequence form"
    exhaustive = False

    def inputs(self, tier, seed):
        for s in ["*", "4:*", "9:*", "2:3", "1,5", "3:1"]:
            for uid in (True, False):
                yield {"set": s, "uid": uid}

    def check(self, inp):
        import re

        async def go():
            async with World({"inbox": 5, "other": 0}) as w:
                a = w.session("a")
                await a.cmd("SELECT inbox")
                await a.cmd("STORE 2 +FLAGS (\\Deleted)")
                await a.cmd("EXPUNGE")
                uids = uids_of(await a.cmd("UID SEARCH ALL"))
                out = await a.cmd(("UID " if inp["uid"] else "") + f"COPY {inp['set']} other")
                b = w.session("b")
                await b.cmd("SELECT other")
                subj = await b.cmd("FETCH 1:* (BODY.PEEK[HEADER.FIELDS (SUBJECT)])") if not any("NO" in l.split(" ")[1:2] for l in out) else []
                return uids, out, subj

        uids, out, subj = run(go())
        n = len(uids)
        mx = uids[-1] if inp["uid"] else n
        named = set()
        for part in inp["set"].split(","):
            if ":" in part:
                x, y = [mx if t == "*" else int(t) for t in part.split(":")]
                named |= set(range(min(x, y), max(x, y) + 1))
            else:
                named.add(mx if part == "*" else int(part))
        tagged = [l for l in out if re.match(r"^a\d+ ", l)][-1]
        if not inp["uid"] and any(x < 1 or x > n for x in named):
            return None if " BAD" in tagged or " NO" in tagged else {"observed": out, "clause": "non-UID number outside 1..N is rejected"}
        want_uids = [u for u in uids if u in named] if inp["uid"] else [uids[i - 1] for i in sorted(named)]
        # original message i has subject "message i" and got UID i
        got = sorted(int(m.group(1)) for l in subj for m in re.finditer(r"Subject: message (\d+)", l))
        if got != sorted(want_uids):
            return {"observed": {"copied": got, "reply": tagged}, "clause": f"copied exactly the messages with UIDs {sorted(want_uids)}"}
        return None


class SearchExact(Harness):
    """SEARCH / UID SEARCH return exactly the matching messages (C14), against a reference evaluator."""

    scope = "6-message mailbox after expunging UID 2; flags Seen/Flagged/Deleted/keyword on fixed subsets; programs of depth<=2 over flag keys, sets, UID sets, sizes, NOT/OR/AND"
    exhaustive = False

    ATOMS = ["ALL", "SEEN", "UNSEEN", "FLAGGED", "UNFLAGGED", "DELETED", "KEYWORD kw", "UNKEYWORD kw", "2:3", "4:*", "3:1", "UID 4:5", "UID 6:*", "UID 1,7",
             "LARGER 200", "SMALLER 200", "NEW", "OLD", "RECENT"]

    def inputs(self, tier, seed):
        for a in self.ATOMS:
            yield {"prog": a}
        for a in self.ATOMS:
            yield {"prog": f"NOT {a}"}
        import random

        r = random.Random(seed)
        pairs = [(a, b) for a in self.ATOMS for b in self.ATOMS]
        r.shuffle(pairs)
        for a, b in pairs[: (40 if tier == "quick" else 200)]:
            yield {"prog": f"OR {a} {b}"}
            yield {"prog": f"{a} {b}"}
            yield {"prog": f"NOT OR {a} NOT {b}"}
            yield {"prog": f"({a} {b})"}

    def setup(self):
        self._cache = None

    def world(self):
        # one mailbox for the whole run (searches do not change anything but \\Recent)
        return None

    def check(self, inp):
        import re

        async def go():
            bodies = ["x" * (40 * i) for i in range(6)]
            from .realsrv import make_message

            async with World({"inbox": [make_message(i + 1, bodies[i]) for i in range(6)]}) as w:
                a = w.session("a")
                await a.cmd("SELECT inbox")
                await a.cmd("STORE 2 +FLAGS (\\Deleted)")
                await a.cmd("EXPUNGE")
                await a.cmd("UID STORE 1,4 +FLAGS (\\Seen)")
                await a.cmd("UID STORE 3,4 +FLAGS (\\Flagged)")
                await a.cmd("UID STORE 5 +FLAGS (\\Deleted kw)")
                await a.cmd("UID STORE 6 +FLAGS (kw)")
                fl = await a.cmd("UID FETCH 1:* (FLAGS RFC822.SIZE)")
                info = {}
                for ln in fl:
                    m = re.match(r"\* (\d+) FETCH \((.*)\)\r\n", ln)
                    if m and "UID " in m.group(2) and "RFC822.SIZE" in m.group(2):
                        seqn = int(m.group(1))
                        uid = int(re.search(r"UID (\d+)", m.group(2)).group(1))
                        flags = set(re.search(r"FLAGS \(([^)]*)\)", m.group(2)).group(1).split())
                        flags.discard("\\Recent")  # reporting FLAGS ends the message's \Recent status for later commands
                        size = int(re.search(r"RFC822.SIZE (\d+)", m.group(2)).group(1))
                        info[seqn] = (uid, flags, size)
                s1 = await a.cmd("SEARCH " + inp["prog"])
                s2 = await a.cmd("UID SEARCH " + inp["prog"])
                return info, s1, s2

        info, s1, s2 = run(go())
        n = len(info)
        mxuid = info[n][0]

        def parse_set(txt, mx):
            out = set()
            for part in txt.split(","):
                if ":" in part:
                    x, y = [mx if t == "*" else int(t) for t in part.split(":")]
                    out |= set(range(min(x, y), max(x, y) + 1))
                else:
                    out.add(mx if part == "*" else int(part))
            return out

        def atom(tok, toks, seqn):
            uid, flags, size = info[seqn]
            t = tok.upper()
            if t == "ALL":
                return True
            if t == "SEEN":
                return "\\Seen" in flags
            if t == "UNSEEN":
                return "\\Seen" not in flags
            if t == "FLAGGED":
                return "\\Flagged" in flags
            if t == "UNFLAGGED":
                return "\\Flagged" not in flags
            if t == "DELETED":
                return "\\Deleted" in flags
            if t == "RECENT":
                return "\\Recent" in flags
            if t == "NEW":
                return "\\Recent" in flags and "\\Seen" not in flags
            if t == "OLD":
                return "\\Recent" not in flags
            if t == "KEYWORD":
                return toks.pop(0) in flags
            if t == "UNKEYWORD":
                return toks.pop(0) not in flags
            if t == "LARGER":
                return size > int(toks.pop(0))
            if t == "SMALLER":
                return size < int(toks.pop(0))
            if t == "UID":
                return uid in parse_set(toks.pop(0), mxuid)
            if t == "NOT":
                return not key(toks, seqn)
            if t == "OR":
                x = key(toks, seqn)
                y = key(toks, seqn)
                return x or y
            if t.startswith("("):
                inner = []
                depth = 0
                cur = [tok[1:]] + toks
                # collect until the matching ")"
                res = True
                sub = []
                while True:
                    x = cur.pop(0)
                    if x.endswith(")"):
                        sub.append(x[:-1])
                        break
                    sub.append(x)
                del toks[:]
                toks.extend(cur)
                while sub:
                    res = key(sub, seqn) and res
                return res
            return seqn in parse_set(tok, n)

        def key(toks, seqn):
            return atom(toks.pop(0), toks, seqn)

        def ev(seqn):
            toks = inp["prog"].split()
            res = True
            while toks:
                res = key(toks, seqn) and res
            return res

        want = [i for i in range(1, n + 1) if ev(i)]
        got1 = [int(x) for l in s1 if l.startswith("* SEARCH") for x in l.split()[2:]]
        got2 = [int(x) for l in s2 if l.startswith("* SEARCH") for x in l.split()[2:]]
        if not any(l.startswith("* SEARCH") for l in s1):
            return {"observed": s1, "clause": "a * SEARCH line is sent"}
        if got1 != want:
            return {"observed": got1, "clause": f"SEARCH {inp['prog']} == {want}"}
        if got2 != [info[i][0] for i in want]:
            return {"observed": got2, "clause": f"UID SEARCH {inp['prog']} == {[info[i][0] for i in want]}"}
        return None


class Answered(Harness):
    """Every command gets exactly one tagged OK/NO/BAD, last, CRLF-terminated, and never through the watchdog (C06)."""

    scope = "5-message INBOX, empty mailbox, missing mailbox, \\Noselect placeholder (also after restart); out-of-range / 0 / * sets for FETCH, STORE, COPY, SEARCH, UID forms; ~45 commands"
    exhaustive = False

    CMDS = [
        "NOOP", "CHECK", "FETCH 99 FLAGS", "FETCH 0 FLAGS", "FETCH 6:7 FLAGS", "FETCH 1:* FLAGS", "FETCH * FLAGS", "UID FETCH 99 FLAGS", "UID FETCH 99:* FLAGS",
        "STORE 99 +FLAGS (\\Seen)", "STORE 0 +FLAGS (\\Seen)", "UID STORE 99 +FLAGS (\\Seen)", "STORE 1 +FLAGS (\\Recent)", "COPY 99 other", "COPY 1 nosuch", "UID COPY 99 other",
        "COPY 1:2 other", "SEARCH 99", "SEARCH 0", "SEARCH UID 99", "UID SEARCH 1:*", "SEARCH NOT 99", "EXPUNGE", "UID EXPUNGE 99", "MOVE 99 other", "MOVE 1 nosuch",
        "SELECT nosuch", "EXAMINE nosuch", "STATUS nosuch (MESSAGES)", "STATUS placeholder (MESSAGES)", "SELECT placeholder", "APPEND nosuch {3}\r\nabc", "DELETE nosuch", "RENAME nosuch x",
        "SUBSCRIBE nosuch", "LIST \"\" *", "LSUB \"\" *", "CREATE inbox", "DELETE inbox", "SELECT empty", "FETCH * FLAGS", "FETCH 1 FLAGS", "SEARCH *", "STORE * +FLAGS (\\Seen)", "CLOSE",
    ]

    def inputs(self, tier, seed):
        for restart in (False, True):
            yield {"restart": restart}

    def check(self, inp):
        import re

        async def go():
            async with World({"inbox": 5, "other": 1, "empty": 0, "placeholder/child": 1}) as w:
                a = w.session("a")
                await a.cmd("SELECT inbox")
                await a.cmd("SUBSCRIBE placeholder")
                await a.cmd("DELETE placeholder")  # has a child: becomes \\Noselect
                if inp["restart"]:
                    await w.restart()
                    a = w.session("a")
                await a.cmd("SELECT inbox")
                res = []
                import time

                for c in self.CMDS:
                    t0 = time.monotonic()
                    try:
                        out = await a.cmd(c)
                    except Exception as e:
                        out = [f"EXC {type(e).__name__}: {e}"]
                    res.append((c, f"a{a.n}", out, time.monotonic() - t0))
                    if c == "SELECT empty":
                        pass
                return res

        for c, tag, out, dt in run(go(), timeout=400):
            tagged = [l for l in out if l.startswith(tag + " ")]
            if any(l.startswith("EXC") for l in out):
                return {"observed": out[-1], "clause": f"`{c}`: the handler answers instead of raising"}
            if len(tagged) != 1 or out[-1] != tagged[0]:
                return {"observed": out[-3:], "clause": f"`{c}`: exactly one tagged line, after all untagged data"}
            if not re.match(re.escape(tag) + r" (OK|NO|BAD) ", tagged[0]) or not tagged[0].endswith("\r\n"):
                return {"observed": tagged[0], "clause": f"`{c}`: tagged OK/NO/BAD line ending in CRLF"}
            if "timed out" in tagged[0] or dt > 3.0:
                return {"observed": {"reply": tagged[0], "seconds": round(dt, 1)}, "clause": f"`{c}`: the outcome is not produced by the command watchdog"}
        return None


class UidValidity(Harness):
    """A name deleted and created again gets a larger UIDVALIDITY, also across a restart (C02 e)."""

    scope = "create/delete/recreate of one mailbox with 0..2 restarts inserted at each position"
    exhaustive = True

    def inputs(self, tier, seed):
        import itertools

        for rs in itertools.product((False, True), repeat=3):
            yield {"restart_after": list(rs)}

    def check(self, inp):
        import re

        async def vv(sess, name):
            out = await sess.cmd(f"SELECT {name}")
            for l in out:
                m = re.search(r"UIDVALIDITY (\d+)", l)
                if m:
                    return int(m.group(1))
            return None

        async def go():
            async with World({"inbox": 1}) as w:
                a = w.session("a")
                seen = []
                await a.cmd("CREATE proj")
                seen.append(await vv(a, "proj"))
                await a.cmd("SELECT inbox")
                if inp["restart_after"][0]:
                    await w.restart()
                    a = w.session("a2")
                await a.cmd("DELETE proj")
                if inp["restart_after"][1]:
                    await w.restart()
                    a = w.session("a3")
                await a.cmd("CREATE proj")
                seen.append(await vv(a, "proj"))
                await a.cmd("SELECT inbox")
                if inp["restart_after"][2]:
                    await w.restart()
                    a = w.session("a4")
                seen.append(await vv(a, "proj"))
                return seen

        first, second, third = run(go())
        if None in (first, second, third) or not (second > first) or third != second:
            return {"observed": [first, second, third], "clause": "recreated mailbox gets a larger UIDVALIDITY; otherwise it does not change"}
        return None


class ViewReplay(Harness):
    """Replaying the EXISTS/EXPUNGE a session received always gives a legal view that converges to the server list (C01)."""

    scope = "2 sessions on one 5-message mailbox; scripted histories mixing STORE \\Deleted, EXPUNGE by the other session, external deliveries, NOOP / FETCH / re-SELECT by the observer; all orders of (expunge, delivery, observer command)"
    exhaustive = False

    def inputs(self, tier, seed):
        import itertools

        steps = ["B:expunge1", "deliver", "A:noop", "B:expunge-last", "A:fetch1", "B:append", "A:reselect"]
        n = 3 if tier == "quick" else 4
        for k in range(1, n + 1):
            for hist in itertools.permutations(steps, k):
                yield {"history": list(hist)}

    def check(self, inp):
        import re

        from .mboxops import deliver

        async def go():
            async with World({"inbox": 5}) as w:
                a, b = w.session("A"), w.session("B")
                views = {}
                log = []

                def replay(name, lines, in_seq_cmd=False):
                    v = views[name]
                    for ln in lines:
                        m = re.match(r"\* (\d+) (EXISTS|EXPUNGE|FETCH)", ln)
                        if not m:
                            continue
                        n, what = int(m.group(1)), m.group(2)
                        if what == "EXISTS":
                            if n < v["count"]:
                                return f"{name}: EXISTS {n} shrinks the view of {v['count']}"
                            v["count"] = n
                        elif what == "EXPUNGE":
                            if not (1 <= n <= v["count"]):
                                return f"{name}: EXPUNGE {n} outside the view of {v['count']}"
                            if in_seq_cmd:
                                return f"{name}: EXPUNGE {n} sent during a non-UID FETCH/STORE/SEARCH"
                            v["count"] -= 1
                        elif what == "FETCH" and not (1 <= n <= v["count"]):
                            return f"{name}: FETCH {n} outside the view of {v['count']}"
                    return None

                for s in (a, b):
                    views[s.proxy.name] = {"count": 0}
                    err = replay(s.proxy.name, await s.cmd("SELECT inbox"))
                    if err:
                        return err
                for step in inp["history"]:
                    who, _, what = step.partition(":")
                    if step == "deliver":
                        deliver(w.maildir, "inbox", 1)
                        mbox = a.h.mbox
                        async with mbox.mailbox.lock_folder():
                            await mbox.check_new_msgs_and_flags(optional=False)
                        out = {"A": a.proxy.take(), "B": b.proxy.take()}
                        for nm, lines in out.items():
                            err = replay(nm, lines)
                            if err:
                                return f"after {step}: {err}"
                        continue
                    s = a if who == "A" else b
                    if what == "reselect":
                        # SELECT of the mailbox that is already selected: the view starts again from the new snapshot
                        views[s.proxy.name] = {"count": 0}
                        err = replay(s.proxy.name, await s.cmd("SELECT inbox"))
                        err = err or replay(b.proxy.name, b.proxy.take())
                        if err:
                            return f"during {step}: {err}"
                        continue
                    if what == "expunge1":
                        cmds = ["STORE 1 +FLAGS.SILENT (\\Deleted)", "EXPUNGE"]
                    elif what == "expunge-last":
                        cmds = [f"STORE {views[s.proxy.name]['count']} +FLAGS.SILENT (\\Deleted)", "EXPUNGE"]
                    elif what == "noop":
                        cmds = ["NOOP"]
                    elif what == "fetch1":
                        cmds = ["FETCH 1 (UID)"]
                    else:
                        cmds = ["APPEND inbox {20}\r\nSubject: x\r\n\r\nbody\r\n\r\n"]
                    for c in cmds:
                        if views[s.proxy.name]["count"] == 0 and c.startswith(("STORE", "FETCH")):
                            continue
                        lines = await s.cmd(c)
                        other = b if s is a else a
                        err = replay(s.proxy.name, lines, in_seq_cmd=c.startswith("FETCH"))
                        err = err or replay(other.proxy.name, other.proxy.take())
                        if err:
                            return f"during {step} ({c}): {err}"
                # synchronisation point: after NOOP the view equals the server list
                for s in (a, b):
                    err = replay(s.proxy.name, await s.cmd("NOOP"))
                    if err:
                        return f"final NOOP: {err}"
                    n = len(a.h.mbox.uids)
                    if views[s.proxy.name]["count"] != n:
                        return f"{s.proxy.name}: after NOOP the replayed view has {views[s.proxy.name]['count']} messages, the server {n}"
                return None

        err = run(go(), timeout=120)
        if err:
            return {"observed": err, "clause": "legal view at every step; view == server list after NOOP"}
        return None


class ConcurrentExpunge(Harness):
    """C10 / C03 / C15: a UID command issued while another session's EXPUNGE is running is applied to the messages its UIDs denote
    when it runs -- not to whatever stands at the positions those UIDs had before the EXPUNGE (DESIGN F04)."""

    scope = "5-message mailbox, session A expunges a subset of {1, 2, 1:2, 3} while session B issues UID STORE / UID COPY / UID FETCH for one of the UIDs 3..5 at the same time (asyncio.gather); the effect is read back by UID"
    exhaustive = False

    def inputs(self, tier, seed):
        for dele in ("1", "2", "1:2", "3"):
            for uid in (3, 4, 5):
                for op in ("store", "copy", "fetch"):
                    yield {"delete": dele, "uid": uid, "op": op}

    def check(self, inp):
        import re

        async def go():
            async with World({"inbox": 5, "other": 0}) as w:
                a, b = w.session("A"), w.session("B")
                await a.cmd("SELECT inbox")
                await b.cmd("SELECT inbox")
                await a.cmd(f"STORE {inp['delete']} +FLAGS.SILENT (\\Deleted)")
                uid = inp["uid"]
                cmd = {"store": f"UID STORE {uid} +FLAGS (\\Flagged)", "copy": f"UID COPY {uid} other", "fetch": f"UID FETCH {uid} (BODY.PEEK[HEADER.FIELDS (SUBJECT)])"}[inp["op"]]
                ra, rb = await asyncio.gather(a.cmd("EXPUNGE"), b.cmd(cmd), return_exceptions=True)
                if isinstance(rb, Exception):
                    return f"{cmd}: raised {type(rb).__name__}: {rb}"
                gone = {"1": {1}, "2": {2}, "1:2": {1, 2}, "3": {3}}[inp["delete"]]
                c = w.session("C")
                await c.cmd("SELECT inbox")
                if inp["op"] == "store":
                    text = "".join(await c.cmd("UID FETCH 1:* FLAGS"))
                    flagged = sorted(int(m.group(2)) for m in re.finditer(r"FLAGS \(([^)]*)\) UID (\d+)", text) if "\\Flagged" in m.group(1))
                    flagged += sorted(int(m.group(1)) for m in re.finditer(r"UID (\d+) FLAGS \(([^)]*)\)", text) if "\\Flagged" in m.group(2))
                    want = [] if uid in gone else [uid]
                    if sorted(set(flagged)) != want:
                        return f"{cmd} during EXPUNGE of {inp['delete']}: \\Flagged is on UIDs {sorted(set(flagged))}, expected {want}"
                elif inp["op"] == "copy":
                    d = w.session("D")
                    await d.cmd("SELECT other")
                    text = "".join(await d.cmd("FETCH 1:* (BODY.PEEK[HEADER.FIELDS (SUBJECT)])")) if not any("* 0 EXISTS" in l for l in []) else ""
                    subs = re.findall(r"[Ss]ubject: message (\d+)", text)
                    want = [] if uid in gone else [str(uid)]
                    if subs != want:
                        return f"{cmd} during EXPUNGE of {inp['delete']}: copied messages {subs}, expected {want}"
                else:
                    subs = re.findall(r"[Ss]ubject: message (\d+)", "".join(rb))
                    want = [] if uid in gone else [str(uid)]
                    if subs != want:
                        return f"{cmd} during EXPUNGE of {inp['delete']}: returned messages {subs}, expected {want}"
                return None

        err = run(go(), timeout=60)
        return {"observed": err, "clause": "a command is applied to the messages its arguments denote when it runs"} if err else None


class ExamineReadOnly(Harness):
    """A session that opened the mailbox with EXAMINE never changes its messages or flags (C05 e)."""

    scope = "5-message mailbox, one flag set beforehand; an EXAMINE session issues one changing command (STORE +/-/= flags, silent or not, UID or not; non-PEEK body fetches; EXPUNGE; CLOSE); flags and UIDs of every message read back by a second session"
    exhaustive = False

    def inputs(self, tier, seed):
        for c in ["STORE 2 +FLAGS (\\Flagged)", "STORE 1:3 +FLAGS.SILENT (\\Deleted)", "UID STORE 1:* -FLAGS (\\Answered)", "STORE 3 FLAGS (\\Draft)",
                  "UID STORE 3 FLAGS.SILENT ()", "FETCH 2 BODY[]", "FETCH 1:* RFC822", "UID FETCH 4 BODY[TEXT]", "FETCH 5 (FLAGS RFC822.TEXT)", "FETCH 2 BODY.PEEK[]",
                  "EXPUNGE", "CLOSE"]:
            yield {"cmd": c}

    def check(self, inp):
        async def flags(s):
            out = {}
            for ln in await s.cmd("UID FETCH 1:* (FLAGS)"):
                if ln.startswith("*") and "FLAGS (" in ln and "UID " in ln:
                    uid = int(ln.split("UID ")[1].split(")")[0].split()[0])
                    fl = sorted(f for f in ln.split("FLAGS (")[1].split(")")[0].split() if f != "\\Recent")
                    out[uid] = fl
            return out

        async def go():
            async with World({"inbox": 5}) as w:
                b = w.session("b")
                await b.cmd("SELECT inbox")
                await b.cmd("STORE 3 +FLAGS (\\Answered \\Deleted)")
                await b.cmd("STORE 2:5 -FLAGS (\\Seen)")
                await b.cmd("STORE 1 +FLAGS (\\Seen)")
                before = await flags(b)
                a = w.session("a")
                await a.cmd("EXAMINE inbox")
                reply = await a.cmd(inp["cmd"])
                await b.cmd("NOOP")
                after = await flags(b)
                return before, after, reply

        before, after, reply = run(go())
        if before != after:
            return {"observed": {"before": before, "after": after, "reply": reply[-1:] }, "clause": "flags and messages unchanged by a command of an EXAMINE session"}
        return None


class DequeuedAtShutdown(Harness):
    """A command the management task has already taken off the queue when the mailbox is shut down (DELETE, server stop) is
    still answered promptly - not by the command watchdog (C06, C10: deletion of a mailbox with queued commands)."""

    scope = "mailbox with 3 messages; session A's DELETE (or EXPUNGE + DELETE) is held inside the folder removal while session B issues one command on the same mailbox (STATUS, SELECT, APPEND-less commands), with 0-2 more commands queued behind it; every command must be answered within 3 s, the watchdog being set to 30 s"
    exhaustive = False

    def inputs(self, tier, seed):
        for cmd in ["STATUS foo (MESSAGES)", "SELECT foo", "EXAMINE foo", "STATUS foo (UIDNEXT UNSEEN)"]:
            for extra in (0, 1, 2):
                yield {"cmd": cmd, "extra": extra}

    def check(self, inp):
        import os

        os.environ["PYVC_CMD_TIMEOUT"] = "30"

        async def go():
            async with World({"inbox": 1, "foo": 3}) as w:
                a = w.session("a")
                others = [w.session(f"b{i}") for i in range(1 + inp["extra"])]
                mbox = await w.server.get_mailbox("foo")
                started, release = asyncio.Event(), asyncio.Event()
                orig = mbox.mailbox.aclear

                async def slow(*args, **kw):
                    started.set()
                    await release.wait()
                    return await orig(*args, **kw)

                mbox.mailbox.aclear = slow
                ta = asyncio.create_task(a.cmd("DELETE foo"))
                await asyncio.wait_for(started.wait(), 5)
                tasks = []
                for s in others:
                    tasks.append(asyncio.create_task(s.cmd(inp["cmd"])))
                    await asyncio.sleep(0.1)
                release.set()
                await asyncio.wait_for(ta, 10)
                late = []
                for i, t in enumerate(tasks):
                    try:
                        r = await asyncio.wait_for(t, 3)
                        if not r or not r[-1].split(" ", 2)[1] in ("OK", "NO", "BAD"):
                            late.append((i, r[-1:] ))
                    except asyncio.TimeoutError:
                        late.append((i, "no tagged reply within 3 s"))
                return late

        late = run(go(), timeout=90)
        if late:
            return {"observed": late, "clause": "every command issued while the mailbox was being deleted is answered promptly (not by the watchdog)"}
        return None
