"""Concrete oracles for POP3 (C20)."""
import itertools

from pyvc.harness import Harness

from .realsrv import FakeProxy, World, make_message, run


def unstuff(data: bytes) -> bytes:
    return b"\r\n".join(l[1:] if l.startswith(b".") else l for l in data.split(b"\r\n"))


class DotStuff(Harness):
    scope = "every byte string over {'.', 'a', CR, LF} of length <= 8 (quick) / <= 9 (thorough)"
    exhaustive = True

    def inputs(self, tier, seed):
        n = 8 if tier == "quick" else 9
        for k in range(0, n + 1):
            for t in itertools.product(".a\r\n", repeat=k):
                yield {"data": "".join(t)}

    def check(self, inp):
        from asimap.pop3_client import dot_stuff

        d = inp["data"].encode()
        s = dot_stuff(d)
        if unstuff(s) != d:
            return {"observed": repr(s), "clause": "unstuff(dot_stuff(d)) == d"}
        if any(l == b"." for l in s.split(b"\r\n")):
            return {"observed": repr(s), "clause": "no line of the stuffed text is a lone '.' (it would end the reply)"}
        if s.endswith(b"\r\n") != d.endswith(b"\r\n"):
            return {"observed": repr(s), "clause": "ends with CRLF iff the input does"}
        return None


BODIES = ["plain body", ".leading dot\r\n..two dots\r\nend", "", "no newline at end", "line\r\n.\r\nafter lone dot"]


class Pop3Session(Harness):
    """Real POP3CommandHandler on a real INBOX: sizes, DELE/RSET/QUIT, snapshot stability."""

    scope = "INBOX of 4 messages with bodies incl. leading dots / lone dot / empty; every DELE subset of size<=2 x {QUIT, RSET+QUIT, disconnect}; an IMAP session expunging message 1 mid-session"
    exhaustive = False

    def inputs(self, tier, seed):
        for dele in ([], [1], [3], [2, 4], [2, 2]):
            for end in ("quit", "rset-quit", "disconnect"):
                for imap_expunge in (False, True):
                    yield {"dele": dele, "end": end, "imap_expunge": imap_expunge}

    def check(self, inp):
        async def go():
            from asimap.pop3_client import POP3CommandHandler
            from asimap.pop3_parse import POP3Command

            msgs = [make_message(i + 1, BODIES[i % len(BODIES)]) for i in range(4)]
            async with World({"inbox": msgs}) as w:
                a = w.session("imap")
                await a.cmd("SELECT inbox")
                from harness.realsrv import uids_of

                uids0 = uids_of(await a.cmd("UID SEARCH ALL"))
                px = FakeProxy("pop")
                h = POP3CommandHandler(px, w.server)
                await h.init_session()

                async def c(line):
                    await h.command(POP3Command(line))
                    return "".join(px.take())

                out = {"uidl": await c("UIDL"), "list": await c("LIST"), "stat": await c("STAT")}
                retr = {}
                for n in range(1, 5):
                    retr[n] = await c(f"RETR {n}")
                if inp["imap_expunge"]:
                    await a.cmd("STORE 1 +FLAGS (\\Deleted)")
                    await a.cmd("EXPUNGE")
                out["uidl2"] = await c("UIDL")
                out["list2"] = await c("LIST")
                for n in inp["dele"]:
                    await c(f"DELE {n}")
                if inp["end"] == "rset-quit":
                    await c("RSET")
                if inp["end"] in ("quit", "rset-quit"):
                    await c("QUIT")
                b = w.session("imap2")
                await b.cmd("SELECT inbox")
                left = uids_of(await b.cmd("UID SEARCH ALL"))
                return uids0, out, retr, left

        try:
            uids0, out, retr, left = run(go())
        except Exception as e:  # noqa: BLE001  -- the code under test raised in the middle of a POP3 session: that is an outcome, not a harness error
            import traceback

            tb = traceback.extract_tb(e.__traceback__)
            where = next((f"{f.filename.split('/')[-1]}:{f.lineno} in {f.name}" for f in reversed(tb) if "/asimap/" in f.filename), "?")
            return {"observed": f"{type(e).__name__}: {e} at {where}", "clause": "every POP3 command of the session is answered (the snapshot is fixed whatever IMAP sessions do)"}
        # UIDL == IMAP UIDs, stable
        want_uidl = "+OK\r\n" + "".join(f"{i + 1} {u}\r\n" for i, u in enumerate(uids0)) + ".\r\n"
        if out["uidl"] != want_uidl or out["uidl2"] != want_uidl:
            return {"observed": [out["uidl"], out["uidl2"]], "clause": "UIDL lists the IMAP UIDs and does not change during the session"}
        if out["list"] != out["list2"]:
            return {"observed": [out["list"], out["list2"]], "clause": "LIST does not change during the session"}
        sizes = {int(l.split()[0]): int(l.split()[1]) for l in out["list"].split("\r\n")[1:-2]}
        for n, r in retr.items():
            head, _, rest = r.partition("\r\n")
            announced = int(head.split()[1])
            if not rest.endswith(".\r\n"):
                return {"observed": r[-20:], "clause": "multi-line reply ends with the terminator line"}
            payload = unstuff(rest[: -len(".\r\n")].encode("latin-1"))
            if len(payload) != announced or sizes.get(n) != announced:
                return {"observed": {"announced": announced, "delivered": len(payload), "list": sizes.get(n)}, "clause": "size announced by LIST/RETR == octets RETR delivers"}
        marked = set() if inp["end"] != "quit" else set(inp["dele"])
        gone = {uids0[n - 1] for n in marked} | ({uids0[0]} if inp["imap_expunge"] else set())
        want_left = [u for u in uids0 if u not in gone]
        if left != want_left:
            return {"observed": left, "clause": f"after the session the INBOX holds UIDs {want_left}"}
        return None


class Pop3Relay(Harness):
    """C20: what the user process answers to RETR reaches the POP3 client unmodified -- real POP3SubprocessInterface.get_and_connect_subprocess /
    msgs_to_client against a stand-in user process on a loopback socket, with lines from 1 kB to 1 MB."""

    scope = "one RETR reply whose message has a line of 1000 / 60000 / 70000 / 200000 / 1000000 octets, followed by another reply"
    exhaustive = False

    def inputs(self, tier, seed):
        for n in (1000, 60_000, 70_000, 200_000, 1_000_000):
            yield {"line_len": n}

    def check(self, inp):
        import asyncio
        import logging
        from unittest.mock import AsyncMock, MagicMock

        import asimap.pop3_server as ps

        logging.disable(logging.CRITICAL)
        body = b"Subject: x\r\n\r\n" + b"Q" * inp["line_len"] + b"\r\nend\r\n"
        response = b"+OK %d octets\r\n" % len(body) + body + b".\r\n" + b"+OK bye\r\n"

        async def go():
            async def fake(reader, writer):
                try:
                    for _ in range(2):
                        hdr = await reader.readuntil(b"\n")
                        await reader.readexactly(int(hdr.strip()[1:-1]))
                    writer.write(response)
                    await writer.drain()
                    await reader.read()
                except Exception:  # noqa: BLE001
                    pass
                finally:
                    writer.close()

            srv = await asyncio.start_server(fake, "127.0.0.1", 0)
            port = srv.sockets[0].getsockname()[1]
            subp = MagicMock()
            subp.is_alive = True
            subp.port = port
            subp.has_port = asyncio.Event()
            subp.has_port.set()
            saved = dict(ps.USER_IMAP_SUBPROCESSES)
            ps.USER_IMAP_SUBPROCESSES.clear()
            ps.USER_IMAP_SUBPROCESSES["demo"] = subp
            out = bytearray()
            cw = MagicMock(spec=asyncio.StreamWriter)
            cw.write = MagicMock(side_effect=out.extend)
            cw.drain = AsyncMock()
            cw.get_extra_info = MagicMock(return_value=("127.0.0.1", 1))
            client = ps.POP3Client(MagicMock(), "t:1", "127.0.0.1", 1, asyncio.StreamReader(), cw)
            intf = getattr(client, "subprocess_intf", None) or ps.POP3SubprocessInterface(client)
            user = MagicMock()
            user.username = "demo"
            try:
                await intf.get_and_connect_subprocess(user)
                intf.state = "transaction"
                intf.writer.write(b"{6}\n")
                intf.writer.write(b"RETR 1")
                await intf.writer.drain()
                for _ in range(500):
                    await asyncio.sleep(0.01)
                    if len(out) >= len(response) or intf.wait_task is None or intf.wait_task.done():
                        break
                if bytes(out) != response:
                    return f"relayed {len(out)} of {len(response)} octets; relay task ended: {intf.wait_task is None or intf.wait_task.done()}"
                return None
            finally:
                t = intf.wait_task
                if t is not None and not t.done():
                    t.cancel()
                    try:
                        await t
                    except (asyncio.CancelledError, Exception):
                        pass
                srv.close()
                ps.USER_IMAP_SUBPROCESSES.clear()
                ps.USER_IMAP_SUBPROCESSES.update(saved)

        err = asyncio.run(asyncio.wait_for(go(), 60))
        return {"observed": err, "clause": "the size announced by RETR equals the octets RETR delivers; the reply arrives complete and terminated"} if err else None
