"""Concrete oracles for C09 (mailbox names stay inside the mail directory)."""
import hashlib
import itertools
import os

from pyvc.harness import Harness

from .realsrv import World, run


class ParserNames(Harness):
    scope = "every mailbox name over the alphabet {a, '/', '.'} of length <= 7 (quick) / <= 8 (thorough), as a quoted string, in SELECT and RENAME"
    exhaustive = True

    def inputs(self, tier, seed):
        n = 7 if tier == "quick" else 8
        for k in range(1, n + 1):
            for t in itertools.product("a/.", repeat=k):
                yield {"name": "".join(t)}

    def check(self, inp):
        from asimap.parse import BadCommand, IMAPClientCommand

        root = "/jail/Mail"
        for line, attrs in ((f'a SELECT "{inp["name"]}"\r\n', ["mailbox_name"]), (f'a RENAME "{inp["name"]}" "a/{inp["name"]}"\r\n', ["mailbox_src_name", "mailbox_dst_name"])):
            c = IMAPClientCommand(line)
            try:
                c.parse()
            except BadCommand:
                continue
            for at in attrs:
                name = getattr(c, at)
                # what the server does with it: strip one leading "/", join onto the mail directory
                rel = name[1:] if name and name[0] == "/" else name
                if not rel.strip():
                    continue
                full = os.path.normpath(os.path.join(root, rel))
                if not (full == root or full.startswith(root + "/")):
                    return {"observed": {"parsed": name, "path": full}, "clause": "an accepted mailbox name resolves to a path under the mail directory"}
        return None


def snapshot(top: str) -> dict:
    out = {}
    for d, dirs, files in os.walk(top):
        for f in files:
            p = os.path.join(d, f)
            try:
                out[p] = hashlib.sha1(open(p, "rb").read()).hexdigest()
            except OSError:
                out[p] = "?"
        for x in dirs:
            out[os.path.join(d, x) + "/"] = "dir"
    return out


HOSTILE = ["../decoy", "../decoy/inbox", "//etc", "/../decoy", "a/../../decoy", "../Mail2", "..", "/..", "../../x", "..//decoy",
           # absolute paths into the jail (one leading "/" is the hierarchy prefix and must not make the path absolute)
           "{JAIL}/decoy/inbox", "{JAIL}/decoy/newbox", "{JAIL}/outside-new"]


class Jail(Harness):
    """No command with a hostile name touches anything outside the mail directory or reveals it."""

    scope = "13 hostile names (.., //, absolute) x {SELECT, EXAMINE, CREATE, DELETE, SUBSCRIBE, UNSUBSCRIBE, STATUS, APPEND, COPY, MOVE, RENAME src/dst} on a jail holding the mail root and a decoy mail root"
    exhaustive = False

    def inputs(self, tier, seed):
        for n in HOSTILE:
            yield {"name": n}

    def check(self, inp):
        async def go():
            async with World({"inbox": 2, "work": 1}) as w:
                jail = w.root
                import mailbox

                decoy = mailbox.MH(os.path.join(jail, "decoy"), create=True)
                decoy.add_folder("inbox").add(b"From: x@y\r\nSubject: secret\r\n\r\nsecret\r\n")
                before = {k: v for k, v in snapshot(jail).items() if not k.startswith(str(w.maildir))}
                a = w.session("a")
                await a.cmd("SELECT inbox")
                n = inp["name"].replace("{JAIL}", jail)
                outs = []
                for cmd in (f'SELECT "{n}"', "SELECT inbox", f'EXAMINE "{n}"', "SELECT inbox", f'CREATE "{n}"', f'CREATE "{n}/sub"', f'SUBSCRIBE "{n}"', f'UNSUBSCRIBE "{n}"',
                            f'STATUS "{n}" (MESSAGES)', f'COPY 1 "{n}"', f'MOVE 1 "{n}"', f'RENAME work "{n}"', f'RENAME "{n}" taken', f'DELETE "{n}"',
                            f'APPEND "{n}" {{20}}\r\nSubject: x\r\n\r\nbody\r\n\r\n'):
                    from asimap.parse import BadCommand

                    try:
                        outs += await a.cmd(cmd)
                    except BadCommand:
                        outs.append("BAD (parser)")
                after = {k: v for k, v in snapshot(jail).items() if not k.startswith(str(w.maildir))}
                return before, after, outs

        before, after, outs = run(go(), timeout=120)
        if before != after:
            diff = sorted(set(before.items()) ^ set(after.items()))[:6]
            return {"observed": diff, "clause": "nothing outside the mail directory is created, changed or removed"}
        if any("secret" in o for o in outs):
            return {"observed": [o for o in outs if "secret" in o][:2], "clause": "no response reveals content outside the mail directory"}
        return None
