"""Concrete oracle for Mailbox._dispatch_or_pend_notifications (C01/C04 g)."""
import asyncio
import itertools

from pyvc.harness import Harness

from .realsrv import FakeProxy


class _Client:
    def __init__(self, name, idling):
        self.client = FakeProxy(name)
        self.idling = idling
        self.pending_notifications = ["old-" + name]
        self.name = name


class Dispatch(Harness):
    scope = "3 selected sessions x every idling pattern x dont_notify in {None, each session} x notifications in {'', 'x', [], ['a','b']}"
    exhaustive = True

    def inputs(self, tier, seed):
        for idl in itertools.product((False, True), repeat=3):
            for dn in (None, 0, 1, 2):
                for notes in ("", "x\r\n", [], ["a\r\n", "b\r\n"]):
                    yield {"idling": list(idl), "dont_notify": dn, "notes": notes}

    def check(self, inp):
        from harness.seqset import bare_mailbox

        m = bare_mailbox([1])
        cs = [_Client(f"c{i}", inp["idling"][i]) for i in range(3)]
        m.clients = {c.name: c for c in cs}
        dn = cs[inp["dont_notify"]] if inp["dont_notify"] is not None else None
        asyncio.run(m._dispatch_or_pend_notifications(inp["notes"], dont_notify=dn))
        nl = [inp["notes"]] if isinstance(inp["notes"], str) else list(inp["notes"])
        if not inp["notes"]:
            nl = []
        for c in cs:
            want_p, want_o = ["old-" + c.name], []
            if c is not dn and nl:
                if c.idling:
                    want_o = nl
                else:
                    want_p = want_p + nl
            if c.pending_notifications != want_p or c.client.out != want_o:
                return {"observed": {"client": c.name, "pending": c.pending_notifications, "pushed": c.client.out}, "clause": f"pending == {want_p}, pushed == {want_o}"}
        return None
