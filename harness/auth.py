"""Concrete oracles for authentication (C18 a, b)."""
import asyncio
import os
import shutil
import time

from pyvc.harness import Harness

from .realsrv import scratch_dir


class _PwWorld:
    def __init__(self):
        self.root = scratch_dir()
        self.pwfile = os.path.join(self.root, "pw.txt")
        self.t = time.time() - 1000

    def write(self, records):
        """records: {user: hash}; every rewrite advances the file's mtime."""
        with open(self.pwfile, "w") as f:
            for u, h in records.items():
                md = os.path.join(self.root, u)
                os.makedirs(md, exist_ok=True)
                f.write(f"{u}:{h}:{md}\n")
        self.t += 10
        os.utime(self.pwfile, (self.t, self.t))

    def close(self):
        shutil.rmtree(self.root, ignore_errors=True)


class Authenticate(Harness):
    """authenticate() accepts exactly the current password of an existing, enabled account -- across password-file rewrites."""

    scope = "users {alice, bob}; histories of <=3 password-file rewrites (set / change / disable / remove) each followed by logins with every password ever used, the empty password and a wrong one"
    exhaustive = False

    tier = "quick"

    def inputs(self, tier, seed):
        self.tier = tier
        steps = ["set:pw1", "set:pw2", "disable", "remove"]
        import itertools

        n = 2 if tier == "quick" else 3
        for k in range(1, n + 1):
            for hist in itertools.product(steps, repeat=k):
                yield {"history": list(hist)}

    def check(self, inp):
        import asimap.auth as auth
        from asimap.exceptions import AuthenticationException
        from asimap.hashers import make_password

        w = _PwWorld()
        auth.USERS.clear()
        auth.PW_FILE_LAST_TIMESTAMP = 0.0
        auth.PW_FILE_LOCATION = w.pwfile
        hashes = {"pw1": make_password("pw1"), "pw2": make_password("pw2"), "bobpw": make_password("bobpw")}
        cur = {"bob": ("bobpw", hashes["bobpw"])}
        try:
            for step in inp["history"]:
                if step.startswith("set:"):
                    pw = step[4:]
                    cur["alice"] = (pw, hashes[pw])
                elif step == "disable":
                    if "alice" in cur:
                        cur["alice"] = (None, "XXX")
                elif step == "remove":
                    cur.pop("alice", None)
                w.write({u: h for u, (_, h) in cur.items()})
                full = self.tier != "quick"
                for user in (("alice", "bob") if full else ("alice",)):
                    for pw in (("pw1", "pw2", "bobpw", "", "nope") if full else ("pw1", "pw2", "")):
                        want = user in cur and cur[user][0] == pw
                        try:
                            asyncio.run(auth.authenticate(user, pw))
                            got = True
                        except AuthenticationException:
                            got = False
                        if got != want:
                            return {"observed": f"after {inp['history']} at step {step!r}: authenticate({user!r}, {pw!r}) -> {'accepted' if got else 'refused'}",
                                    "clause": "accepted exactly when the account exists and this is its current password"}
            return None
        finally:
            w.close()
            auth.USERS.clear()
            auth.PW_FILE_LAST_TIMESTAMP = 0.0


ReadUsers = Authenticate
