import Mathlib

/-!
The two facts of finite arithmetic that the contracts of `Mailbox.check_new_msgs_and_flags` state as preconditions
because an SMT solver does not derive them (DESIGN 12.2): `pigeonhole` (recovery contract) and `E1-count`.
Lists of message keys are strictly ascending lists of natural numbers.
-/

/-- `pigeonhole`: a strictly ascending listing `L` of the folder that is at least as long as the stored key list `M`
and differs from it contains a key that `M` lacks. -/
theorem pigeonhole (L M : List ℕ) (hL : L.Pairwise (· < ·)) (hM : M.Pairwise (· < ·))
    (hlen : M.length ≤ L.length) (hne : L ≠ M) : ∃ k ∈ L, k ∉ M := by
  by_contra h
  push Not at h
  have hLn : L.Nodup := hL.imp (fun hab => ne_of_lt hab)
  have hMn : M.Nodup := hM.imp (fun hab => ne_of_lt hab)
  have hsub : L.toFinset ⊆ M.toFinset := by
    intro x hx
    rw [List.mem_toFinset] at hx ⊢
    exact h x hx
  have hcL : L.toFinset.card = L.length := List.toFinset_card_of_nodup hLn
  have hcM : M.toFinset.card = M.length := List.toFinset_card_of_nodup hMn
  have heq : L.toFinset = M.toFinset := Finset.eq_of_subset_of_card_le hsub (by omega)
  have hperm : L.Perm M := (List.perm_ext_iff_of_nodup hLn hMn).2 (fun a => by
    have := congrArg (fun s => a ∈ s) heq
    simpa [List.mem_toFinset] using this)
  exact hne (List.Perm.eq_of_pairwise (fun a b _ _ hab hba => absurd hab (lt_asymm hba)) hL hM hperm)

/-- `E1-count`: if every stored key is in the folder, the number of folder keys that are not stored is the difference of the counts. -/
theorem e1_count (G : Finset ℕ) (M : List ℕ) (hMn : M.Nodup) (hsub : M.toFinset ⊆ G) :
    (G \ M.toFinset).card = G.card - M.length := by
  rw [Finset.card_sdiff_of_subset hsub, List.toFinset_card_of_nodup hMn]
