"""usage: mutate.py <repo-rel-file> <old> <new> -- <cli_dev args...>; runs against a scratch copy in /tmp/mut"""
import os, shutil, subprocess, sys
f, old, new = sys.argv[1:4]
rest = sys.argv[5:]
shutil.rmtree("/tmp/mut", ignore_errors=True)
shutil.copytree("/repo/asimap", "/tmp/mut/asimap", ignore=shutil.ignore_patterns("test", "__pycache__"))
p = os.path.join("/tmp/mut", f)
s = open(p).read()
assert s.count(old) >= 1, "pattern not found"
open(p, "w").write(s.replace(old, new, 1))
env = dict(os.environ, PYVC_REPO="/tmp/mut")
sys.exit(subprocess.call(["/verif/.venv/bin/python", "-m", "pyvc.cli_dev"] + rest, env=env, cwd="/verif"))
