"""Regenerate MANIFEST.json from the sidecar registry (claimed = has functions under contract)."""
import json, sys, os
sys.path.insert(0, "/verif")
from contracts import build_registry
from contracts._props import PROPS

reg = build_registry()
props = [json.loads(l) for l in open("/verif/properties.jsonl")]
claimed = {}
for q, c in reg.contracts.items():
    if c.trusted:
        continue
    for p in c.props:
        claimed.setdefault(p, []).append(q)
NA = json.load(open("/verif/not_applicable.json")) if os.path.exists("/verif/not_applicable.json") else {}
checks, na = [], []
for p in props:
    pid = p["id"]
    if pid in claimed and pid in PROPS:
        info = PROPS[pid]
        checks.append({
            "property_id": pid,
            "quick_cmd": f"./check {pid} --tier quick",
            "thorough_cmd": f"./check {pid} --tier thorough",
            "evidence_file": f"evidence/{pid}.json",
            "replay_cmd_template": "./check replay {path}",
            "engine": "pyvc",
            "level_claimed": {"category": info.get("category", "proof"), "text": info["text"], "design_ref": info["design_ref"]},
            "level_note": info["note"],
            "technique": info["technique"],
        })
    else:
        na.append({"property_id": pid, "reason": NA.get(pid, "not yet under contract in this session: no obligation generated for it, so nothing is claimed (DESIGN.md section 10 build order)")})
m = {
    "version": 1,
    "setup_cmd": "./setup.sh",
    "hooks": {
        "guard": "SCANNER_ASIMAP_VERIF",
        "enable": "no hooks: contracts are sidecar files under /verif/contracts; the real source is re-read from /repo on every run",
        "baseline_off_cmd": "cd /repo && /venv/bin/python -m pytest -ra -q -p no:cacheprovider --timeout=900 --continue-on-collection-errors",
        "source_commits": [],
        "add_only": True,
    },
    "engines": [{
        "name": "pyvc", "path": "pyvc/", "serves_properties": sorted(claimed),
        "kind_free_text": "verification-condition generator for a Python subset: re-reads the real functions from /repo with ast on every run, executes them symbolically path by path against sidecar contracts "
                          "(requires/ensures/raises/modifies/loop invariants), discharges named obligations with z3 (cvc5 for unknowns); concrete harness replays counterexamples on the real code",
    }],
    "checks": checks,
    "not_applicable": na,
    "notes": "Exit codes of ./check: 0 held, 1 violation (VIOLATION line), 2 undecided, 3 checker error. Fix commits in /repo are listed in known_findings.json. "
             "quick = every obligation at the every-change budget (z3 resource counts, deterministic) plus the quick-size bounded oracles; thorough = the same obligations with the escalated budget for whatever "
             "the first budget leaves open, and the larger bounded corpora. Obligations are generated from /repo's working tree on every run; nothing is cached. "
             "lean/Pigeonhole.lean (two facts of finite arithmetic that contracts state as preconditions) is re-checked by C02, C11 and C13 when `lean` is on PATH. "
             "No hooks in /repo: contracts are sidecar files.",
}
json.dump(m, open("/verif/MANIFEST.json", "w"), indent=1)
print("claimed:", sorted(c["property_id"] for c in checks))
