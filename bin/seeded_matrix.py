"""Run our checks against every seeded change and write seeded/README.md (+ detection into each meta.json).

usage: seeded_matrix.py [--checks C01,C02,...|own|all] [ids...]
Each patch is applied to a scratch copy of /repo (outside /repo and /verif), checks run from a frozen copy of /verif.
"""
import json, os, re, shutil, subprocess, sys, time

VERIF = "/verif"
args = sys.argv[1:]
mode = "own+related"
if args and args[0] == "--checks":
    mode = args[1]; args = args[2:]
ids = args or sorted(os.listdir(f"{VERIF}/seeded"))
ids = [i for i in ids if os.path.isdir(f"{VERIF}/seeded/{i}")]
claimed = [c["property_id"] for c in json.load(open(f"{VERIF}/MANIFEST.json"))["checks"]]
snap = "/tmp/vsnap_matrix"
shutil.rmtree(snap, ignore_errors=True)
subprocess.run(["rsync", "-a", "--exclude", ".git", "--exclude", ".scratch", "--exclude", "replays", f"{VERIF}/", f"{snap}/"], check=True)
# which properties share source files with the patch
def related(patch):
    files = set(re.findall(r"^\+\+\+ b/(\S+)", patch, re.M))
    sys.path.insert(0, VERIF)
    from contracts import build_registry
    reg = build_registry()
    props = set()
    for q, c in reg.contracts.items():
        if c.path in files:
            props |= set(c.props)
    return props
def run_demo(scratch, d, prop):
    """Run the change's demonstration against the patched scratch copy; 0 = passes."""
    demo = f"{d}/demo.py"
    env = dict(os.environ, PYTHONPATH=scratch)
    txt = open(demo).read()
    try:
        if prop == "C10":
            dst = f"{scratch}/asimap/test/test_demo_seeded.py"
            shutil.copy(demo, dst)
            r = subprocess.run(["/venv/bin/python", "-m", "pytest", "-q", "-p", "no:cacheprovider", "--timeout=300", dst], cwd=scratch, env=env, capture_output=True, text=True, timeout=1200)
            os.unlink(dst)
        elif "def test_" in txt:
            os.makedirs(f"{scratch}/_out", exist_ok=True)
            shutil.copy(demo, f"{scratch}/_out/demo_seeded.py")
            extra = ["-p", "asimap.test.conftest"] if prop == "C15" else []
            r = subprocess.run(["/venv/bin/python", "-m", "pytest", "-q", "-p", "no:cacheprovider", "--timeout=900", *extra, "_out/demo_seeded.py"], cwd=scratch, env=env, capture_output=True, text=True, timeout=1200)
        else:
            os.makedirs(f"{scratch}/_out", exist_ok=True)
            shutil.copy(demo, f"{scratch}/_out/demo_seeded.py")
            r = subprocess.run(["/venv/bin/python", "_out/demo_seeded.py"], cwd=scratch, env=env, capture_output=True, text=True, timeout=1200)
        return r.returncode
    except subprocess.TimeoutExpired:
        return 124


rows = []


def one(sid):
    d = f"{VERIF}/seeded/{sid}"
    patch = open(f"{d}/patch.diff").read()
    meta = json.load(open(f"{d}/meta.json"))
    scratch = f"/tmp/seedrun-{sid}"
    shutil.rmtree(scratch, ignore_errors=True)
    subprocess.run(["rsync", "-a", "--exclude", ".git", "--exclude", "__pycache__", "/repo/", f"{scratch}/"], check=True)
    p = subprocess.run(["patch", "-p1", "-s", "--no-backup-if-mismatch"], cwd=scratch, input=patch, text=True, capture_output=True)
    if p.returncode != 0:
        meta["matrix"] = {"applies_to_current_repo": False, "note": (p.stdout + p.stderr)[-300:]}
        json.dump(meta, open(f"{d}/meta.json", "w"), indent=1)
        rows.append((sid, meta["breaks_property"], "patch no longer applies (the code it changes was repaired since)", "", ""))
        shutil.rmtree(scratch, ignore_errors=True)
        return
    own = meta["breaks_property"]
    if mode == "all":
        checks = claimed
    elif mode == "own":
        checks = [own]
    elif mode == "own+related":
        checks = [c for c in claimed if c == own or c in related(patch)]
    else:
        checks = mode.split(",")
    detected, alarms, detail = [], [], {}
    t0 = time.time()
    for c in checks:
        r = subprocess.run(["./check", c], cwd=snap, env=dict(os.environ, PYVC_REPO=scratch), capture_output=True, text=True)
        lines = [l for l in r.stdout.splitlines() if l.startswith(("VIOLATION", "UNDECIDED", "CHECKER-ERROR"))]
        detail[c] = {"exit": r.returncode, "lines": [l[:200] for l in lines[:6]]}
        if r.returncode == 1:
            detected.append(c)
        elif r.returncode != 0:
            alarms.append(f"{c}:exit{r.returncode}")
    demo_note = ""
    if own not in detected:
        # is the change still a violation on the current tree?  (a later repair may have made it harmless)
        rc = run_demo(scratch, d, own)
        if rc == 0:
            demo_note = "demonstration no longer fails with the patch on the current tree: made harmless by a later repair"
        else:
            demo_note = f"demonstration still fails with the patch (rc={rc})"
    meta["matrix_demo_on_current_tree"] = demo_note
    meta["matrix"] = {"applies_to_current_repo": True, "checks_run": checks, "detected_by": detected, "non_violation_exits": alarms, "detail": detail,
                      "seconds": round(time.time() - t0), "repo_head": subprocess.check_output(["git", "-C", "/repo", "rev-parse", "--short", "HEAD"], text=True).strip()}
    json.dump(meta, open(f"{d}/meta.json", "w"), indent=1)
    first = ""
    for c in detected:
        first = "; ".join(re.sub(r".*replay=replays/", "", l) for l in detail[c]["lines"][:2])
        break
    rows.append((sid, own, ", ".join(detected) or ("no longer a violation (repaired since)" if demo_note.startswith("demonstration no longer") else "MISSED"), ", ".join(alarms), first[:150]))
    shutil.rmtree(scratch, ignore_errors=True)
    print(rows[-1], flush=True)


import concurrent.futures as _cf

with _cf.ThreadPoolExecutor(max_workers=int(os.environ.get("MATRIX_JOBS", "3"))) as _ex:
    list(_ex.map(one, ids))
rows.sort()
shutil.rmtree(snap, ignore_errors=True)
# README: merge with earlier rows for ids not run now
readme = f"{VERIF}/seeded/README.md"
old = {}
if os.path.exists(readme):
    for l in open(readme):
        m = re.match(r"\| (C\d+-m\d+) \|", l)
        if m:
            old[m.group(1)] = l
with open(readme, "w") as f:
    f.write("# Seeded property-breaking changes\n\nWritten by independent sub-agents that were given only a property text and a scratch worktree; each was confirmed here "
            "(patch applies, the demonstration fails with it and passes without, the 513 stable tests still pass) before it was kept. `bin/seeded_matrix.py` applies each patch to a scratch copy of /repo and runs "
            "the checks; a change counts as caught when a check exits 1 with a VIOLATION line. Exits 2/3 (undecided / checker error) are listed separately and are not counted as caught.\n\n"
            "| id | breaks | caught by | other non-zero exits | first failing obligation(s) |\n|----|--------|-----------|----------------------|------------------------------|\n")
    new = {r[0]: "| " + " | ".join(r) + " |\n" for r in rows}
    for sid in sorted(set(old) | set(new)):
        f.write(new.get(sid, old.get(sid)))
print("wrote", readme)
