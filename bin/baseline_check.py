"""Run the repo's suite and compare with BASELINE.json's stable_pass list."""
import json, subprocess, sys, xml.etree.ElementTree as ET, os, tempfile
repo = sys.argv[1] if len(sys.argv) > 1 else "/repo"
out = tempfile.mktemp(suffix=".xml", dir="/tmp")
p = subprocess.run(["/venv/bin/python", "-m", "pytest", "-q", "-p", "no:cacheprovider", "--timeout=900", "--continue-on-collection-errors", f"--junitxml={out}"], cwd=repo, capture_output=True, text=True)
base = json.load(open("/root/.vp/BASELINE.json"))
stable = set(base["stable_pass"])
passed = set()
for tc in ET.parse(out).getroot().iter("testcase"):
    name = f"{tc.get('classname')}::{tc.get('name')}"
    if not any(c.tag in ("failure", "error", "skipped") for c in tc):
        passed.add(name)
os.unlink(out)
missing = sorted(stable - passed)
print(f"stable_pass={len(stable)} passed_now={len(passed)} stable_not_passing={len(missing)}")
for m in missing[:20]:
    print("  REGRESSION", m)
sys.exit(1 if missing else 0)
