#!/bin/bash
# usage: validate_mutants.sh <out-file> <prop:k> ...   (validates sub-agent mutants in a scratch worktree, runs our checks on them)
OUT=$1; shift
WV=/tmp/wv${LANE}
WTP=${WTPREFIX:-/tmp/wt-}
export PYTHONPATH_DEMO=$WV
# run our checks from a frozen copy of /verif so that live edits do not disturb the validation
SNAP=${SNAP:-/tmp/vsnap${LANE}}
OWN_SNAP=1
[ -d "$SNAP/pyvc" ] && OWN_SNAP=0
[ $OWN_SNAP = 1 ] && { rm -rf $SNAP; rsync -a --exclude .git --exclude .scratch --exclude replays /verif/ $SNAP/; }
git -C /repo worktree remove --force $WV 2>/dev/null; rm -rf $WV
git -C /repo worktree add -q --detach $WV HEAD || exit 1
demo() { # prop k
  local p=$1 k=$2
  cd $WV
  export PYTHONPATH=$WV
  if grep -q "def test_" _out/demo$k.py; then
    if [ "$p" = "C10" ] && [ -z "$WTPREFIX" ]; then
      cp _out/demo$k.py asimap/test/test_demo_$k.py; timeout 900 /venv/bin/python -m pytest -q -p no:cacheprovider --timeout=300 asimap/test/test_demo_$k.py >/tmp/demo${LANE}.log 2>&1; rc=$?; rm -f asimap/test/test_demo_$k.py; return $rc
    fi
    if grep -q "asimap.test.conftest" _out/demo$k.py || [ "$p" = "C15" ]; then
      timeout 900 /venv/bin/python -m pytest -q -p no:cacheprovider --timeout=900 -p asimap.test.conftest _out/demo$k.py >/tmp/demo${LANE}.log 2>&1
    else
      timeout 900 /venv/bin/python -m pytest -q -p no:cacheprovider --timeout=900 _out/demo$k.py >/tmp/demo${LANE}.log 2>&1
    fi
  else
    timeout 600 /venv/bin/python _out/demo$k.py >/tmp/demo${LANE}.log 2>&1
  fi
}
for pk in "$@"; do
  p=${pk%%:*}; k=${pk##*:}
  cd $WV && git checkout -q -- . && rm -rf _out && cp -r ${WTP}$p/_out _out
  echo "=== $p mutant$k" >> $OUT
  if ! git apply _out/mutant$k.diff 2>>$OUT; then echo "APPLY-FAILED" >> $OUT; continue; fi
  demo $p $k; echo "demo-with-mutant rc=$? ($(tail -1 /tmp/demo${LANE}.log | cut -c1-100))" >> $OUT
  (cd $SNAP && .venv/bin/python bin/baseline_check.py $WV 2>&1 | head -3 | tr '\n' ' ') >> $OUT; echo >> $OUT
  for c in ${CHECKS:-$p}; do
    (cd $SNAP && PYVC_REPO=$WV ./check $c 2>&1 | grep -E "VIOLATION|HELD|UNDECIDED|CHECKER" | cut -c1-160 | sed "s/^/  check $c: /") >> $OUT
  done
  cd $WV && git checkout -q -- . 
  demo $p $k; echo "demo-clean rc=$?" >> $OUT
done
cd / ; git -C /repo worktree remove --force $WV; rm -rf $WV; [ $OWN_SNAP = 1 ] && rm -rf $SNAP
echo DONE >> $OUT
