import json, sys, jsonschema, glob
sch = json.load(open('/root/.vp/EVIDENCE.schema.json'))
for f in sys.argv[1:] or glob.glob('/verif/evidence/*.json'):
    e = json.load(open(f)); jsonschema.validate(e, sch)
    c = e['coverage']
    print(f, 'valid', e['level'], 'obl', c.get('obligations'), 'dis', c.get('discharged'), 'bounded', [(b['name'], b['cases']) for b in c.get('bounded', [])])
