#!/bin/bash
# regenerate floors (with "floor" arg) and run every claimed check; prints one line per property
cd /verif
[ "$1" = "floor" ] && ./check floor 2>&1 | grep -v WARN | grep -v "discharged$" 
for p in $(python3 -c "import json; print(' '.join(c['property_id'] for c in json.load(open('MANIFEST.json'))['checks']))"); do
  /usr/bin/time -f "%es" ./check $p 2>&1 | grep -v "WARN\|KNOWN-FINDING:" | tail -2 | tr '\n' ' '; echo
done
.venv/bin/python bin/validate_evidence.py | grep -v " valid " 
