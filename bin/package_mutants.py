"""Copy validated sub-agent mutants into /verif/seeded/<id>/ with meta.json (detection filled in by bin/seeded_matrix.sh)."""
import json, os, shutil, sys, re
val = open(sys.argv[1]).read()
blocks = re.split(r"^=== ", val, flags=re.M)[1:]
for b in blocks:
    head = b.splitlines()[0]
    m = re.match(r"(C\d+) mutant(\d+)", head)
    if not m:
        continue
    p, k = m.group(1), m.group(2)
    ok = "demo-with-mutant rc=1" in b and "demo-clean rc=0" in b and "stable_not_passing=0" in b
    if not ok:
        print("skip (not validated):", head); continue
    sid = f"{p}-m{int(k) + int(os.environ.get('ID_OFFSET', '0'))}"
    d = f"/verif/seeded/{sid}"
    os.makedirs(d, exist_ok=True)
    src = os.environ.get("WTPREFIX", "/tmp/wt-") + f"{p}/_out"
    shutil.copy(f"{src}/mutant{k}.diff", f"{d}/patch.diff")
    shutil.copy(f"{src}/demo{k}.py", f"{d}/demo.py")
    shutil.copy(f"{src}/notes{k}.md", f"{d}/notes.md")
    notes = open(f"{src}/notes{k}.md").read()
    detected = sorted(set(re.findall(r"check (C\d+): VIOLATION", b)))
    meta = {
        "id": sid, "breaks_property": p,
        "source": "independent sub-agent given only the property text and a scratch worktree",
        "needs_to_manifest": (re.search(r"(?is)(needs?|manifest)[^\n]*\n(.{0,600})", notes) or [None, None, notes[:400]])[2].strip()[:600],
        "validated": {"applies_to": "repo HEAD at validation time", "demo_fails_with_patch": True, "demo_passes_without": True, "suite_stable_pass_513": True,
                      "how": "bin/validate_mutants.sh in a scratch worktree (git apply; demo; bin/baseline_check.py; undo)"},
        "detected_by_checks_at_validation": detected,
    }
    json.dump(meta, open(f"{d}/meta.json", "w"), indent=1)
    print("packaged", sid, "detected:", detected)
