"""Developer runner: verify one function and print verdicts."""
import sys, time
import os; sys.path.insert(0, os.path.dirname(os.path.dirname(os.path.abspath(__file__))))
from contracts import build_registry
from pyvc.verify import verify_function, verify_many
from pyvc.solve import discharge

def main():
    reg = build_registry()
    names = sys.argv[1:] or list(reg.contracts)
    for q in names:
        t0 = time.time()
        fr = verify_many(reg, [q])[q]
        print(f"== {q}: paths={fr.paths} obligations={len(fr.obligations)} outcomes={fr.outcomes} symex={fr.seconds:.1f}s")
        if fr.error:
            print("   ERROR:", fr.error)
        vs = discharge(fr.obligations, timeout_ms=10000)
        bad = [v for v in vs if v.status != "unsat"]
        print(f"   discharged {len(vs)-len(bad)}/{len(vs)} in {time.time()-t0:.1f}s")
        for v in sorted(vs, key=lambda v: -v.seconds)[:6]:
            print("    slow:", f"{v.seconds:.2f}s", v.name, v.backend, f"path={v.path_id}")
        tr = {(o.name, o.path_id): o.trace for o in fr.obligations}
        for v in bad:
            print("      trace:", tr.get((v.name, v.path_id), "")[-300:])
            print("   ", v.status, v.name, f"path={v.path_id} line={v.line} {v.backend} {v.seconds:.1f}s", v.detail)
            if v.model:
                print("        model:", {k: x.get('val', x.get('raw')) for k, x in v.model.items()})
main()
