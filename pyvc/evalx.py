"""Expression evaluation (mixin for the executor)."""
from __future__ import annotations

import ast

import z3

from . import sorts
from .core import SV, PyRaise, SExc, Unsupported, mk_bool, mk_int, mk_none, mk_str
from .extract import dotted, load_module
from .sorts import (TBool, TDict, TEnum, TInt, TList, TNone, TOpaque, TOpt, TReal, TRef, TSet, TStr,
                    TTuple, TUnion, Ty)

MUTABLE = (TList, TSet, TDict)


class ExprMixin:
    # provided by the executor: self.ctx, self.reg, self.mod, self.spec_mode,
    # self.catchable(cls), self.ordinal(node), self.call(...)

    # ------------------------------------------------------------------
    # raising
    def may_raise(self, cls: str, ok, node, what: str):
        """The operation at `node` raises `cls` unless `ok` holds."""
        if self.spec_mode:
            return
        ok = z3.simplify(ok)
        if z3.is_true(ok):
            return
        if self.catchable(cls):
            if not self.ctx.branch(ok, f"{what}@{getattr(node, 'lineno', '?')}"):
                raise PyRaise(SExc(cls, note=what))
        else:
            self.ctx.oblige(
                f"exc:{cls}:{what}@{self.ordinal(node)}", ok, kind="exc", line=getattr(node, "lineno", None)
            )

    # ------------------------------------------------------------------
    # coercions
    def coerce(self, v: SV, ty: Ty, node=None) -> SV:
        if v.ty == ty:
            return v
        if isinstance(v.ty, TEnum) and ty is TStr and v.ty.values and all(isinstance(x, str) for x in v.ty.values.values()):
            # StrEnum member used as the string it is
            t = z3.StringVal("")
            for mem in v.ty.members:
                t = z3.If(v.t == v.ty.member(mem), z3.StringVal(v.ty.values[mem]), t)
            return SV(TStr, t)
        if isinstance(v.ty, TList) and v.t is None and isinstance(ty, TList):
            return self.empty_list(ty)
        if isinstance(v.ty, TSet) and v.t is None and isinstance(ty, TSet):
            return SV(ty, ty.empty())
        if isinstance(v.ty, TDict) and v.t is None and isinstance(ty, TDict):
            return self.empty_dict(ty)
        if ty is TReal and v.ty is TInt:
            return SV(TReal, z3.ToReal(v.t))
        if ty is TInt and v.ty is TBool:
            return SV(TInt, z3.If(v.t, 1, 0))
        if isinstance(ty, TTuple) and isinstance(v.ty, TTuple) and len(ty.elems) == len(v.ty.elems):
            comps = [self.coerce(SV(e, v.ty.get(v.t, j)), ty.elems[j], node).t for j, e in enumerate(v.ty.elems)]
            return SV(ty, ty.mk(*comps))
        if isinstance(ty, TOpt):
            if v.ty is TNone:
                return SV(ty, ty.none())
            inner = self.coerce(v, ty.inner, node)
            return SV(ty, ty.some(inner.t))
        if isinstance(ty, TUnion):
            i = ty.index_of(v.ty)
            if i is None and isinstance(v.ty, TTuple):
                # tuple of coercible components
                for k, a in enumerate(ty.alts):
                    if isinstance(a, TTuple) and len(a.elems) == len(v.ty.elems):
                        comps = [self.coerce(SV(e, v.ty.get(v.t, j)), a.elems[j]).t for j, e in enumerate(v.ty.elems)]
                        return SV(ty, ty.inject(k, a.mk(*comps)))
            if i is None and isinstance(v.ty, TUnion) and all(ty.index_of(a) is not None for a in v.ty.alts):
                # a narrower union into a wider one: alternative by alternative
                t = None
                for k, a in reversed(list(enumerate(v.ty.alts))):
                    inj = ty.inject(ty.index_of(a), None if a is TNone else v.ty.project(v.t, k))
                    t = inj if t is None else z3.If(v.ty.is_alt(v.t, k), inj, t)
                return SV(ty, t)
            if i is None:
                raise Unsupported(f"cannot coerce {v.ty} to {ty}", node)
            return SV(ty, ty.inject(i, v.t))
        if isinstance(v.ty, TOpt) and v.ty.inner == ty:
            # caller must have established not-None
            return SV(ty, v.ty.get(v.t))
        if isinstance(v.ty, TUnion) and v.ty.index_of(ty) is not None:
            # engine typing discipline: the value must be of that alternative
            i = v.ty.index_of(ty)
            self.may_raise("TypeError", v.ty.is_alt(v.t, i), node, f"typed-as-{ty.name}")
            return SV(ty, v.ty.project(v.t, i))
        if isinstance(ty, TDict) and isinstance(v.ty, TDict) and ty._sname == v.ty._sname:
            return SV(ty, v.t, v.place)
        raise Unsupported(f"cannot coerce {v.ty} to {ty}", node)

    def empty_list(self, ty: TList) -> SV:
        self.ctx.note_ty(ty)
        arr = z3.K(z3.IntSort(), self.default_term(ty.elem))
        L = ty.mk(z3.IntVal(0), arr)
        self.ctx.assume(ty.elems_fn()(L) == TSet(ty.elem).empty())
        return SV(ty, L)

    def empty_dict(self, ty: TDict) -> SV:
        self.ctx.note_ty(ty)
        dom = z3.K(ty.key.sort(), z3.BoolVal(False))
        val = z3.K(ty.key.sort(), self.default_term(ty.val))
        return SV(ty, ty.mk(dom, val))

    def default_term(self, ty: Ty):
        if ty is TInt:
            return z3.IntVal(0)
        if ty is TBool:
            return z3.BoolVal(False)
        if ty is TReal:
            return z3.RealVal(0)
        if ty is TStr:
            return z3.StringVal("")
        if isinstance(ty, TSet):
            return ty.empty()
        if isinstance(ty, TRef):
            return z3.IntVal(0)
        key = "dflt:" + ty.name
        if key not in sorts._cache:
            sorts._cache[key] = z3.Const("dflt_" + sorts._mangle(ty.name), ty.sort())
        return sorts._cache[key]

    # ------------------------------------------------------------------
    # truthiness
    def truth(self, v: SV, node=None):
        ty = v.ty
        if ty is TBool:
            return v.t
        if ty is TInt:
            return v.t != 0
        if ty is TReal:
            return v.t != 0
        if ty is TStr:
            return z3.Length(v.t) > 0
        if ty is TNone:
            return z3.BoolVal(False)
        if isinstance(ty, TList):
            if v.t is None:
                return z3.BoolVal(False)
            return ty.len(v.t) > 0
        if isinstance(ty, TSet):
            if v.t is None:
                return z3.BoolVal(False)
            return v.t != ty.empty()
        if isinstance(ty, TDict):
            if v.t is None:
                return z3.BoolVal(False)
            return ty.dom(v.t) != z3.K(ty.key.sort(), z3.BoolVal(False))
        if isinstance(ty, TOpt):
            inner = SV(ty.inner, ty.get(v.t))
            return z3.And(z3.Not(ty.is_none(v.t)), self.truth(inner, node))
        if isinstance(ty, TUnion):
            parts = []
            for i, a in enumerate(ty.alts):
                if a is TNone:
                    continue
                parts.append(z3.And(ty.is_alt(v.t, i), self.truth(SV(a, ty.project(v.t, i)), node)))
            return z3.Or(*parts)
        if isinstance(ty, (TRef, TEnum, TOpaque, TTuple)):
            if isinstance(ty, TTuple):
                return z3.BoolVal(len(ty.elems) > 0)
            return z3.BoolVal(True)
        raise Unsupported(f"truthiness of {ty}", node)

    # ------------------------------------------------------------------
    def eval(self, node: ast.expr) -> SV:
        m = getattr(self, "ev_" + type(node).__name__, None)
        if m is None:
            raise Unsupported(f"expression {type(node).__name__}", node)
        return m(node)

    def ev_Constant(self, node):
        v = node.value
        if isinstance(v, bool):
            return mk_bool(v)
        if isinstance(v, int):
            return mk_int(v)
        if isinstance(v, float):
            return SV(TReal, z3.RealVal(repr(v)))
        if isinstance(v, str):
            return mk_str(v)
        if isinstance(v, bytes):
            return mk_str(v.decode("latin-1"))
        if v is None:
            return mk_none()
        raise Unsupported(f"constant {v!r}", node)

    def ev_Name(self, node):
        return self.lookup(node.id, node)

    def lookup(self, name: str, node=None) -> SV:
        c = self.ctx
        if name in c.locals:
            v = c.locals[name]
            if v.place is not None and v.place[0] != "local":
                # alias of a heap place: re-read
                cur = self.read_place(v.place)
                return SV(cur.ty, cur.t, v.place)
            return SV(v.ty, v.t, ("local", name), v.py)
        if name in c.globals_:
            v = c.globals_[name]
            return SV(v.ty, v.t, ("global", name))
        if name in ("True", "False"):
            return mk_bool(name == "True")
        if name in self.reg.opaque_names:
            # module-level object outside the subset (e.g. a list of functions): an unconstrained value of the declared type
            key = "opaque_name:" + name
            if key not in c.ghost:
                c.ghost[key] = c.fresh(sorts.parse_ty(self.reg.opaque_names[name]), "m_" + name)
            v = c.ghost[key]
            return SV(v.ty, v.t)
        v = self.module_name(self.mod, name, node)
        if v is not None:
            return v
        if self.spec_mode:
            # specifications may name constants of any module that has contracts (e.g. throttle.PURGE_TIME)
            seen = set()
            for ct in self.reg.contracts.values():
                if ct.path in seen or not ct.path or ct.path.startswith("<"):
                    continue
                seen.add(ct.path)
                try:
                    m = load_module(ct.path)
                except (FileNotFoundError, SyntaxError):
                    continue
                if name in m.const_nodes or name in m.classes:
                    v = self.module_name(m, name, node)
                    if v is not None:
                        return v
        raise Unsupported(f"unknown name {name!r}", node)

    def module_name(self, mod, name: str, node=None, depth=0) -> SV | None:
        """Resolve a module-level name: constants, enum classes, imports."""
        if depth > 6:
            return None
        if name in mod.classes:
            cls = mod.classes[name]
            bases = [dotted(b) or "" for b in cls.bases]
            if any(b.split(".")[-1] in ("Enum", "StrEnum", "IntEnum") for b in bases):
                return SV(None, None, py=("enumcls", self.enum_ty(mod.path, name)))
            return SV(None, None, py=("class", name))
        if name in mod.const_nodes:
            key = (mod.path, name)
            if key in self._const_stack:
                return None
            self._const_stack.add(key)
            try:
                saved = self.mod
                self.mod = mod
                try:
                    sm = self.spec_mode
                    self.spec_mode = True
                    return self.eval(mod.const_nodes[name])
                finally:
                    self.spec_mode = sm
                    self.mod = saved
            finally:
                self._const_stack.discard(key)
        if name in mod.imports:
            rel, orig, modname = mod.imports[name]
            if rel is not None:
                return self.module_name(load_module(rel), orig, node, depth + 1)
            return SV(None, None, py=("extmodule", modname, orig))
        if name in mod.funcs:
            return SV(None, None, py=("func", name))
        return None

    def enum_ty(self, path, clsname) -> TEnum:
        if clsname not in self.reg.enums:
            from .extract import enum_members

            members, values = enum_members(path, clsname)
            self.reg.enums[clsname] = TEnum(clsname, members, values)
        return self.reg.enums[clsname]

    # -- attributes ------------------------------------------------------
    def ev_Attribute(self, node):
        base = self.eval(node.value)
        return self.get_attr(base, node.attr, node)

    def get_attr(self, base: SV, attr: str, node=None) -> SV:
        if base.py is not None:
            kind = base.py[0]
            if kind == "enumcls":
                ety = base.py[1]
                if attr in ety.members:
                    return SV(ety, ety.member(attr))
                raise Unsupported(f"enum {ety.cls} has no member {attr}", node)
            if kind == "extmodule":
                return SV(None, None, py=("extmodule", base.py[1], attr if base.py[2] is None else f"{base.py[2]}.{attr}"))
            if kind == "excinst" and attr in ("value", "args", "msg", "message"):
                # the text carried by a caught exception: only ever formatted into a reply, never interpreted
                return self.ctx.fresh(TStr, "exc_" + attr)
            if kind == "class":
                # class attribute constant, e.g. Mailbox.FOLDER_SIZE_PACK_LIMIT
                cls = self.find_class(base.py[1])
                if cls is not None:
                    for sub in cls.body:
                        if isinstance(sub, ast.Assign) and any(isinstance(t, ast.Name) and t.id == attr for t in sub.targets):
                            return self.eval(sub.value)
                return SV(None, None, py=("classattr", base.py[1], attr))
        if isinstance(base.ty, TRef):
            cd = self.reg.classes.get(base.ty.cls)
            q = f"{base.ty.cls}.{attr}"
            if cd is not None and attr not in cd.fields and q in self.reg.contracts and not self.spec_mode:
                # @property with a contract
                call = ast.Call(func=ast.Attribute(value=ast.Constant(value=None), attr=attr, ctx=ast.Load()), args=[], keywords=[])
                ast.copy_location(call, node) if node is not None else None
                ast.fix_missing_locations(call)
                return self.call_contract(self.reg.contracts[q], base, call)
            key, fty = self.field(base.ty.cls, attr, node)
            arr = self.heap_arr(key, fty)
            r = SV(fty, z3.Select(arr, base.t), ("field", base.t, key, fty))
            self.ctx.assume_wf(r)
            return r
        if isinstance(base.ty, TEnum) and attr in ("value", "name"):
            ety = base.ty
            t = z3.StringVal("")
            for mem in reversed(ety.members):
                val = ety.values.get(mem) if attr == "value" else mem
                if not isinstance(val, str):
                    val = str(val)
                t = z3.If(base.t == ety.member(mem), z3.StringVal(val), t)
            return SV(TStr, t)
        if isinstance(base.ty, TOpt) and isinstance(base.ty.inner, TRef):
            self.may_raise("AttributeError", z3.Not(base.ty.is_none(base.t)), node, "None." + attr)
            return self.get_attr(SV(base.ty.inner, base.ty.get(base.t)), attr, node)
        raise Unsupported(f"attribute {attr} of {base.ty}", node)

    def find_class(self, name):
        if name in self.mod.classes:
            return self.mod.classes[name]
        cd = self.reg.classes.get(name)
        if cd and cd.path:
            return load_module(cd.path).classes.get(name)
        return None

    def field(self, cls: str, attr: str, node=None):
        cd = self.reg.classes.get(cls)
        if cd is None:
            raise Unsupported(f"class {cls} has no field table in the sidecar", node)
        if attr not in cd.fields:
            raise Unsupported(f"field {cls}.{attr} not declared in the sidecar", node)
        return f"{cls}.{attr}", cd.fields[attr]

    def heap_arr(self, key: str, fty: Ty):
        h = self.ctx.heap
        if key not in h:
            self.ctx.note_ty(fty)
            h[key] = z3.Const("H0_" + key.replace(".", "_"), z3.ArraySort(z3.IntSort(), fty.sort()))
            self.ctx.heap0.setdefault(key, h[key])
        return h[key]

    # -- places ---------------------------------------------------------
    def read_place(self, place) -> SV:
        kind = place[0]
        if kind == "local":
            v = self.ctx.locals[place[1]]
            return SV(v.ty, v.t)
        if kind == "global":
            v = self.ctx.globals_[place[1]]
            return SV(v.ty, v.t)
        if kind == "field":
            _, ref, key, fty = place
            return SV(fty, z3.Select(self.heap_arr(key, fty), ref))
        if kind == "item":
            _, base, k, cty = place
            b = self.read_place(base)
            if isinstance(cty, TDict):
                return SV(cty.val, z3.Select(cty.val_(b.t), k))
            if isinstance(cty, TList):
                return SV(cty.elem, z3.Select(cty.arr(b.t), k))
        raise Unsupported(f"read_place {place}")

    def write_place(self, place, v: SV, rebind=False):
        kind = place[0]
        c = self.ctx
        if rebind:
            self.detach_aliases(place)
        if kind == "local":
            old = c.locals.get(place[1])
            if old is not None and old.place is not None and old.place[0] != "local" and not rebind:
                return self.write_place(old.place, v)
            c.locals[place[1]] = SV(v.ty, v.t, None, v.py)
            return
        if kind == "global":
            c.globals_[place[1]] = SV(v.ty, v.t)
            return
        if kind == "field":
            _, ref, key, fty = place
            v = self.coerce(v, fty)
            c.heap[key] = z3.Store(self.heap_arr(key, fty), ref, v.t)
            c.written.add(key)
            return
        if kind == "item":
            _, base, k, cty = place
            b = self.read_place(base)
            if isinstance(cty, TDict):
                v = self.coerce(v, cty.val)
                nb = cty.mk(z3.Store(cty.dom(b.t), k, True), z3.Store(cty.val_(b.t), k, v.t))
                return self.write_place(base, SV(b.ty, nb))
            if isinstance(cty, TList):
                v = self.coerce(v, cty.elem)
                nb = cty.mk(cty.len(b.t), z3.Store(cty.arr(b.t), k, v.t))
                return self.write_place(base, SV(b.ty, nb))
        raise Unsupported(f"write_place {place}")

    def detach_aliases(self, place):
        """`place` is being rebound: locals aliasing it keep the old object."""
        for name, v in list(self.ctx.locals.items()):
            if v.place is not None and v.place[0] != "local" and self.place_prefix(place, v.place):
                cur = self.read_place(v.place)
                self.ctx.locals[name] = SV(cur.ty, cur.t, None)

    def place_prefix(self, p, q) -> bool:
        """Is p equal to q or a prefix (container) of q?  Conservative: same
        field key counts as overlapping."""
        while True:
            if p[0] == q[0] == "field" and p[2] == q[2]:
                return True
            if p[0] == q[0] == "global" and p[1] == q[1]:
                return True
            if p[0] == q[0] == "local" and p[1] == q[1]:
                return True
            if q[0] == "item":
                q = q[1]
                continue
            if p[0] == "item":
                p = p[1]
                continue
            return False

    # -- subscripts -----------------------------------------------------
    def ev_Subscript(self, node):
        base = self.eval(node.value)
        if isinstance(node.slice, ast.Slice):
            return self.eval_slice(base, node.slice, node)
        idx = self.eval(node.slice)
        return self.get_item(base, idx, node)

    def get_item(self, base: SV, idx: SV, node=None) -> SV:
        ty = base.ty
        if isinstance(ty, TOpt):
            self.may_raise("TypeError", z3.Not(ty.is_none(base.t)), node, "None[]")
            base = SV(ty.inner, ty.get(base.t), base.place)
            ty = base.ty
        if isinstance(ty, TList):
            if base.t is None:
                self.may_raise("IndexError", z3.BoolVal(False), node, "index")
                raise Unsupported("index into untyped empty list", node)
            idx = self.as_int(idx, node)
            ln = ty.len(base.t)
            self.may_raise("IndexError", z3.And(idx.t >= -ln, idx.t < ln), node, "index")
            # in specifications an index is a plain position (no python negative-index wrap-around):
            # keeps quantified contract clauses free of `ite` so the solver can use them as triggers
            i = idx.t if self.spec_mode else z3.simplify(z3.If(idx.t < 0, idx.t + ln, idx.t))
            place = ("item", base.place, i, ty) if base.place is not None else None
            self.ctx.note_ty(ty)
            return SV(ty.elem, z3.Select(ty.arr(base.t), i), place)
        if isinstance(ty, TDict):
            k = self.coerce(idx, ty.key, node)
            if ty.default == "set":
                # defaultdict: a read inserts the default
                if not self.spec_mode and base.place is not None:
                    dom, val = ty.dom(base.t), ty.val_(base.t)
                    newval = z3.Store(val, k.t, z3.If(z3.Select(dom, k.t), z3.Select(val, k.t), self.default_term(ty.val)))
                    nb = ty.mk(z3.Store(dom, k.t, True), newval)
                    self.write_place(base.place, SV(ty, nb))
                    base = SV(ty, nb, base.place)
                    return SV(ty.val, z3.Select(ty.val_(nb), k.t), ("item", base.place, k.t, ty))
                dom, val = ty.dom(base.t), ty.val_(base.t)
                t = z3.If(z3.Select(dom, k.t), z3.Select(val, k.t), self.default_term(ty.val))
                return SV(ty.val, t, ("item", base.place, k.t, ty) if base.place else None)
            self.may_raise("KeyError", z3.Select(ty.dom(base.t), k.t), node, "key")
            place = ("item", base.place, k.t, ty) if base.place is not None else None
            return SV(ty.val, z3.Select(ty.val_(base.t), k.t), place)
        if isinstance(ty, sorts.TRecord):
            k = z3.simplify(idx.t)
            if not z3.is_string_value(k) or k.as_string() not in ty.fields:
                raise Unsupported("record key must be a declared constant", node)
            key = k.as_string()
            r = SV(ty.fields[key], ty.get(base.t, key))
            self.ctx.assume_wf(r)
            return r
        if isinstance(ty, TTuple):
            i = self.const_int(idx, node)
            if i < 0:
                i += len(ty.elems)
            if not (0 <= i < len(ty.elems)):
                self.may_raise("IndexError", z3.BoolVal(False), node, "tuple index")
                raise Unsupported("tuple index out of range", node)
            return SV(ty.elems[i], ty.get(base.t, i))
        if ty is TStr:
            idx = self.as_int(idx, node)
            ln = z3.Length(base.t)
            self.may_raise("IndexError", z3.And(idx.t >= -ln, idx.t < ln), node, "str index")
            i = z3.If(idx.t < 0, idx.t + ln, idx.t)
            return SV(TStr, z3.SubString(base.t, i, 1))
        if isinstance(ty, TOpaque) and f"{ty._n}.__getitem__" in self.reg.contracts and not self.spec_mode:
            return self.call_contract_values(self.reg.contracts[f"{ty._n}.__getitem__"], base, [idx], node)
        if isinstance(ty, TUnion):
            # subscript requires a tuple/list alternative
            for i, a in enumerate(ty.alts):
                if isinstance(a, (TTuple, TList)):
                    self.may_raise("TypeError", ty.is_alt(base.t, i), node, "subscript")
                    return self.get_item(SV(a, ty.project(base.t, i)), idx, node)
        raise Unsupported(f"subscript of {ty}", node)

    def const_int(self, v: SV, node=None) -> int:
        t = z3.simplify(v.t)
        if z3.is_int_value(t):
            return t.as_long()
        raise Unsupported("constant integer required", node)

    def as_int(self, v: SV, node=None) -> SV:
        if v.ty is TInt:
            return v
        if v.ty is TBool:
            return SV(TInt, z3.If(v.t, 1, 0))
        if isinstance(v.ty, TUnion):
            i = v.ty.index_of(TInt)
            if i is not None:
                self.may_raise("TypeError", v.ty.is_alt(v.t, i), node, "int expected")
                return SV(TInt, v.ty.project(v.t, i))
        if isinstance(v.ty, TOpt) and v.ty.inner is TInt:
            self.may_raise("TypeError", z3.Not(v.ty.is_none(v.t)), node, "int expected, got None")
            return SV(TInt, v.ty.get(v.t))
        raise Unsupported(f"int expected, got {v.ty}", node)

    def eval_slice(self, base: SV, sl: ast.Slice, node):
        if sl.step is not None:
            raise Unsupported("slice step", node)
        lo = self.as_int(self.eval(sl.lower), node).t if sl.lower is not None else None
        hi = self.as_int(self.eval(sl.upper), node).t if sl.upper is not None else None
        if isinstance(base.ty, TList):
            ty = base.ty
            ln = ty.len(base.t)

            def norm(x, dflt):
                if x is None:
                    return dflt
                x = z3.If(x < 0, x + ln, x)
                return z3.If(x < 0, 0, z3.If(x > ln, ln, x))

            a, b = norm(lo, z3.IntVal(0)), norm(hi, ln)
            nlen = z3.If(b > a, b - a, 0)
            arr = self.ctx.fresh_term(z3.ArraySort(z3.IntSort(), ty.elem.sort()), "slice")
            j = z3.Int("j!sl")
            self.ctx.assume(sorts.forall([j], z3.Select(arr, j) == z3.Select(ty.arr(base.t), j + a), patterns=[z3.Select(arr, j)]))
            R = ty.mk(z3.simplify(nlen), arr)
            self.ctx.assume(z3.IsSubset(ty.elems_fn()(R), ty.elems_fn()(base.t)))
            return SV(ty, R)
        if base.ty is TStr:
            ln = z3.Length(base.t)

            def norm(x, dflt):
                if x is None:
                    return dflt
                x = z3.If(x < 0, x + ln, x)
                return z3.If(x < 0, 0, z3.If(x > ln, ln, x))

            a, b = norm(lo, z3.IntVal(0)), norm(hi, ln)
            return SV(TStr, z3.SubString(base.t, a, z3.If(b > a, b - a, 0)))
        raise Unsupported(f"slice of {base.ty}", node)

    # -- operators ------------------------------------------------------
    def ev_UnaryOp(self, node):
        v = self.eval(node.operand)
        if isinstance(node.op, ast.Not):
            return mk_bool(z3.Not(self.truth(v, node)))
        if isinstance(node.op, ast.USub):
            if v.ty is TReal:
                return SV(TReal, -v.t)
            return SV(TInt, -self.as_int(v, node).t)
        raise Unsupported("unary op", node)

    def ev_BoolOp(self, node):
        # `x or ()` / `x or []` with x an optional container: the container or an empty one
        if isinstance(node.op, ast.Or) and len(node.values) == 2 and isinstance(node.values[1], (ast.Tuple, ast.List)) and not node.values[1].elts:
            v = self.eval(node.values[0])
            if isinstance(v.ty, TOpt) and isinstance(v.ty.inner, TSet):
                ity = v.ty.inner
                return SV(ity, z3.If(v.ty.is_none(v.t), ity.empty(), v.ty.get(v.t)))
        # short-circuit with branching only when operands may have effects or
        # non-bool types; pure bool operands become And/Or terms
        vals = []
        is_and = isinstance(node.op, ast.And)
        for i, sub in enumerate(node.values):
            v = self.eval(sub)
            if i == len(node.values) - 1:
                vals.append(v)
                break
            t = self.truth(v, sub)
            if self.pure(node.values[i + 1 :]):
                vals.append(v)
                continue
            # following operands are effectful/partial: branch
            taken = self.ctx.branch(t, f"boolop@{node.lineno}")
            if is_and and not taken:
                return self._boolop_result(vals + [v], is_and, short=True)
            if not is_and and taken:
                return self._boolop_result(vals + [v], is_and, short=True)
            vals.append(v)
        return self._boolop_result(vals, is_and)

    def _boolop_result(self, vals, is_and, short=False):
        if all(v.ty is TBool for v in vals):
            ts = [v.t for v in vals]
            return mk_bool(z3.And(*ts) if is_and else z3.Or(*ts))
        # value-returning and/or: result is the deciding operand
        if short or len(vals) == 1:
            return vals[-1]
        res = vals[-1]
        for v in reversed(vals[:-1]):
            t = self.truth(v)
            if v.ty != res.ty:
                # only truthiness is meaningful
                res = mk_bool(z3.And(t, self.truth(res)) if is_and else z3.Or(t, self.truth(res)))
            else:
                res = SV(v.ty, z3.If(t, res.t, v.t) if is_and else z3.If(t, v.t, res.t))
        return res

    def pure(self, nodes) -> bool:
        """Syntactically total & effect-free in the current mode?"""
        if self.spec_mode:
            return True
        for n in nodes:
            for sub in ast.walk(n):
                if isinstance(sub, ast.Attribute) and not (isinstance(sub.value, ast.Name) and sub.value.id == "self"):
                    return False  # may be an attribute of None
                if isinstance(sub, (ast.Call, ast.Subscript, ast.Await, ast.BinOp)):
                    if isinstance(sub, ast.BinOp) and not isinstance(sub.op, (ast.Div, ast.FloorDiv, ast.Mod)):
                        continue
                    if isinstance(sub, ast.Call) and self.is_pure_call(sub):
                        continue
                    return False
                if isinstance(sub, ast.Compare) and any(isinstance(o, (ast.Lt, ast.LtE, ast.Gt, ast.GtE)) for o in sub.ops):
                    # ordering comparisons may raise TypeError on unions
                    return False
        return True

    def is_pure_call(self, call: ast.Call) -> bool:
        d = dotted(call.func)
        return d in ("len", "isinstance", "bool")

    def ev_IfExp(self, node):
        t = self.truth(self.eval(node.test), node)
        if self.pure([node.body, node.orelse]):
            a, b = self.eval(node.body), self.eval(node.orelse)
            a, b = self.unify(a, b, node)
            return SV(a.ty, z3.If(t, a.t, b.t))
        if self.ctx.branch(t, f"ifexp@{node.lineno}"):
            return self.eval(node.body)
        return self.eval(node.orelse)

    def unify(self, a: SV, b: SV, node=None):
        if a.ty == b.ty:
            return a, b
        if a.ty is TNone:
            ty = b.ty if isinstance(b.ty, TOpt) else TOpt(b.ty)
            return self.coerce(a, ty), self.coerce(b, ty)
        if b.ty is TNone:
            ty = a.ty if isinstance(a.ty, TOpt) else TOpt(a.ty)
            return self.coerce(a, ty), self.coerce(b, ty)
        if {a.ty, b.ty} == {TInt, TReal}:
            return self.coerce(a, TReal), self.coerce(b, TReal)
        if isinstance(a.ty, TOpt) and a.ty.inner == b.ty:
            return a, self.coerce(b, a.ty)
        if isinstance(b.ty, TOpt) and b.ty.inner == a.ty:
            return self.coerce(a, b.ty), b
        if isinstance(a.ty, TUnion):
            return a, self.coerce(b, a.ty, node)
        if isinstance(b.ty, TUnion):
            return self.coerce(a, b.ty, node), b
        if isinstance(a.ty, TList) and a.t is None:
            return self.coerce(a, b.ty), b
        if isinstance(b.ty, TList) and b.t is None:
            return a, self.coerce(b, a.ty)
        raise Unsupported(f"cannot unify {a.ty} and {b.ty}", node)

    def ev_BinOp(self, node):
        a, b = self.eval(node.left), self.eval(node.right)
        return self.binop(node.op, a, b, node)

    def binop(self, op, a: SV, b: SV, node=None) -> SV:
        if isinstance(a.ty, TList) and isinstance(b.ty, TList) and isinstance(op, ast.Add):
            return self.list_concat(a, b, node)
        if a.ty is TStr and b.ty is TStr and isinstance(op, ast.Add):
            return SV(TStr, z3.Concat(a.t, b.t))
        if isinstance(a.ty, TList) and a.t is not None and b.ty is TInt and isinstance(op, ast.Mult):
            # list repetition: an otherwise unconstrained list of the right length whose elements all come from the operand
            r = self.ctx.fresh(a.ty, "rep")
            self.ctx.note_ty(a.ty)
            self.ctx.assume_wf(r)
            ln = a.ty.len(a.t)
            self.ctx.assume(a.ty.len(r.t) == z3.If(b.t > 0, ln * b.t, 0))
            j = z3.Int("j!rep")
            self.ctx.assume(z3.ForAll([j], z3.Implies(z3.And(j >= 0, j < a.ty.len(r.t)), z3.Select(a.ty.elems_fn()(a.t), z3.Select(a.ty.arr(r.t), j)))))
            return r
        if a.ty is TStr and isinstance(op, ast.Mod):
            return self.ctx.fresh(TStr, "fmt")
        if isinstance(a.ty, TSet) and isinstance(b.ty, TSet):
            a, b = self.unify_sets(a, b)
            if isinstance(op, ast.Sub):
                return SV(a.ty, z3.SetDifference(a.t, b.t))
            if isinstance(op, ast.BitOr):
                return SV(a.ty, z3.SetUnion(a.t, b.t))
            if isinstance(op, ast.BitAnd):
                return SV(a.ty, z3.SetIntersect(a.t, b.t))
        if a.ty is TReal or b.ty is TReal or isinstance(op, ast.Div):
            x = self.coerce(self.num(a, node), TReal).t
            y = self.coerce(self.num(b, node), TReal).t
            if isinstance(op, ast.Add):
                return SV(TReal, x + y)
            if isinstance(op, ast.Sub):
                return SV(TReal, x - y)
            if isinstance(op, ast.Mult):
                return SV(TReal, x * y)
            if isinstance(op, ast.Div):
                self.may_raise("ZeroDivisionError", y != 0, node, "div")
                return SV(TReal, x / y)
            raise Unsupported("real binop", node)
        x, y = self.as_int(a, node).t, self.as_int(b, node).t
        if isinstance(op, ast.Add):
            return SV(TInt, x + y)
        if isinstance(op, ast.Sub):
            return SV(TInt, x - y)
        if isinstance(op, ast.Mult):
            return SV(TInt, x * y)
        if isinstance(op, ast.FloorDiv):
            self.may_raise("ZeroDivisionError", y != 0, node, "floordiv")
            # SMT div is floor division for a positive divisor
            return SV(TInt, z3.If(y > 0, x / y, (-x) / (-y)))
        if isinstance(op, ast.Mod):
            self.may_raise("ZeroDivisionError", y != 0, node, "mod")
            # python's remainder has the sign of the divisor
            return SV(TInt, z3.If(y > 0, x % y, -((-x) % (-y))))
        raise Unsupported("int binop " + type(op).__name__, node)

    def num(self, v: SV, node=None) -> SV:
        if v.ty in (TInt, TReal):
            return v
        return self.as_int(v, node)

    def unify_sets(self, a, b):
        if a.t is None and b.t is None:
            raise Unsupported("two untyped empty sets")
        if a.t is None:
            a = SV(b.ty, b.ty.empty())
        if b.t is None:
            b = SV(a.ty, a.ty.empty())
        return a, b

    def list_concat(self, a: SV, b: SV, node=None) -> SV:
        if a.t is None:
            return b
        if b.t is None:
            return a
        ty = a.ty
        b = self.coerce(b, ty, node)
        la, lb = ty.len(a.t), ty.len(b.t)
        arr = self.ctx.fresh_term(z3.ArraySort(z3.IntSort(), ty.elem.sort()), "cat")
        j = z3.Int("j!cat")
        self.ctx.assume(
            sorts.forall([j], z3.Select(arr, j) == z3.If(j < la, z3.Select(ty.arr(a.t), j), z3.Select(ty.arr(b.t), j - la)), patterns=[z3.Select(arr, j)])
        )
        R = ty.mk(z3.simplify(la + lb), arr)
        el = ty.elems_fn()
        self.ctx.assume(el(R) == z3.SetUnion(el(a.t), el(b.t)))
        return SV(ty, R)

    # -- comparisons ----------------------------------------------------
    def ev_Compare(self, node):
        left = self.eval(node.left)
        parts = []
        for op, rn in zip(node.ops, node.comparators):
            right = self.eval(rn)
            parts.append(self.compare(op, left, right, node))
            left = right
        return mk_bool(z3.And(*parts) if len(parts) > 1 else parts[0])

    def compare(self, op, a: SV, b: SV, node=None):
        if isinstance(op, (ast.Eq, ast.Is)):
            return self.equals(a, b, node)
        if isinstance(op, (ast.NotEq, ast.IsNot)):
            return z3.Not(self.equals(a, b, node))
        if isinstance(op, ast.In):
            return self.contains(b, a, node)
        if isinstance(op, ast.NotIn):
            return z3.Not(self.contains(b, a, node))
        # ordering
        if a.ty is TStr and b.ty is TStr:
            x, y = a.t, b.t
            if isinstance(op, ast.Lt):
                return x < y
            if isinstance(op, ast.LtE):
                return x <= y
            if isinstance(op, ast.Gt):
                return y < x
            return y <= x
        if a.ty is TReal or b.ty is TReal:
            x, y = self.coerce(self.num(a, node), TReal).t, self.coerce(self.num(b, node), TReal).t
        else:
            x, y = self.as_int(a, node).t, self.as_int(b, node).t
        if isinstance(op, ast.Lt):
            return x < y
        if isinstance(op, ast.LtE):
            return x <= y
        if isinstance(op, ast.Gt):
            return x > y
        if isinstance(op, ast.GtE):
            return x >= y
        raise Unsupported("compare op", node)

    def equals(self, a: SV, b: SV, node=None):
        if a.py is not None or b.py is not None:
            raise Unsupported("equality on non-value", node)
        if a.ty is TStr and b.ty is TStr:
            # x.lower() == "const"  (resp. upper): decided as a case-insensitive match of x
            for u, v in ((a, b), (b, a)):
                ut, vt = z3.simplify(u.t), z3.simplify(v.t)
                if z3.is_app(ut) and ut.decl().name() in ("str_lower", "str_upper") and z3.is_string_value(vt):
                    const = vt.as_string()
                    want = const.lower() if ut.decl().name() == "str_lower" else const.upper()
                    if const != want:
                        return z3.BoolVal(False)
                    parts = [z3.Union(z3.Re(ch.lower()), z3.Re(ch.upper())) if ch.lower() != ch.upper() else z3.Re(ch) for ch in const]
                    rx = z3.Concat(*parts) if len(parts) > 1 else (parts[0] if parts else z3.Re(""))
                    return z3.InRe(ut.arg(0), rx)
        if a.ty == b.ty:
            return self.eq_same(a.ty, a.t, b.t)
        # None comparisons
        if b.ty is TNone:
            a, b = b, a
        if a.ty is TNone:
            if isinstance(b.ty, TOpt):
                return b.ty.is_none(b.t)
            if isinstance(b.ty, TUnion):
                i = b.ty.index_of(TNone)
                return b.ty.is_alt(b.t, i) if i is not None else z3.BoolVal(False)
            return z3.BoolVal(False)
        if isinstance(a.ty, TOpt) and not isinstance(b.ty, TOpt):
            a, b = b, a
        if isinstance(b.ty, TOpt):
            inner = SV(b.ty.inner, b.ty.get(b.t))
            return z3.And(z3.Not(b.ty.is_none(b.t)), self.equals(a, inner, node))
        if isinstance(a.ty, TUnion) and not isinstance(b.ty, TUnion):
            a, b = b, a
        if isinstance(b.ty, TUnion):
            i = b.ty.index_of(a.ty)
            if i is None:
                if a.ty is TBool and b.ty.index_of(TInt) is not None:
                    return self.equals(self.as_int(a), b, node)
                return z3.BoolVal(False)
            return z3.And(b.ty.is_alt(b.t, i), self.eq_same(a.ty, a.t, b.ty.project(b.t, i)))
        if {a.ty, b.ty} <= {TInt, TReal, TBool}:
            x = self.coerce(self.num(a), TReal).t
            y = self.coerce(self.num(b), TReal).t
            return x == y
        if isinstance(a.ty, (TList, TSet, TDict)) and a.t is None:
            return z3.Not(self.truth(b))
        if isinstance(b.ty, (TList, TSet, TDict)) and b.t is None:
            return z3.Not(self.truth(a))
        if isinstance(a.ty, TEnum) and b.ty is TStr:
            return self.get_attr(a, "value").t == b.t
        if isinstance(b.ty, TEnum) and a.ty is TStr:
            return self.get_attr(b, "value").t == a.t
        if isinstance(a.ty, TDict) and isinstance(b.ty, TDict) and a.ty._sname == b.ty._sname:
            return self.eq_same(a.ty, a.t, b.t)
        return z3.BoolVal(False)

    def eq_same(self, ty: Ty, x, y):
        if isinstance(ty, TList):
            if x is None and y is None:
                return z3.BoolVal(True)
            if x is None:
                return ty.len(y) == 0
            if y is None:
                return ty.len(x) == 0
            j = z3.Int("j!eq")
            inner = self.eq_same(ty.elem, z3.Select(ty.arr(x), j), z3.Select(ty.arr(y), j))
            return z3.And(
                ty.len(x) == ty.len(y),
                sorts.forall([j], z3.Implies(z3.And(0 <= j, j < ty.len(x)), inner)),
            )
        if isinstance(ty, TDict):
            k = z3.Const("k!eq", ty.key.sort())
            inner = self.eq_same(ty.val, z3.Select(ty.val_(x), k), z3.Select(ty.val_(y), k))
            return z3.And(ty.dom(x) == ty.dom(y), sorts.forall([k], z3.Implies(z3.Select(ty.dom(x), k), inner)))
        if isinstance(ty, TSet):
            if x is None:
                x = ty.empty()
            if y is None:
                y = ty.empty()
            return x == y
        if isinstance(ty, TTuple):
            return z3.And(*[self.eq_same(e, ty.get(x, i), ty.get(y, i)) for i, e in enumerate(ty.elems)]) if ty.elems else z3.BoolVal(True)
        if isinstance(ty, TOpt):
            return z3.Or(
                z3.And(ty.is_none(x), ty.is_none(y)),
                z3.And(z3.Not(ty.is_none(x)), z3.Not(ty.is_none(y)), self.eq_same(ty.inner, ty.get(x), ty.get(y))),
            )
        return x == y

    def contains(self, cont: SV, x: SV, node=None):
        ty = cont.ty
        if cont.py is not None and cont.py[0] == "enumcls":
            return z3.BoolVal(isinstance(x.ty, TEnum) and x.ty == cont.py[1])
        if isinstance(ty, TOpt):
            self.may_raise("TypeError", z3.Not(ty.is_none(cont.t)), node, "in None")
            return self.contains(SV(ty.inner, ty.get(cont.t)), x, node)
        if isinstance(ty, TList):
            if cont.t is None:
                return z3.BoolVal(False)
            self.ctx.note_ty(ty)
            if x.ty != ty.elem:
                try:
                    x = self.coerce(x, ty.elem, node)
                except Unsupported:
                    return z3.BoolVal(False)
            return z3.Select(ty.elems_fn()(cont.t), x.t)
        if isinstance(ty, TSet):
            if cont.t is None:
                return z3.BoolVal(False)
            if x.ty != ty.elem:
                try:
                    x = self.coerce(x, ty.elem, node)
                except Unsupported:
                    return z3.BoolVal(False)
            return z3.Select(cont.t, x.t)
        if isinstance(ty, TDict):
            if cont.t is None:
                return z3.BoolVal(False)
            x = self.coerce(x, ty.key, node)
            return z3.Select(ty.dom(cont.t), x.t)
        if isinstance(ty, TTuple):
            return z3.Or(*[self.equals(SV(e, ty.get(cont.t, i)), x, node) for i, e in enumerate(ty.elems)]) if ty.elems else z3.BoolVal(False)
        if ty is TStr and x.ty is TStr:
            return z3.Contains(cont.t, x.t)
        if isinstance(ty, TOpaque) and f"{ty._n}.__contains__" in self.reg.contracts and not self.spec_mode:
            return self.truth(self.call_contract_values(self.reg.contracts[f"{ty._n}.__contains__"], cont, [x], node))
        raise Unsupported(f"'in' on {ty}", node)

    # -- literals --------------------------------------------------------
    def ev_Tuple(self, node):
        vals = [self.eval(e) for e in node.elts]
        ty = TTuple([v.ty for v in vals])
        return SV(ty, ty.mk(*[v.t for v in vals]))

    def ev_List(self, node):
        if not node.elts:
            return SV(TList(None) if False else _EMPTY_LIST, None)
        vals = [self.eval(e) for e in node.elts]
        ety = vals[0].ty
        for v in vals[1:]:
            if v.ty != ety:
                raise Unsupported("heterogeneous list literal", node)
        ty = TList(ety)
        L = self.empty_list(ty)
        for v in vals:
            L = self.list_append(L, v)
        return L

    def ev_Set(self, node):
        vals = [self.eval(e) for e in node.elts]
        ety = vals[0].ty
        ty = TSet(ety)
        t = ty.empty()
        for v in vals:
            t = z3.Store(t, self.coerce(v, ety, node).t, True)
        self.ctx.note_ty(ty)
        return SV(ty, t)

    def ev_Dict(self, node):
        if not node.keys:
            return SV(_EMPTY_DICT, None)
        pairs = [(self.eval(k), self.eval(v)) for k, v in zip(node.keys, node.values)]
        return self.dict_from_pairs(pairs, node)

    def dict_from_pairs(self, pairs, node=None):
        kty, vty = pairs[0][0].ty, pairs[0][1].ty
        for k, v in pairs:
            if k.ty != kty or v.ty != vty:
                raise Unsupported("heterogeneous dict literal", node)
        ty = TDict(kty, vty)
        d = self.empty_dict(ty)
        dom, val = ty.dom(d.t), ty.val_(d.t)
        for k, v in pairs:
            dom = z3.Store(dom, k.t, True)
            val = z3.Store(val, k.t, v.t)
        return SV(ty, ty.mk(dom, val), py=("dictlit", pairs))

    def list_append(self, L: SV, x: SV) -> SV:
        ty = L.ty
        x = self.coerce(x, ty.elem)
        ln = ty.len(L.t)
        R = ty.mk(z3.simplify(ln + 1), z3.Store(ty.arr(L.t), ln, x.t))
        el = ty.elems_fn()
        self.ctx.assume(el(R) == z3.Store(el(L.t), x.t, True))
        return SV(ty, R)

    def ev_JoinedStr(self, node):
        parts = []
        for v in node.values:
            if isinstance(v, ast.Constant):
                parts.append(z3.StringVal(v.value))
            else:
                parts.append(self.format_value(v))
        if not parts:
            return mk_str("")
        return SV(TStr, z3.Concat(*parts) if len(parts) > 1 else parts[0])

    def format_value(self, fv: ast.FormattedValue):
        val = self.eval(fv.value)
        if fv.format_spec is not None or fv.conversion not in (-1, 115):
            return self.ctx.fresh(TStr, "fmt").t
        return self.to_str(val).t

    def to_str(self, val: SV) -> SV:
        if val.ty is TStr:
            return val
        if val.ty is TInt:
            # level-1 string encoding (DESIGN 2.2): str(int) is a named injective function whose
            # value is a decimal numeral; constants are folded
            t = z3.simplify(val.t)
            if z3.is_int_value(t):
                return mk_str(str(t.as_long()))
            r = _istr()(val.t)
            digits = z3.Plus(z3.Range("0", "9"))
            self.ctx.assume(z3.InRe(r, z3.Union(digits, z3.Concat(z3.Re("-"), digits))))
            self.ctx.assume(z3.PrefixOf(z3.StringVal("-"), r) == (val.t < 0))
            self.ctx.assume(_istr_inv()(r) == val.t)
            return SV(TStr, r)
        if isinstance(val.ty, TEnum):
            # StrEnum: str() is the value
            return self.get_attr(val, "value")
        if val.ty is TBool:
            return SV(TStr, z3.If(val.t, z3.StringVal("True"), z3.StringVal("False")))
        if isinstance(val.ty, TOpt) and val.ty.inner in (TStr, TInt, TBool):
            inner = self.to_str(SV(val.ty.inner, val.ty.get(val.t)))
            return SV(TStr, z3.If(val.ty.is_none(val.t), z3.StringVal("None"), inner.t))
        return self.ctx.fresh(TStr, "str")

    def ev_Await(self, node):
        v = self.eval(node.value)
        return v

    def ev_NamedExpr(self, node):
        v = self.eval(node.value)
        self.ctx.locals[node.target.id] = SV(v.ty, v.t)
        return v

    def ev_Lambda(self, node):
        return SV(None, None, py=("lambda", node, dict(self.ctx.locals)))


class _Empty(TList):
    def __init__(self):
        self.elem = None
        self.name = "list[?]"


class _EmptyD(TDict):
    def __init__(self):
        self.key = None
        self.val = None
        self.default = None
        self.name = "dict[?]"
        self._sname = "dict[?]"


_EMPTY_LIST = _Empty()
_EMPTY_DICT = _EmptyD()


def _istr():
    if "istr" not in sorts._cache:
        sorts._cache["istr"] = z3.Function("py_str_of_int", z3.IntSort(), z3.StringSort())
    return sorts._cache["istr"]


def _istr_inv():
    if "istr_inv" not in sorts._cache:
        sorts._cache["istr_inv"] = z3.Function("py_int_of_str", z3.StringSort(), z3.IntSort())
    return sorts._cache["istr_inv"]
