"""Statement execution, contract application and the per-function driver."""
from __future__ import annotations

import ast
import re
from dataclasses import dataclass, field

import z3

from . import sorts
from .calls import _EMPTY_SET, CallMixin
from .core import (Ctx, Infeasible, Obligation, PathEnd, PyRaise, SExc, SV, Unsupported, _Break,
                   _Continue, _Return, mk_bool, mk_int, mk_none, mk_str)
from .evalx import _EMPTY_DICT, _EMPTY_LIST, MUTABLE, ExprMixin
from .extract import FuncInfo, dotted, get_function, strip_docstring
from .registry import Contract, Registry, parse_expr
from .sorts import (TBool, TDict, TEnum, TInt, TList, TNone, TOpaque, TOpt, TReal, TRef, TSet, TStr,
                    TTuple, TUnion, Ty)

MUTATORS = {"append", "extend", "add", "discard", "update", "pop", "remove", "clear", "insert", "sort"}


@dataclass
class OldFrame:
    heap: dict
    globals_: dict
    params: dict


class Exec(ExprMixin, CallMixin):
    MAX_INLINE_DEPTH = 6

    def __init__(self, reg: Registry, contract: Contract, finfo: FuncInfo, ctx: Ctx):
        self.reg = reg
        self.contract = contract
        self.finfo = finfo
        self.mod = finfo.module
        self.ctx = ctx
        self.spec_mode = False
        self._const_stack: set = set()
        self.try_stack: list[list[str]] = []
        self.exc_stack: list[SExc] = []
        self.frames: list[OldFrame] = []
        self.loop_frames: list[OldFrame] = []
        self.inline_depth = 0
        self.timeout_depth = 0
        self.cur_contract = contract
        self.cur_finfo = finfo
        self._ord = _ordinals(finfo.node)
        self.self_sv: SV | None = None

    # ------------------------------------------------------------------
    def ordinal(self, node) -> str:
        return self._ord.get(id(node), f"{type(node).__name__}@L{getattr(node, 'lineno', 0)}")

    def catchable(self, cls: str) -> bool:
        for hs in self.try_stack:
            for h in hs:
                if self.reg.is_subclass(cls, h):
                    return True
        for r in self.contract.raises:
            if self.reg.is_subclass(cls, r):
                return True
        return False

    # ------------------------------------------------------------------
    # blocks & statements
    def exec_block(self, stmts):
        for s in stmts:
            self.exec_stmt(s)

    def exec_stmt(self, s: ast.stmt):
        cut = self.contract.ghost.get("cut") if self.inline_depth == 0 else None
        if cut and isinstance(s, (ast.Assign, ast.AnnAssign)):
            tgts = s.targets if isinstance(s, ast.Assign) else [s.target]
            if cut.get("before_assign") and any(isinstance(t, ast.Name) and t.id == cut["before_assign"] for t in tgts):
                # cut point: the contract covers the function up to here only
                for aname, asrc in cut["asserts"].items():
                    t = self.truth(self._spec_eval(asrc))
                    self.ctx.oblige(f"cut:{self.contract.qualname}:{aname}", t, kind="post", line=s.lineno)
                self.ctx.cover(f"cover:{self.contract.qualname}:cut", line=s.lineno)
                raise PathEnd()
        if cut and cut.get("before_stmt") and re.fullmatch(cut["before_stmt"], ast.unparse(s), re.S):
            # cut point in front of an arbitrary statement (regex on its source text)
            for aname, asrc in cut["asserts"].items():
                t = self.truth(self._spec_eval(asrc))
                self.ctx.oblige(f"cut:{self.contract.qualname}:{aname}", t, kind="post", line=s.lineno)
            self.ctx.cover(f"cover:{self.contract.qualname}:cut", line=s.lineno)
            raise PathEnd()
        if self.reg.dropped_stmts and isinstance(s, (ast.Expr, ast.Assign, ast.AugAssign, ast.If)):
            src = ast.unparse(s)
            if any(re.fullmatch(pat, src, re.S) for pat in self.reg.dropped_stmts):
                return
        m = getattr(self, "st_" + type(s).__name__, None)
        if m is None:
            raise Unsupported(f"statement {type(s).__name__}", s)
        m(s)

    def st_Pass(self, s):
        pass

    def st_Import(self, s):
        pass

    def st_ImportFrom(self, s):
        pass

    def st_Global(self, s):
        pass

    def st_Nonlocal(self, s):
        pass

    def st_Expr(self, s):
        if isinstance(s.value, ast.Constant):
            return
        if isinstance(s.value, ast.Yield) and s.value.value is None:
            # the body of an @asynccontextmanager: at `yield` the with-block runs; it may suspend, and it may end with any exception,
            # which is then raised here (contextlib throws it into the generator)
            self.yield_point(s, "with-body")
            if self.catchable("Exception") and self.ctx.choose(2, f"with-body-raises@{s.lineno}") == 1:
                raise PyRaise(SExc("Exception", []))
            return
        self.eval(s.value)

    def st_Break(self, s):
        raise _Break()

    def st_Continue(self, s):
        raise _Continue()

    def st_Return(self, s):
        raise _Return(self.eval(s.value) if s.value is not None else mk_none())

    def st_Assert(self, s):
        t = self.truth(self.eval(s.test), s)
        self.may_raise("AssertionError", t, s, "assert")

    def st_Raise(self, s):
        if s.exc is None:
            if not self.exc_stack:
                raise Unsupported("bare raise outside handler", s)
            raise PyRaise(self.exc_stack[-1])
        e = s.exc
        if isinstance(e, ast.Call):
            cls = dotted(e.func)
            args = [self.eval(a) for a in e.args]
        else:
            cls = dotted(e)
            args = []
            if cls in self.ctx.locals and self.ctx.locals[cls].py and self.ctx.locals[cls].py[0] == "excinst":
                raise PyRaise(SExc(self.ctx.locals[cls].py[1], self.ctx.locals[cls].py[2]))
            if isinstance(e, ast.Attribute):
                # `raise self.resolve_error`: a stored exception object of unknown class
                ty = self._static_type_of(e)
                if isinstance(ty, sorts.TOpt):
                    ty = ty.inner
                if isinstance(ty, sorts.TOpaque) and ty.name.split(":")[-1] == "Exception":
                    raise PyRaise(SExc("Exception", []))
        cls = cls.split(".")[-1]
        raise PyRaise(SExc(cls, args))

    def st_Assign(self, s):
        v = self.eval(s.value)
        for t in s.targets:
            self.assign(t, v, s)

    def st_AnnAssign(self, s):
        if s.value is None:
            return
        v = self.eval(s.value)
        if v.ty is TNone and "None" in ast.unparse(s.annotation):
            ty = self.ann_type(s.annotation)
            if ty is not None:
                v = self.coerce(v, TOpt(ty), s)
        if v.t is None and isinstance(v.ty, (TList, TSet, TDict)):
            ty = self.ann_type(s.annotation)
            if ty is not None:
                v = self.coerce(SV(v.ty, None, py=v.py), ty, s) if not isinstance(ty, TDict) else self._typed_empty_dict(ty, v)
        self.assign(s.target, v, s)

    def _typed_empty_dict(self, ty, v):
        if v.py and v.py[0] == "defaultdict":
            ty = TDict(ty.key, ty.val, default="set")
        return self.empty_dict(ty)

    def ann_type(self, ann) -> Ty | None:
        try:
            src = ast.unparse(ann)
            src = src.replace(" ", "").replace("|None", "")
            return sorts.parse_ty(src)
        except Exception:
            return None

    def st_AugAssign(self, s):
        cur = self.eval(s.target)
        v = self.eval(s.value)
        if isinstance(cur.ty, TList) and isinstance(s.op, ast.Add):
            # in-place extend
            if cur.t is None:
                nv = v
            else:
                nv = self.list_concat(cur, self.iter_list(v, s), s)
            self.write_place(cur.place, nv)
            return
        if isinstance(cur.ty, TSet) and isinstance(s.op, (ast.BitOr, ast.Sub, ast.BitAnd)):
            nv = self.binop(s.op, cur, v, s)
            self.write_place(cur.place, nv)
            return
        nv = self.binop(s.op, cur, v, s)
        self.assign(s.target, nv, s)

    def assign(self, target, v: SV, stmt):
        if isinstance(target, ast.Name):
            name = target.id
            if name in self.ctx.globals_ and name not in self.ctx.locals:
                self.write_place(("global", name), self.coerce(v, self.ctx.globals_[name].ty, stmt), rebind=True)
                return
            self.detach_aliases(("local", name))
            # untyped empties take the type hinted by the sidecar
            if v.t is None and isinstance(v.ty, (TList, TSet, TDict)):
                hint = self.cur_contract.locals_.get(name)
                if hint is not None:
                    v = self._typed_empty_dict(hint, v) if isinstance(hint, TDict) else self.coerce(v, hint, stmt)
            place = None
            if v.place is not None and v.place[0] != "local" and isinstance(v.ty, MUTABLE):
                place = v.place  # alias of a heap container
            self.ctx.locals[name] = SV(v.ty, v.t, place, v.py)
            return
        if isinstance(target, (ast.Tuple, ast.List)):
            self.bind_target(target, v, None, stmt)
            return
        if isinstance(target, ast.Attribute):
            base = self.eval(target.value)
            if not isinstance(base.ty, TRef):
                raise Unsupported(f"attribute store on {base.ty}", stmt)
            key, fty = self.field(base.ty.cls, target.attr, stmt)
            place = ("field", base.t, key, fty)
            if v.py is not None and v.py[0] == "excinst":
                # an exception object stored in a field: an opaque value
                inner = fty.inner if isinstance(fty, TOpt) else fty
                v = self.ctx.fresh(inner, "exc")
            if v.t is None and isinstance(v.ty, (TList, TSet, TDict)):
                v = self._typed_empty_dict(fty, v) if isinstance(fty, TDict) else self.coerce(v, fty, stmt)
            elif isinstance(v.ty, MUTABLE) and v.place is not None and v.place[0] != "local":
                raise Unsupported("aliasing two heap locations to one container", stmt)
            self.write_place(place, v, rebind=True)
            # a local container stored into the heap now aliases that location
            if isinstance(v.ty, MUTABLE) and v.place is not None and v.place[0] == "local":
                nm = v.place[1]
                cur = self.ctx.locals[nm]
                self.ctx.locals[nm] = SV(cur.ty, cur.t, place)
            return
        if isinstance(target, ast.Subscript):
            base = self.eval(target.value)
            idx = self.eval(target.slice)
            if base.place is None:
                raise Unsupported("item store on temporary", stmt)
            if isinstance(base.ty, TDict):
                if base.t is None:
                    raise Unsupported("item store on untyped empty dict (add a locals_ hint)", stmt)
                k = self.coerce(idx, base.ty.key, stmt)
                if v.t is None and isinstance(v.ty, (TList, TSet)):
                    v = self.coerce(v, base.ty.val, stmt)
                self.write_place(("item", base.place, k.t, base.ty), v)
                return
            if isinstance(base.ty, TList):
                i = self.as_int(idx, stmt)
                ln = base.ty.len(base.t)
                self.may_raise("IndexError", z3.And(i.t >= -ln, i.t < ln), stmt, "store index")
                ii = z3.If(i.t < 0, i.t + ln, i.t)
                old = z3.Select(base.ty.arr(base.t), ii)
                self.write_place(("item", base.place, ii, base.ty), v)
                return
            raise Unsupported(f"item store on {base.ty}", stmt)
        raise Unsupported("assignment target", stmt)

    def bind_target(self, target, v: SV, it=None, stmt=None):
        """Bind a loop/comprehension/unpacking target to a value."""
        if isinstance(target, ast.Name):
            self.ctx.locals[target.id] = SV(v.ty, v.t, None, v.py)
            return
        if isinstance(target, (ast.Attribute, ast.Subscript)):
            self.assign(target, SV(v.ty, v.t), stmt)
            return
        if isinstance(target, (ast.Tuple, ast.List)):
            ty = v.ty
            if isinstance(ty, TUnion):
                for i, a in enumerate(ty.alts):
                    if isinstance(a, TTuple) and len(a.elems) == len(target.elts):
                        self.may_raise("TypeError", ty.is_alt(v.t, i), stmt or target, "unpack")
                        v = SV(a, ty.project(v.t, i))
                        ty = a
                        break
            if isinstance(ty, TTuple):
                if len(ty.elems) != len(target.elts):
                    self.may_raise("ValueError", z3.BoolVal(False), stmt or target, "unpack arity")
                    raise PyRaise(SExc("ValueError"))
                for i, el in enumerate(target.elts):
                    self.bind_target(el, SV(ty.elems[i], ty.get(v.t, i)), None, stmt)
                return
            if isinstance(ty, TList):
                n = len(target.elts)
                self.may_raise("ValueError", ty.len(v.t) == n, stmt or target, "unpack arity")
                for i, el in enumerate(target.elts):
                    self.bind_target(el, SV(ty.elem, z3.Select(ty.arr(v.t), i)), None, stmt)
                return
        raise Unsupported(f"unpack target for {v.ty}", stmt or target)

    def st_Delete(self, s):
        for t in s.targets:
            if isinstance(t, ast.Subscript):
                base = self.eval(t.value)
                idx = self.eval(t.slice)
                if base.place is None:
                    raise Unsupported("del on temporary", s)
                if isinstance(base.ty, TList):
                    self.list_delete(base, idx, s)
                elif isinstance(base.ty, TDict):
                    ty = base.ty
                    k = self.coerce(idx, ty.key, s)
                    self.may_raise("KeyError", z3.Select(ty.dom(base.t), k.t), s, "del key")
                    nb = ty.mk(z3.Store(ty.dom(base.t), k.t, False), ty.val_(base.t))
                    self.write_place(base.place, SV(ty, nb))
                else:
                    raise Unsupported("del subscript", s)
            elif isinstance(t, ast.Name):
                self.ctx.locals.pop(t.id, None)
            else:
                raise Unsupported("del target", s)

    def st_If(self, s):
        t = self.truth(self.eval(s.test), s)
        if self.ctx.branch(t, f"if@{s.lineno}"):
            self.narrow(s.test, True)
            self.exec_block(s.body)
        else:
            self.narrow(s.test, False)
            self.exec_block(s.orelse)

    def narrow(self, test, taken: bool):
        """Flow typing for plain local names: isinstance(x, T), `x is None`, `x is not None`, `x`, `not x`."""
        try:
            if isinstance(test, ast.UnaryOp) and isinstance(test.op, ast.Not):
                return self.narrow(test.operand, not taken)
            if isinstance(test, ast.BoolOp):
                if isinstance(test.op, ast.And) and taken or isinstance(test.op, ast.Or) and not taken:
                    for v in test.values:
                        self.narrow(v, taken)
                return
            name, kind, arg = None, None, None
            if isinstance(test, ast.Call) and isinstance(test.func, ast.Name) and test.func.id == "isinstance" and isinstance(test.args[0], ast.Name) and isinstance(test.args[1], ast.Name):
                name, kind, arg = test.args[0].id, "isinstance", test.args[1].id
            elif isinstance(test, ast.Compare) and len(test.ops) == 1 and isinstance(test.left, ast.Name) and isinstance(test.comparators[0], ast.Constant) and test.comparators[0].value is None:
                name = test.left.id
                kind = "none" if isinstance(test.ops[0], (ast.Is, ast.Eq)) else "notnone" if isinstance(test.ops[0], (ast.IsNot, ast.NotEq)) else None
            elif isinstance(test, ast.Name):
                name, kind = test.id, "truthy"
            if name is None or kind is None or name not in self.ctx.locals:
                return
            v = self.ctx.locals[name]
            if v.place is not None or v.t is None:
                return
            ty = v.ty
            if isinstance(ty, TOpt):
                notnone = (kind == "notnone" and taken) or (kind == "none" and not taken) or (kind == "truthy" and taken) or (kind == "isinstance" and taken)
                if notnone:
                    self.ctx.locals[name] = SV(ty.inner, ty.get(v.t))
                return
            if isinstance(ty, TUnion) and kind == "isinstance":
                prim = {"int": TInt, "str": TStr, "bool": TBool, "float": TReal}
                for i, a in enumerate(ty.alts):
                    if (arg in prim and a == prim[arg]) or (arg == "tuple" and isinstance(a, TTuple)) or (arg == "list" and isinstance(a, TList)):
                        if taken:
                            self.ctx.locals[name] = SV(a, ty.project(v.t, i))
                        elif len(ty.alts) == 2:
                            o = 1 - i
                            nv = SV(ty.alts[o], ty.project(v.t, o))
                            self.ctx.assume_wf(nv)
                            self.ctx.locals[name] = nv
                        return
        except Exception:
            return

    # -- match ----------------------------------------------------------
    def st_Match(self, s):
        subj = self.eval(s.subject)
        for case in s.cases:
            cond = self.match_pattern(case.pattern, subj, s)
            if case.guard is not None:
                raise Unsupported("match guard", s)
            if self.ctx.branch(cond, f"case@{case.pattern.lineno}"):
                self.exec_block(case.body)
                return

    def match_pattern(self, pat, subj: SV, s):
        if isinstance(pat, ast.MatchValue):
            return self.equals(subj, self.eval(pat.value), s)
        if isinstance(pat, ast.MatchSingleton):
            return self.equals(subj, self.ev_Constant(ast.Constant(pat.value)), s)
        if isinstance(pat, ast.MatchOr):
            return z3.Or(*[self.match_pattern(p, subj, s) for p in pat.patterns])
        if isinstance(pat, ast.MatchAs):
            if pat.pattern is None:
                if pat.name is not None:
                    self.ctx.locals[pat.name] = SV(subj.ty, subj.t)
                return z3.BoolVal(True)
            raise Unsupported("match as-pattern", s)
        if isinstance(pat, ast.MatchClass) and not pat.patterns and not pat.kwd_patterns:
            return self.isinst(subj, dotted(pat.cls), s)
        raise Unsupported(f"match pattern {type(pat).__name__}", s)

    # -- try ------------------------------------------------------------
    def st_Try(self, s):
        handler_names = []
        for h in s.handlers:
            if h.type is None:
                handler_names.append(["BaseException"])
            elif isinstance(h.type, ast.Tuple):
                handler_names.append([dotted(e).split(".")[-1] for e in h.type.elts])
            else:
                handler_names.append([dotted(h.type).split(".")[-1]])
        flat = [n for hs in handler_names for n in hs]

        def run_protected():
            self.try_stack.append(flat)
            try:
                try:
                    self.exec_block(s.body)
                finally:
                    self.try_stack.pop()
            except PyRaise as e:
                for h, names in zip(s.handlers, handler_names):
                    if any(self.reg.is_subclass(e.exc.cls, n) for n in names):
                        if h.name:
                            self.ctx.locals[h.name] = SV(None, None, py=("excinst", e.exc.cls, e.exc.args))
                        self.exc_stack.append(e.exc)
                        try:
                            self.exec_block(h.body)
                        finally:
                            self.exc_stack.pop()
                        return
                raise
            else:
                self.exec_block(s.orelse)

        if not s.finalbody:
            run_protected()
            return
        try:
            run_protected()
        except (PyRaise, _Return, _Break, _Continue):
            self.exec_block(s.finalbody)
            raise
        else:
            self.exec_block(s.finalbody)

    # -- with -----------------------------------------------------------
    def st_With(self, s):
        self._with(s, False)

    def st_AsyncWith(self, s):
        self._with(s, True)

    def _with(self, s, is_async):
        cut = self.contract.ghost.get("cut") if self.inline_depth == 0 else None
        if cut and cut.get("before_with") and any(re.fullmatch(cut["before_with"], ast.unparse(it.context_expr)) for it in s.items):
            # cut point at the entry of a `with`: the contract covers the function up to here only
            for aname, asrc in cut["asserts"].items():
                t = self.truth(self._spec_eval(asrc))
                self.ctx.oblige(f"cut:{self.contract.qualname}:{aname}", t, kind="post", line=s.lineno)
            self.ctx.cover(f"cover:{self.contract.qualname}:cut", line=s.lineno)
            raise PathEnd()
        kinds = []
        for item in s.items:
            src = ast.unparse(item.context_expr)
            kind = None
            for pat, k in self.reg.context_managers:
                if re.fullmatch(pat, src):
                    kind = k
                    break
            if kind is None:
                raise Unsupported(f"context manager {src!r} has no sidecar entry", s)
            kinds.append((kind, src))
            if kind == "lock":
                if is_async:
                    self.yield_point(s, "lock:" + src)
                self.ctx.held_locks.append(src)
                self.ctx.events.append(("acquire", src, list(self.ctx.held_locks)))
            elif kind == "ready":
                # `async with cmd.ready_and_okay(mbox)`: waits for admission (yield point); may fail with NO/BAD instead of entering
                self.yield_point(s, "ready_and_okay")
                for exc_cls in ("No", "Bad"):
                    if self.catchable(exc_cls) and self.ctx.choose(2, f"ready-raises-{exc_cls}@{s.lineno}") == 1:
                        raise PyRaise(SExc(exc_cls, note="from ready_and_okay"))
                continue
            elif kind == "timeout":
                self.timeout_depth += 1
                if isinstance(item.optional_vars, ast.Name):
                    self.ctx.locals[item.optional_vars.id] = self.ctx.fresh(sorts.TOpaque("Timeout"), item.optional_vars.id)
                continue
            elif kind == "opaque":
                if isinstance(item.optional_vars, ast.Name):
                    self.ctx.locals[item.optional_vars.id] = self.ctx.fresh(sorts.TOpaque("ctx_" + item.optional_vars.id), item.optional_vars.id)
                continue
            if item.optional_vars is not None:
                if isinstance(item.optional_vars, ast.Name):
                    self.ctx.locals[item.optional_vars.id] = SV(None, None, py=("ctxmgr", kind, src))
        try:
            self.exec_block(s.body)
        finally:
            for kind, src in reversed(kinds):
                if kind == "lock":
                    if self.ctx.held_locks and self.ctx.held_locks[-1] == src:
                        self.ctx.held_locks.pop()
                elif kind == "timeout":
                    self.timeout_depth -= 1

    def yield_point(self, node, what: str):
        if self.spec_mode:
            return
        self.ctx.yield_count += 1
        self.ctx.events.append(("yield", what, getattr(node, "lineno", None)))
        # crash / yield obligations (DESIGN 2.5, 2.6): what must hold whenever the task can be suspended or the process killed
        ci = self.contract.ghost.get("crash_invariant") if self.inline_depth == 0 else None
        if ci:
            for nm, src in ci.items():
                t = self.truth(self._spec_eval(src))
                self.ctx.oblige(f"crash:{self.contract.qualname}:{nm}@{what}", t, kind="crash", line=getattr(node, "lineno", None))
        # rely (DESIGN 2.5, restricted form): what the environment / other tasks may have done while we were suspended
        rely = self.contract.ghost.get("rely") if self.inline_depth == 0 else None
        if rely:
            c = self.ctx
            for key in rely.get("havoc", []):
                cls, f = key.split(".")
                self.heap_arr(key, self.reg.classes[cls].fields[f])
            frame = OldFrame(dict(c.heap), dict(c.globals_), {k: SV(v.ty, v.t) for k, v in c.locals.items() if v.t is not None})
            for key in rely.get("havoc", []):
                cls, f = key.split(".")
                c.heap[key] = c.fresh_term(c.heap[key].sort(), "Hy_" + f)
            self.frames.append(frame)
            sm = self.spec_mode
            self.spec_mode = True
            try:
                for src in rely.get("assume", []):
                    c.assume(self.truth(self.eval(parse_expr(src))))
            finally:
                self.spec_mode = sm
                self.frames.pop()
            # facts relating the function-entry state to the state after the interference, proved stable under the rely at every
            # yield (an obligation each time) and from then on available to the solver: the transitive summary of all rely steps so far
            for nm, src in (rely.get("stable") or {}).items():
                # evaluated over the verified function's own parameters (a yield inside a callee's contract has the callee's scope)
                saved_l = c.locals
                c.locals = {k: SV(v.ty, v.t) for k, v in self.params_entry.items()}
                try:
                    t = self.truth(self._spec_eval(src))
                finally:
                    c.locals = saved_l
                c.oblige(f"stable:{self.contract.qualname}:{nm}@{what}", t, kind="assert", line=getattr(node, "lineno", None))
        if self.inline_depth == 0 and self.contract.ghost.get("cancellable") and self.catchable("CancelledError"):
            # a task can be cancelled (by the command watchdog's asyncio.timeout, or at shutdown) at any suspension point
            if self.ctx.choose(2, f"cancelled@{getattr(node, 'lineno', '?')}#{self.ctx.yield_count}") == 1:
                raise PyRaise(SExc("CancelledError", []))
        if self.timeout_depth > 0 and self.catchable("TimeoutError"):
            if self.ctx.choose(2, f"timeout@{getattr(node, 'lineno', '?')}") == 1:
                raise PyRaise(SExc("TimeoutError"))

    def ev_Await(self, node):
        v = self.eval(node.value)
        return v

    # -- loops ----------------------------------------------------------
    def st_For(self, s):
        self._for(s)

    def st_AsyncFor(self, s):
        self._for(s)

    def _for(self, s):
        ordn = self._loop_ordinal(s)
        spec = self.cur_contract.loops.get(ordn)
        src = self.eval(s.iter)
        mode, dct = "list", None
        enum_start = 0
        if src.py is not None and src.py[0] in ("enumerate", "values", "items"):
            mode = src.py[0]
            inner = src.py[1]
            if mode == "enumerate":
                L = self.iter_list(inner, s.iter)
                enum_start = src.py[2] if len(src.py) > 2 else 0
            else:
                dct = SV(inner.ty, inner.t)  # snapshot
                L = self.enum_set(SV(TSet(dct.ty.key), dct.ty.dom(dct.t)), ordered=None)
        else:
            L = self.iter_list(src, s.iter)
        if L.t is None:
            self.exec_block(s.orelse)
            return
        lty = L.ty
        self.ctx.note_ty(lty)

        def bind(idx):
            elem = SV(lty.elem, z3.Select(lty.arr(L.t), idx))
            if mode == "enumerate":
                tv = TTuple([TInt, lty.elem])
                self.bind_target(s.target, SV(tv, tv.mk(idx + enum_start, elem.t)), None, s)
            elif mode == "values":
                self.bind_target(s.target, SV(dct.ty.val, z3.Select(dct.ty.val_(dct.t), elem.t)), None, s)
            elif mode == "items":
                tv = TTuple([dct.ty.key, dct.ty.val])
                self.bind_target(s.target, SV(tv, tv.mk(elem.t, z3.Select(dct.ty.val_(dct.t), elem.t))), None, s)
            else:
                self.bind_target(s.target, elem, None, s)

        n = z3.simplify(lty.len(L.t))
        if spec is None:
            if z3.is_int_value(n) and n.as_long() <= 8:
                try:
                    for k in range(n.as_long()):
                        bind(z3.IntVal(k))
                        try:
                            self.exec_block(s.body)
                        except _Continue:
                            pass
                    self.exec_block(s.orelse)
                except _Break:
                    pass
                return
            raise Unsupported(f"loop #{ordn} needs an invariant in the sidecar", s)
        self._loop_with_invariant(s, spec, ordn, n, bind, L, guard=None)

    def st_While(self, s):
        ordn = self._loop_ordinal(s)
        spec = self.cur_contract.loops.get(ordn)
        if spec is None:
            raise Unsupported(f"while loop #{ordn} needs an invariant in the sidecar", s)
        self._loop_with_invariant(s, spec, ordn, None, None, None, guard=s.test)

    def _loop_ordinal(self, s) -> int:
        if not hasattr(self.cur_finfo, "_loops"):
            loops = [n for n in ast.walk(self.cur_finfo.node) if isinstance(n, (ast.For, ast.AsyncFor, ast.While))]
            loops.sort(key=lambda n: (n.lineno, n.col_offset))
            self.cur_finfo._loops = {id(n): i for i, n in enumerate(loops)}
        return self.cur_finfo._loops[id(s)]

    def _loop_with_invariant(self, s, spec, ordn, n, bind, L, guard):
        c = self.ctx
        invs: dict[str, str] = spec.get("invariant", {})
        if isinstance(invs, list):
            invs = {f"i{k}": e for k, e in enumerate(invs)}
        fname = self.cur_contract.qualname
        frame = OldFrame(dict(c.heap), dict(c.globals_), {k: SV(v.ty, v.t, v.place, v.py) for k, v in c.locals.items()})
        self.loop_frames.append(frame)
        try:
            def eval_invs(idx, tag, oblige):
                saved = dict(c.locals)
                sm = self.spec_mode
                self.spec_mode = True
                try:
                    if idx is not None:
                        c.locals["_i"] = SV(TInt, idx)
                        c.locals["_it"] = SV(L.ty, L.t)
                    for name, src in invs.items():
                        t = self.truth(self.eval(parse_expr(src)))
                        if oblige:
                            self.spec_mode = sm
                            c.oblige(f"{tag}:{fname}:loop{ordn}:{name}", t, kind=tag, line=s.lineno, hints=self.hints_for(f"{tag}:loop{ordn}:{name}"))
                            self.spec_mode = True
                        else:
                            c.assume(t)
                finally:
                    self.spec_mode = sm
                    for k in ("_i", "_it"):
                        if k in c.locals and k not in saved:
                            del c.locals[k]
                    for k in saved:
                        if k in ("_i", "_it"):
                            c.locals[k] = saved[k]

            # 0. lemmas: proved at loop entry, then available (they must only
            #    mention state the loop does not modify)
            for lname, lsrc in (spec.get("lemmas") or {}).items():
                t = self.truth(self._spec_eval(lsrc))
                c.oblige(f"lemma:{fname}:loop{ordn}:{lname}", t, kind="lemma", line=s.lineno)
            # 1. invariant holds on entry
            eval_invs(z3.IntVal(0) if guard is None else None, "inv-init", True)
            # 2. arbitrary iteration / exit
            choice = c.choose(2, f"loop{ordn}")
            self.havoc_for_loop(s, spec)
            idx = c.fresh_term(z3.IntSort(), f"i{ordn}") if guard is None else None
            if guard is None:
                c.assume(z3.And(0 <= idx, idx <= n))
            eval_invs(idx, "inv", False)
            if choice == 0:
                if guard is None:
                    c.assume(idx < n)
                    bind(idx)
                else:
                    g = self.truth(self.eval(guard), guard)
                    if not c.branch(g, f"while{ordn}-guard"):
                        raise PathEnd()
                dec0 = None
                if spec.get("decreases"):
                    dec0 = self._spec_eval(spec["decreases"])
                try:
                    self.exec_block(s.body)
                except _Continue:
                    pass
                except _Break:
                    # leave the loop from here; nothing is assumed about the invariant
                    self.loop_frames.pop()
                    self.loop_frames.append(frame)
                    return
                eval_invs(idx + 1 if guard is None else None, "inv-step", True)
                if dec0 is not None:
                    dec1 = self._spec_eval(spec["decreases"])
                    c.oblige(f"decreases:{fname}:loop{ordn}", z3.And(dec0.t >= 0, dec1.t < dec0.t), kind="decreases", line=s.lineno)
                raise PathEnd()
            else:
                if guard is None:
                    c.assume(idx == n)
                else:
                    g = self.truth(self.eval(guard), guard)
                    if c.branch(g, f"while{ordn}-exit"):
                        raise PathEnd()
                self.exec_block(s.orelse)
        finally:
            self.loop_frames.pop()

    def _spec_eval(self, src: str) -> SV:
        sm = self.spec_mode
        self.spec_mode = True
        try:
            return self.eval(parse_expr(src))
        finally:
            self.spec_mode = sm

    def hints_for(self, name: str):
        out = []
        for prefix, hs in self.cur_contract.lemmas.items():
            if name.startswith(prefix):
                out += hs
        return out

    def spec_lpre(self, node):
        if not self.loop_frames:
            raise Unsupported("lpre() outside a loop invariant", node)
        fr = self.loop_frames[-1]
        c = self.ctx
        saved = (c.heap, c.globals_, c.locals)
        try:
            c.heap = dict(fr.heap)
            c.globals_ = dict(fr.globals_)
            loc = dict(c.locals)
            loc.update(fr.params)
            c.locals = loc
            return self.eval(node.args[0])
        finally:
            for k, v in c.heap.items():
                if k not in fr.heap:
                    fr.heap[k] = v
                    saved[0].setdefault(k, v)
            c.heap, c.globals_, c.locals = saved

    # -- havoc ----------------------------------------------------------
    def havoc_for_loop(self, s, spec):
        names, fields, allfields = self.write_set(s.body + getattr(s, "orelse", []))
        if isinstance(s, (ast.For, ast.AsyncFor)):
            for n in ast.walk(s.target):
                if isinstance(n, ast.Name):
                    names.discard(n.id)
        c = self.ctx
        for nm in sorted(names):
            if nm in c.locals:
                v = c.locals[nm]
                if v.place is not None and v.place[0] != "local":
                    continue
                ty = v.ty
                if v.t is None or ty is None:
                    hint = self.cur_contract.locals_.get(nm)
                    if hint is None:
                        if isinstance(ty, (TList, TSet, TDict)):
                            raise Unsupported(f"local {nm!r} is an untyped empty container at a loop head; add a locals_ hint", s)
                        continue
                    ty = hint
                c.locals[nm] = c.fresh(ty, nm)
            elif nm in c.globals_:
                c.globals_[nm] = c.fresh(c.globals_[nm].ty, nm)
            elif nm in self.cur_contract.locals_:
                pass  # assigned before use inside the body
        for key in sorted(fields | allfields):
            cls, f = key.split(".")
            fty = self.reg.classes[cls].fields[f]
            arr = self.heap_arr(key, fty)
            if key in allfields or self.self_sv is None or not isinstance(self.self_sv.ty, TRef) or self.self_sv.ty.cls != cls:
                c.heap[key] = c.fresh_term(arr.sort(), "Hh_" + f)
            else:
                c.heap[key] = z3.Store(arr, self.self_sv.t, c.fresh_term(fty.sort(), "h_" + f))
            c.written.add(key)

    def write_set(self, stmts, depth=0):
        """Syntactic over-approximation of what a block may write.
        returns (local/global names, heap keys written on self, heap keys written on any object)"""
        names, fields, allfields = set(), set(), set()

        def root_attr(e):
            """innermost `X.attr` reached through subscripts; returns (rootname, attr)"""
            while isinstance(e, ast.Subscript):
                e = e.value
            if isinstance(e, ast.Attribute):
                b = e.value
                if isinstance(b, ast.Name):
                    return b.id, e.attr
                return "?", e.attr
            if isinstance(e, ast.Name):
                return e.id, None
            return None, None

        def note_write(e):
            r, a = root_attr(e)
            if r is None:
                return
            if a is None:
                names.add(r)
                # alias of a heap container?
                v = self.ctx.locals.get(r)
                if v is not None and v.place is not None and v.place[0] != "local":
                    p = v.place
                    while p[0] == "item":
                        p = p[1]
                    if p[0] == "field":
                        allfields.add(p[2])
                return
            for cls, cd in self.reg.classes.items():
                if a in cd.fields:
                    if r == "self" and self.self_sv is not None and isinstance(self.self_sv.ty, TRef) and self.self_sv.ty.cls == cls:
                        fields.add(f"{cls}.{a}")
                    elif r != "self":
                        allfields.add(f"{cls}.{a}")

        for st in stmts:
            for n in ast.walk(st):
                if isinstance(n, (ast.Assign,)):
                    for t in n.targets:
                        for e in (t.elts if isinstance(t, (ast.Tuple, ast.List)) else [t]):
                            note_write(e)
                elif isinstance(n, (ast.AugAssign, ast.AnnAssign)):
                    note_write(n.target)
                elif isinstance(n, ast.NamedExpr):
                    names.add(n.target.id)
                elif isinstance(n, (ast.For, ast.AsyncFor)):
                    for e in ast.walk(n.target):
                        if isinstance(e, ast.Name):
                            names.add(e.id)
                elif isinstance(n, ast.Delete):
                    for t in n.targets:
                        note_write(t)
                elif isinstance(n, (ast.With, ast.AsyncWith)):
                    for it in n.items:
                        if isinstance(it.optional_vars, ast.Name):
                            names.add(it.optional_vars.id)
                elif isinstance(n, ast.ExceptHandler) and n.name:
                    names.add(n.name)
                elif isinstance(n, ast.Call):
                    if isinstance(n.func, ast.Attribute) and n.func.attr in MUTATORS:
                        note_write(n.func.value)
                    # defaultdict reads insert: handled as writes of the dict
                    d = dotted(n.func)
                    cts = []
                    if isinstance(n.func, ast.Attribute) and not (n.func.attr in MUTATORS and not (isinstance(n.func.value, ast.Attribute) and n.func.value.attr == "mailbox")):
                        # method with contract?  (container mutators like .add/.remove are handled above unless the receiver is the MH folder)
                        # The receiver's class is not known here: EVERY contract of that method name contributes (an over-approximation).
                        for q, cc in self.reg.contracts.items():
                            if cc.fname == n.func.attr and (cc.cls is not None or d == q):
                                cts.append(cc)
                        # ... unless the receiver's class is evident from the class tables (self, self.<field>, a typed local)
                        rc = self._static_class_of(n.func.value)
                        if rc is not None:
                            # the receiver's class is known: only that class's contract can apply (a call the engine has no contract for
                            # is either resolved through the dispatch table below or leaves the subset when it is executed)
                            cts = [cc for cc in cts if cc.cls == rc or (cc.cls in self.reg.classes and rc in self.reg.classes and self.reg.is_subclass(rc, cc.cls))]
                    elif isinstance(n.func, ast.Name) and n.func.id in self.reg.contracts:
                        cts.append(self.reg.contracts[n.func.id])
                    # calls resolved through the dispatch table
                    src_call = ast.unparse(n)
                    dispatched = set()
                    for pat, q in self.reg.dynamic_dispatch.items():
                        if re.fullmatch(pat, src_call, re.S):
                            cts.append(self.reg.contracts[q])
                            dispatched.add(q)  # a dispatched call is applied with the verified function's own `self` as receiver
                    for ct in cts:
                        on_self = (isinstance(n.func, ast.Attribute) and isinstance(n.func.value, ast.Name) and n.func.value.id == "self") or ct.qualname in dispatched
                        if ct.inline and depth < 4:
                            try:
                                fi = get_function(ct.path, ct.qualname)
                                nn, ff, af = self.write_set(strip_docstring(fi.node.body), depth + 1)
                                if on_self:
                                    fields |= ff
                                else:
                                    allfields |= ff
                                allfields |= af
                            except LookupError:
                                pass
                        for m in ct.modifies:
                            tgt, f = m.split(".", 1)
                            f = f.split("[")[0]
                            if tgt == "self" and ct.cls:
                                # the class of `self` is what the contract declares for that parameter (dispatch contracts are
                                # named after the library they stand for, not after the class of their receiver)
                                sty = ct.params.get("self")
                                scls = sty.cls if isinstance(sty, TRef) else ct.cls
                                key = f"{scls}.{f}"
                                (fields if on_self and scls == self.cur_contract.cls else allfields).add(key)
                            elif tgt == "*":
                                for cls, cd in self.reg.classes.items():
                                    if f in cd.fields:
                                        allfields.add(f"{cls}.{f}")
                            elif tgt == "global":
                                names.add(f)
                            else:
                                allfields.add(f"{tgt}.{f}")
                elif isinstance(n, ast.Subscript) and isinstance(n.ctx, ast.Load):
                    # defaultdict read-insert
                    r, a = root_attr(n)
                    if a is None and r is not None:
                        lv = self.ctx.locals.get(r)
                        if lv is not None and isinstance(lv.ty, TDict) and lv.ty.default:
                            names.add(r)
                    if a is not None:
                        for cls, cd in self.reg.classes.items():
                            fty = cd.fields.get(a)
                            if isinstance(fty, TDict) and fty.default:
                                note_write(n)
        return names, fields, allfields

    def _static_type_of(self, e, depth=0):
        """Type of an expression when the class tables / contract declarations make it evident, else None (purely syntactic)."""
        if depth > 6:
            return None
        if isinstance(e, ast.Name):
            if e.id == "self" and self.cur_contract.cls in self.reg.classes:
                return TRef(self.cur_contract.cls)
            lv = self.ctx.locals.get(e.id)
            if lv is not None and lv.ty is not None:
                return lv.ty
            ty = self.cur_contract.locals_.get(e.id) or self.cur_contract.params.get(e.id)
            if ty is not None:
                return ty
            if e.id in self.reg.opaque_names:
                return sorts.parse_ty(self.reg.opaque_names[e.id])
            # a loop variable: element type of what it iterates over
            for n in ast.walk(self.cur_finfo.node):
                if isinstance(n, (ast.For, ast.AsyncFor, ast.comprehension)):
                    it = self._static_type_of(n.iter, depth + 1)
                    if it is None:
                        continue
                    elem = it.elem if isinstance(it, (TList, TSet)) else it.key if isinstance(it, TDict) else None
                    if isinstance(n.target, ast.Name) and n.target.id == e.id:
                        return elem
                    if isinstance(n.target, ast.Tuple) and isinstance(elem, TTuple):
                        for k, t in enumerate(n.target.elts):
                            if isinstance(t, ast.Name) and t.id == e.id and k < len(elem.elems):
                                return elem.elems[k]
            return None
        if isinstance(e, ast.Attribute):
            base = self._static_type_of(e.value, depth + 1)
            if isinstance(base, TOpt):
                base = base.inner
            if isinstance(base, TRef) and base.cls in self.reg.classes:
                return self.reg.classes[base.cls].fields.get(e.attr)
            return None
        if isinstance(e, ast.Call) and isinstance(e.func, ast.Attribute) and e.func.attr in ("values", "items", "keys"):
            d = self._static_type_of(e.func.value, depth + 1)
            if isinstance(d, TDict):
                return TList(d.val) if e.func.attr == "values" else TList(d.key) if e.func.attr == "keys" else TList(TTuple([d.key, d.val]))
            return None
        if isinstance(e, ast.Call) and isinstance(e.func, ast.Name) and e.func.id in ("list", "sorted", "set", "tuple") and e.args:
            return self._static_type_of(e.args[0], depth + 1)
        if isinstance(e, ast.Subscript):
            c = self._static_type_of(e.value, depth + 1)
            if isinstance(c, TDict):
                return c.val
            if isinstance(c, TList) and not isinstance(e.slice, ast.Slice):
                return c.elem
            return c if isinstance(c, TList) else None
        return None

    def _static_class_of(self, e):
        """Class name of a receiver expression when it is evident, else None."""
        ty = self._static_type_of(e)
        if isinstance(ty, TOpt):
            ty = ty.inner
        if isinstance(ty, TRef):
            return ty.cls
        if isinstance(ty, TOpaque):
            return ty.name.split(":", 1)[-1] if ":" in ty.name else ty.name
        return None

    # ------------------------------------------------------------------
    # contract application
    def bind_args(self, ct: Contract, fi: FuncInfo | None, self_sv, node: ast.Call) -> dict[str, SV]:
        pnames = list(ct.params.keys())
        va = ct.ghost.get("varargs")
        if va:
            # f(*xs) or f(a, b, ...) packed into the list parameter `va`
            if len(node.args) == 1 and isinstance(node.args[0], ast.Starred):
                packed = self.iter_list(self.eval(node.args[0].value), node)
            else:
                packed = SV(_EMPTY_LIST, None, ("local", "__pack"))
                self.ctx.locals["__pack"] = SV(_EMPTY_LIST, None)
                for a in node.args:
                    v = self.eval(a)
                    cur = self.materialize(self.lookup("__pack"), v.ty, node)
                    self.ctx.locals["__pack"] = self.list_append(cur, v)
                packed = self.ctx.locals.pop("__pack")
            args = [packed]
            kws = self.kw_of(node)
        elif ct.ghost.get("skip_args"):
            # the call's source text is pinned by the dispatch regex; its arguments (e.g. a tuple with a starred element) are not
            # evaluated, the contract reads the caller's locals named in ghost.bind_locals instead
            args, kws = [], {}
        else:
            args = self.args_of(node)
            kws = self.kw_of(node)
        bound: dict[str, SV] = {}
        start = 0
        if "self" in ct.params:
            if self_sv is None:
                raise Unsupported(f"call of method {ct.qualname} without receiver", node)
            bound["self"] = self.coerce(self_sv, ct.params["self"], node)
            pnames = [p for p in pnames if p != "self"]
        for p, a in zip(pnames, args):
            bound[p] = a
        for k, v in kws.items():
            if k not in ct.params:
                raise Unsupported(f"unexpected keyword {k} for {ct.qualname}", node)
            bound[k] = v
        # defaults from the real signature
        if fi is not None:
            a = fi.node.args
            pos = a.posonlyargs + a.args
            defaults = dict(zip([x.arg for x in pos[len(pos) - len(a.defaults):]], a.defaults))
            for x, dv in zip(a.kwonlyargs, a.kw_defaults):
                if dv is not None:
                    defaults[x.arg] = dv
            for p in pnames:
                if p not in bound and p in defaults:
                    sm = self.spec_mode
                    self.spec_mode = True
                    try:
                        bound[p] = self.eval(defaults[p])
                    finally:
                        self.spec_mode = sm
        for p, lname in (ct.ghost.get("bind_locals") or {}).items():
            lv = self.ctx.locals.get(lname)
            if lv is None:
                raise Unsupported(f"{ct.qualname}: caller has no local {lname!r}", node)
            if lv.place is not None and lv.place[0] != "local":
                lv = self.read_place(lv.place)
            bound[p] = SV(lv.ty, lv.t, None, lv.py)
        for p in pnames:
            if p not in bound:
                raise Unsupported(f"argument {p} of {ct.qualname} not supplied", node)
            v = bound[p]
            ty = ct.params[p]
            if v.t is None and isinstance(v.ty, (TList, TSet, TDict)):
                bound[p] = self.coerce(v, ty.inner if isinstance(ty, TOpt) else ty, node)
                if isinstance(ty, TOpt):
                    bound[p] = self.coerce(bound[p], ty, node)
            else:
                nv = self.coerce(v, ty, node)
                bound[p] = SV(nv.ty, nv.t, v.place if nv.ty == v.ty else None)
        return bound

    def call_contract(self, ct: Contract, self_sv, node: ast.Call, constructing=None) -> SV:
        try:
            fi = get_function(ct.path, ct.qualname) if ct.path and not ct.path.startswith("<") else None
        except LookupError:
            fi = None
            if not ct.trusted:
                raise Unsupported(f"callee {ct.qualname} not found in {ct.path}", node)
        if constructing is not None and self_sv is None:
            self_sv = self.ctx.fresh(TRef(constructing), "new_" + constructing)
            self.ctx.assume(self_sv.t > 0)
        new_obj = self_sv if constructing is not None else None
        bound = self.bind_args(ct, fi, self_sv, node)
        self.ctx.used_contracts.add(ct.qualname)
        if any("clock()" in e for e in list(ct.ensures.values()) + list(ct.exc_ensures.values())):
            # the callee reads the wall clock: a fresh, non-decreasing instant for this call
            now = self.ctx.fresh(TReal, "now")
            prev = self.ctx.ghost.get("clock")
            if prev is not None:
                self.ctx.assume(now.t >= prev)
            self.ctx.assume(now.t >= 0)
            self.ctx.ghost["clock"] = now.t
        gvars = []
        for gname, gty in ct.ghost.get("ghost_params", {}).items():
            gv = self.ctx.fresh(sorts.parse_ty(gty), "g_" + gname)
            bound[gname] = gv
            gvars.append(gv.t)
        if not self.spec_mode:
            for aname, asrc in (self.cur_contract.ghost.get("call_asserts", {}).get(ct.fname) or {}).items():
                # caller's scope, plus the actual arguments as arg_<callee parameter>
                saved_l = self.ctx.locals
                self.ctx.locals = dict(saved_l)
                for pk, pv in bound.items():
                    self.ctx.locals.setdefault("arg_" + pk, SV(pv.ty, pv.t, None, pv.py))
                try:
                    t = self.truth(self._spec_eval(asrc))
                finally:
                    self.ctx.locals = saved_l
                self.ctx.oblige(f"assert:{self.cur_contract.qualname}:at-{ct.fname}:{aname}", t, kind="assert", line=node.lineno)
        if ct.inline:
            return self.inline_call(ct, fi, bound, node)
        c = self.ctx
        name = f"{ct.qualname}@{self.ordinal(node)}"
        # make sure arrays for modified fields exist before snapshotting
        mod_keys = self.modifies_keys(ct, bound)
        frame = OldFrame(dict(c.heap), dict(c.globals_), dict(bound))
        saved_locals = c.locals
        saved_mod = self.mod
        sm = self.spec_mode
        try:
            if fi is not None:
                self.mod = fi.module  # names in the callee's contract resolve in the callee's module
            c.locals = dict(bound)
            self.frames.append(frame)
            # preconditions
            self.spec_mode = True
            pres = [(k, self.truth(self.eval(parse_expr(e)))) for k, e in ct.requires.items() if k not in ct.ghost.get("ghost_requires", {})]
            same_obj = self.self_sv is not None and "self" in bound and z3.eq(z3.simplify(bound["self"].t), z3.simplify(self.self_sv.t))
            if ct.uses_invariant and "self" in bound and ct.cls in self.reg.classes and same_obj:
                for k, e in self.reg.classes[ct.cls].invariant.items():
                    if k in ct.ghost.get("inv_except", []):
                        continue
                    pres.append(("inv:" + k, self.truth(self.eval(parse_expr(e)))))
            self.spec_mode = sm
            ap = self.cur_contract.ghost.get("assume_pre_of") or []
            for k, t in pres:
                if not sm:
                    # assumed either wholesale (list form) or clause by clause (dict form: callee -> [clause names])
                    assume_pre = (ct.fname in ap) if isinstance(ap, list) else (k in ap.get(ct.fname, []))
                    if assume_pre:
                        c.assume(t)  # environment assumption, listed in the caller's contract (ghost.assume_pre_of) and in the evidence
                    else:
                        c.oblige(f"pre:{self.cur_contract.qualname}:{name}:{k}", t, kind="pre", line=node.lineno)
            # exceptional outcomes
            self.spec_mode = True
            exc_conds = []
            for cls, cond in ct.raises.items():
                if cond is None or cond.startswith("may:"):
                    src = cond[4:] if cond else None
                    guard = self.truth(self.eval(parse_expr(src))) if src else z3.BoolVal(True)
                    exc_conds.append((cls, guard, True))
                else:
                    exc_conds.append((cls, self.truth(self.eval(parse_expr(cond))), False))
            self.spec_mode = sm
            if not sm:
                for cls, cond, may in exc_conds:
                    if may:
                        nd = c.fresh_term(z3.BoolSort(), "nd")
                        cond = z3.And(cond, nd)
                    if self.catchable(cls):
                        if c.branch(cond, f"{ct.fname} raises {cls}@{node.lineno}"):
                            # exceptional post of the callee
                            self.havoc_modifies(mod_keys, bound)
                            self.spec_mode = True
                            c.ghost["raised"] = cls
                            for k, e in ct.exc_ensures.items():
                                c.assume(self.truth(self.eval(parse_expr(e))))
                            c.ghost.pop("raised", None)
                            self.spec_mode = sm
                            raise PyRaise(SExc(cls, note=f"from {ct.qualname}"))
                    else:
                        c.oblige(f"exc:{cls}:{self.cur_contract.qualname}:{name}", z3.Not(cond), kind="exc", line=node.lineno)
            # yield point for awaited callees
            if (ct.is_async or ct.yields) and not sm:
                self.yield_point(node, ct.qualname)
            # havoc + assume post
            self.havoc_modifies(mod_keys, bound)
            if constructing is not None:
                res = new_obj
            elif ct.ret is None or ct.ret is TNone:
                res = mk_none()
            else:
                res = c.fresh(ct.ret, "r_" + ct.fname)
            c.locals["result"] = res
            self.spec_mode = True
            # postconditions that mention local('x') of the callee: at a call site x is some value (the one the callee's own proof was
            # about), i.e. a fresh constant of the declared type
            self._callee_exposed = {n: c.fresh(sorts.parse_ty(t), "cl_" + n) for n, t in (ct.ghost.get("exposed_locals") or {}).items()}
            forget = (self.cur_contract.ghost.get("forget_post_of") or {}).get(ct.fname) if not sm else None
            for k, e in ct.ensures.items():
                if forget is not None and (forget == "*" or k in forget):
                    # the caller's proof deliberately does not rely on this postcondition of the callee (its modifies are still havocked)
                    continue
                t = self.truth(self.eval(parse_expr(e)))
                if gvars:
                    # the callee's post holds for every value of its ghost parameters
                    gpre = [self.truth(self.eval(parse_expr(r))) for r in ct.ghost.get("ghost_requires", {}).values()]
                    t = z3.ForAll(gvars, z3.Implies(z3.And(*gpre), t) if gpre else t)
                c.assume(t)
            if ct.keeps_invariant and "self" in bound and ct.cls in self.reg.classes:
                # the callee is proved to re-establish its class invariant
                for k, e in self.reg.classes[ct.cls].invariant.items():
                    if k in ct.ghost.get("inv_except", []):
                        continue
                    c.assume(self.truth(self.eval(parse_expr(e))))
            self._callee_exposed = None
            return SV(res.ty, res.t)
        finally:
            self.spec_mode = sm
            self.mod = saved_mod
            if self.frames and self.frames[-1] is frame:
                self.frames.pop()
            c.locals = saved_locals

    def call_contract_values(self, ct: Contract, self_sv, values: list, node=None) -> SV:
        """Apply a contract to already evaluated arguments (operators that dispatch to __contains__/__getitem__)."""
        names = []
        for i, v in enumerate(values):
            nm = f"__arg{i}"
            self.ctx.locals[nm] = SV(v.ty, v.t, None, v.py)
            names.append(nm)
        call = ast.Call(func=ast.Name(id="__op", ctx=ast.Load()), args=[ast.Name(id=n, ctx=ast.Load()) for n in names], keywords=[])
        if node is not None:
            ast.copy_location(call, node)
        ast.fix_missing_locations(call)
        try:
            return self.call_contract(ct, self_sv, call)
        finally:
            for n in names:
                self.ctx.locals.pop(n, None)

    def modifies_keys(self, ct: Contract, bound) -> list[tuple[str, object]]:
        """[(heap key | 'global:NAME', ref term or None for all objects)]"""
        out = []
        for m in ct.modifies:
            tgt, f = m.split(".", 1)
            if tgt == "global":
                out.append(("global:" + f, None))
                continue
            if tgt == "*":
                for cls, cd in self.reg.classes.items():
                    if f in cd.fields:
                        key = f"{cls}.{f}"
                        self.heap_arr(key, cd.fields[f])
                        out.append((key, None))
                continue
            if tgt in bound and isinstance(bound[tgt].ty, TRef):
                cls = bound[tgt].ty.cls
                key, fty = self.field(cls, f)
                self.heap_arr(key, fty)
                out.append((key, bound[tgt].t))
                continue
            if tgt in self.reg.classes:
                key, fty = self.field(tgt, f)
                self.heap_arr(key, fty)
                out.append((key, None))
                continue
            raise Unsupported(f"modifies entry {m!r} of {ct.qualname}")
        return out

    def havoc_modifies(self, mod_keys, bound):
        c = self.ctx
        for key, ref in mod_keys:
            if key.startswith("global:"):
                nm = key[7:]
                c.globals_[nm] = c.fresh(c.globals_[nm].ty, nm)
                continue
            cls, f = key.split(".")
            fty = self.reg.classes[cls].fields[f]
            arr = self.heap_arr(key, fty)
            if ref is None:
                c.heap[key] = c.fresh_term(arr.sort(), "Hc_" + f)
            else:
                c.heap[key] = z3.Store(arr, ref, c.fresh_term(fty.sort(), "c_" + f))
            c.written.add(key)

    def inline_call(self, ct: Contract, fi: FuncInfo, bound, node) -> SV:
        if self.inline_depth >= self.MAX_INLINE_DEPTH:
            raise Unsupported("inline depth", node)
        c = self.ctx
        saved = (c.locals, self.mod, self.cur_contract, self.cur_finfo, self._ord, self.self_sv)
        self.inline_depth += 1
        try:
            c.locals = {k: SV(v.ty, v.t, v.place if isinstance(v.ty, MUTABLE) and v.place and v.place[0] != "local" else None) for k, v in bound.items()}
            self.mod = fi.module
            self.cur_contract = ct
            self.cur_finfo = fi
            self._ord = {k: f"{ct.fname}/{v}" for k, v in _ordinals(fi.node).items()}
            if "self" in bound:
                self.self_sv = bound["self"]
            if fi.is_async:
                pass
            try:
                self.exec_block(strip_docstring(fi.node.body))
                res = mk_none()
            except _Return as r:
                res = r.val if r.val is not None else mk_none()
            if ct.ret is not None and res.py is None:
                try:
                    res = self.coerce(res, ct.ret, node)
                except Unsupported:
                    pass
            return SV(res.ty, res.t, None, res.py)
        finally:
            self.inline_depth -= 1
            c.locals, self.mod, self.cur_contract, self.cur_finfo, self._ord, self.self_sv = saved

    # spec_old with a frame stack
    def spec_old(self, node):
        c = self.ctx
        fr = self.frames[-1]
        saved = (c.heap, c.globals_, c.locals)
        try:
            c.heap = dict(fr.heap)
            c.globals_ = dict(fr.globals_)
            loc = dict(c.locals)
            loc.update(fr.params)
            c.locals = loc
            return self.eval(node.args[0])
        finally:
            for k, v in c.heap.items():
                if k not in fr.heap:
                    fr.heap[k] = v
                    saved[0].setdefault(k, v)
            c.heap, c.globals_, c.locals = saved


def _ordinals(fnode) -> dict:
    """node id -> 'Kind#n' (n-th node of that kind in source order)."""
    counts: dict[str, int] = {}
    out = {}
    nodes = [n for n in ast.walk(fnode) if hasattr(n, "lineno")]
    nodes.sort(key=lambda n: (n.lineno, n.col_offset, type(n).__name__))
    for n in nodes:
        k = type(n).__name__
        counts[k] = counts.get(k, 0) + 1
        out[id(n)] = f"{k}#{counts[k]}"
    return out


def _spec_old_expr(self, src: str):
    call = ast.Call(func=ast.Name(id="old", ctx=ast.Load()), args=[parse_expr(src)], keywords=[])
    return self.spec_old(call)


Exec.spec_old_expr = _spec_old_expr
