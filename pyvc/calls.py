"""Calls: builtins, container methods, spec functions (mixin)."""
from __future__ import annotations

import ast
import re

import z3

from . import sorts
from .core import SV, PyRaise, SExc, Unsupported, mk_bool, mk_int, mk_none, mk_str
from .evalx import _EMPTY_DICT, _EMPTY_LIST
from .extract import dotted
from .sorts import (TBool, TDict, TEnum, TInt, TList, TNone, TOpaque, TOpt, TReal, TRef, TSet, TStr,
                    TTuple, TUnion, Ty)


class CallMixin:
    def ev_Call(self, node: ast.Call) -> SV:
        d = dotted(node.func)
        if not self.spec_mode and (d is None or self.reg.dynamic_dispatch):
            src = ast.unparse(node)
            if src == "asyncio.get_running_loop().time()":
                return self.ext_call("time.monotonic", node)
            for pat, q in self.reg.dynamic_dispatch.items():
                if re.fullmatch(pat, src, re.S):
                    # dynamic dispatch (getattr(self, f"do_{...}")(cmd)): abstracted by one contract for all handlers
                    return self.call_contract(self.reg.contracts[q], self.self_sv, node)
        if d is not None and not self.spec_mode and self.is_dropped(d):
            return mk_none()
        # spec vocabulary
        if d in SPEC_FORMS and (self.spec_mode or d in ("ghost",)):
            return getattr(self, "spec_" + d)(node)
        if d is not None and d in self.reg.specfns and (self.spec_mode or d not in self.reg.contracts):
            # (in code, a repository function with a contract wins over a spec function of the same name)
            return self.call_specfn(self.reg.specfns[d], node)
        if isinstance(node.func, ast.Name):
            name = node.func.id
            if name not in self.ctx.locals:
                b = getattr(self, "bi_" + name, None)
                if b is not None:
                    return b(node)
                # repo function with a contract
                if name in self.reg.contracts:
                    return self.call_contract(self.reg.contracts[name], None, node)
                v = self.module_name(self.mod, name, node)
                if v is not None and v.py is not None:
                    if v.py[0] == "class":
                        return self.construct(v.py[1], node)
                    if v.py[0] == "enumcls":
                        return self.enum_construct(v.py[1], node)
                    if v.py[0] == "extmodule":
                        return self.ext_call(f"{v.py[1]}.{v.py[2]}", node)
                    if v.py[0] == "func" and name in self.reg.contracts:
                        return self.call_contract(self.reg.contracts[name], None, node)
                raise Unsupported(f"call to {name} (no builtin, no contract)", node)
        if isinstance(node.func, ast.Attribute):
            attr = node.func.attr
            # external module function, e.g. time.time()
            if d is not None:
                root = d.split(".")[0]
                if root not in self.ctx.locals and root != "self":
                    rv = self.module_name(self.mod, root, node)
                    if rv is not None and rv.py is not None and rv.py[0] == "extmodule":
                        full = rv.py[1] + d[len(root):] if rv.py[2] is None else f"{rv.py[1]}.{rv.py[2]}" + d[len(root):]
                        return self.ext_call(full, node)
                    if rv is not None and rv.py is not None and rv.py[0] == "class":
                        q = f"{rv.py[1]}.{attr}"
                        if q in self.reg.contracts:
                            return self.call_contract(self.reg.contracts[q], None, node)
            base = self.eval(node.func.value)
            return self.call_method(base, attr, node)
        raise Unsupported("call form", node)

    def is_dropped(self, d: str) -> bool:
        for p in self.reg.dropped_calls:
            if p.endswith("."):
                if d.startswith(p):
                    return True
            elif d == p:
                return True
        return False

    def args_of(self, node: ast.Call) -> list[SV]:
        out = []
        for a in node.args:
            if isinstance(a, ast.Starred):
                raise Unsupported("star args", node)
            out.append(self.eval(a))
        return out

    def kw_of(self, node: ast.Call) -> dict[str, SV]:
        return {k.arg: self.eval(k.value) for k in node.keywords}

    # ------------------------------------------------------------------
    # builtins
    def bi_len(self, node):
        (v,) = self.args_of(node)
        return SV(TInt, self.length(v, node))

    def length(self, v: SV, node=None):
        ty = v.ty
        if isinstance(ty, TOpt):
            self.may_raise("TypeError", z3.Not(ty.is_none(v.t)), node, "len(None)")
            return self.length(SV(ty.inner, ty.get(v.t)), node)
        if v.t is None and isinstance(ty, (TList, TSet, TDict)):
            return z3.IntVal(0)
        if isinstance(ty, TList):
            self.ctx.note_ty(ty)
            return ty.len(v.t)
        if ty is TStr:
            return z3.Length(v.t)
        if isinstance(ty, TSet):
            self.ctx.note_ty(ty)
            return ty.card_fn()(v.t)
        if isinstance(ty, TDict):
            sty = TSet(ty.key)
            self.ctx.note_ty(sty)
            return sty.card_fn()(ty.dom(v.t))
        if isinstance(ty, TTuple):
            return z3.IntVal(len(ty.elems))
        raise Unsupported(f"len of {ty}", node)

    def bi_isinstance(self, node):
        v = self.eval(node.args[0])
        tn = node.args[1]
        names = [dotted(e) for e in tn.elts] if isinstance(tn, ast.Tuple) else [dotted(tn)]
        return mk_bool(z3.Or(*[self.isinst(v, n, node) for n in names]))

    def isinst(self, v: SV, tname: str, node=None):
        prim = {"int": TInt, "str": TStr, "bool": TBool, "float": TReal}
        ty = v.ty
        if isinstance(ty, TOpt):
            return z3.And(z3.Not(ty.is_none(v.t)), self.isinst(SV(ty.inner, ty.get(v.t)), tname, node))
        if isinstance(ty, TUnion):
            parts = []
            for i, a in enumerate(ty.alts):
                if a is TNone:
                    continue
                parts.append(z3.And(ty.is_alt(v.t, i), self.isinst(SV(a, ty.project(v.t, i)), tname, node)))
            return z3.Or(*parts) if parts else z3.BoolVal(False)
        if tname in prim:
            if tname == "int" and ty is TBool:
                return z3.BoolVal(True)
            return z3.BoolVal(ty is prim[tname])
        if tname == "tuple":
            return z3.BoolVal(isinstance(ty, TTuple))
        if tname == "list":
            return z3.BoolVal(isinstance(ty, TList))
        if tname == "set":
            return z3.BoolVal(isinstance(ty, TSet))
        if tname == "dict":
            return z3.BoolVal(isinstance(ty, TDict))
        if isinstance(ty, TRef):
            return z3.BoolVal(ty.cls == tname or self.reg.is_subclass(ty.cls, tname))
        if isinstance(ty, TEnum):
            return z3.BoolVal(ty.cls == tname)
        return z3.BoolVal(False)

    def bi_int(self, node):
        (v,) = self.args_of(node)
        if v.ty is TInt:
            return v
        if v.ty is TBool:
            return self.as_int(v)
        if v.ty is TStr:
            # int(s): `[+-]?[0-9]+` is decoded exactly; any other text either
            # raises ValueError or yields an unconstrained integer (python also
            # accepts surrounding whitespace, underscores, unicode digits)
            strict = z3.InRe(v.t, INT_RE)
            lax = self.ctx.fresh_term(z3.BoolSort(), "intlax")
            self.may_raise("ValueError", z3.Or(strict, lax), node, "int(str)")
            neg = z3.PrefixOf(z3.StringVal("-"), v.t)
            body = z3.If(z3.Or(neg, z3.PrefixOf(z3.StringVal("+"), v.t)), z3.SubString(v.t, 1, z3.Length(v.t) - 1), v.t)
            n = z3.StrToInt(body)
            other = self.ctx.fresh_term(z3.IntSort(), "intval")
            # int() inverts str() on numerals (level-1 link to the named function used for str(int))
            from .evalx import _istr_inv

            inv = _istr_inv()(v.t)
            self.ctx.assume(z3.Implies(strict, inv == z3.If(neg, -n, n)))
            # a plain numeral (no sign) decodes to a non-negative integer
            self.ctx.assume(z3.Implies(z3.InRe(v.t, z3.Plus(z3.Range("0", "9"))), inv >= 0))
            if self.spec_mode:
                # in a specification int(s) is the pure function itself (meaningful on numerals; on other text it is some fixed,
                # unspecified integer -- not a fresh one per occurrence, so that two occurrences of int(s) agree)
                return SV(TInt, inv)
            return SV(TInt, z3.If(strict, inv, other))
        if v.ty is TReal:
            return SV(TInt, z3.ToInt(v.t))
        return self.as_int(v, node)

    def bi_str(self, node):
        args = self.args_of(node)
        if not args:
            return mk_str("")
        if args[0].py is not None:
            return self.ctx.fresh(TStr, "str")
        return self.to_str(args[0])

    def bi_bool(self, node):
        (v,) = self.args_of(node)
        return mk_bool(self.truth(v, node))

    def bi_abs(self, node):
        (v,) = self.args_of(node)
        return SV(v.ty, z3.If(v.t >= 0, v.t, -v.t))

    def bi_min(self, node):
        a = self.args_of(node)
        if len(a) == 2:
            x, y = self.unify(a[0], a[1], node)
            return SV(x.ty, z3.If(x.t <= y.t, x.t, y.t))
        raise Unsupported("min arity", node)

    def bi_max(self, node):
        a = self.args_of(node)
        if len(a) == 2:
            x, y = self.unify(a[0], a[1], node)
            return SV(x.ty, z3.If(x.t >= y.t, x.t, y.t))
        raise Unsupported("max arity", node)

    def bi_copy(self, node):
        (v,) = self.args_of(node)
        return SV(v.ty, v.t)

    def bi_cast(self, node):
        return self.eval(node.args[1])

    def bi_range(self, node):
        a = [self.as_int(x, node).t for x in self.args_of(node)]
        if len(a) == 1:
            lo, hi = z3.IntVal(0), a[0]
        elif len(a) == 2:
            lo, hi = a
        else:
            raise Unsupported("range with step", node)
        return self.mk_range(lo, hi)

    def mk_range(self, lo, hi) -> SV:
        ty = TList(TInt)
        self.ctx.note_ty(ty)
        arr = self.ctx.fresh_term(z3.ArraySort(z3.IntSort(), z3.IntSort()), "rng")
        j = z3.Int("j!rng")
        self.ctx.assume(sorts.forall([j], z3.Select(arr, j) == lo + j, patterns=[z3.Select(arr, j)]))
        R = ty.mk(z3.simplify(z3.If(hi > lo, hi - lo, 0)), arr)
        E = self.ctx.fresh_term(TSet(TInt).sort(), "rngset")
        x = z3.Int("x!rng")
        self.ctx.assume(sorts.forall([x], z3.Select(E, x) == z3.And(lo <= x, x < hi), patterns=[z3.Select(E, x)]))
        self.ctx.assume(ty.elems_fn()(R) == E)
        return SV(ty, R)

    def bi_list(self, node):
        args = self.args_of(node)
        if not args:
            return SV(_EMPTY_LIST, None)
        v = args[0]
        if isinstance(v.ty, TList):
            return SV(v.ty, v.t)
        if isinstance(v.ty, TSet):
            return self.enum_set(v, ordered=None)
        if v.py is not None and v.py[0] == "keys":
            return self.enum_set(SV(TSet(v.py[1].ty.key), v.py[1].ty.dom(v.py[1].t)), ordered=None)
        if isinstance(v.ty, TTuple) and v.ty.elems and all(e == v.ty.elems[0] for e in v.ty.elems):
            ty = TList(v.ty.elems[0])
            L = self.empty_list(ty)
            for i in range(len(v.ty.elems)):
                L = self.list_append(L, SV(v.ty.elems[0], v.ty.get(v.t, i)))
            return L
        raise Unsupported(f"list() of {v.ty}", node)

    def bi_tuple(self, node):
        return self.bi_list(node)

    def bi_set(self, node):
        args = self.args_of(node)
        if not args:
            return SV(_EMPTY_SET, None)
        v = args[0]
        if isinstance(v.ty, TList):
            if v.t is None:
                return SV(_EMPTY_SET, None)
            self.ctx.note_ty(v.ty)
            return SV(TSet(v.ty.elem), v.ty.elems_fn()(v.t))
        if isinstance(v.ty, TSet):
            return SV(v.ty, v.t)
        if v.py is not None and v.py[0] == "keys":
            d = v.py[1]
            return SV(TSet(d.ty.key), d.ty.dom(d.t))
        raise Unsupported(f"set() of {v.ty}", node)

    def bi_frozenset(self, node):
        return self.bi_set(node)

    def bi_defaultdict(self, node):
        return SV(_EMPTY_DICT, None, py=("defaultdict",))

    def bi_dict(self, node):
        if not node.args:
            return SV(_EMPTY_DICT, None)
        raise Unsupported("dict(x)", node)

    def bi_sorted(self, node):
        (v,) = self.args_of(node)
        kw = {k.arg: k.value for k in node.keywords}
        rev = False
        if "reverse" in kw:
            r = kw["reverse"]
            if not (isinstance(r, ast.Constant) and isinstance(r.value, bool)):
                raise Unsupported("sorted(reverse=<non-constant>)", node)
            rev = r.value
        if "key" in kw:
            raise Unsupported("sorted(key=...)", node)
        if v.py is not None and v.py[0] == "keys":
            d = v.py[1]
            v = SV(TSet(d.ty.key), d.ty.dom(d.t))
        if isinstance(v.ty, TSet):
            if v.t is None:
                return SV(_EMPTY_LIST, None)
            return self.enum_set(v, ordered="desc" if rev else "asc")
        if isinstance(v.ty, TList):
            if v.t is None:
                return v
            ty = v.ty
            R = self.ctx.fresh(ty, "sorted")
            self.ctx.assume(ty.len(R.t) == ty.len(v.t))
            self.ctx.assume(ty.elems_fn()(R.t) == ty.elems_fn()(v.t))
            self.ctx.assume(self.ordered(ty, R.t, strict=False, desc=rev))
            # a duplicate-free list stays duplicate-free
            self.ctx.assume(z3.Implies(self.distinct(ty, v.t), self.ordered(ty, R.t, strict=True, desc=rev)))
            return R
        raise Unsupported(f"sorted of {v.ty}", node)

    def ordered(self, ty: TList, L, strict=True, desc=False):
        i, j = z3.Int("i!ord"), z3.Int("j!ord")
        a, b = z3.Select(ty.arr(L), i), z3.Select(ty.arr(L), j)
        if ty.elem is TStr:
            rel = (a < b) if strict else (a <= b)
            if desc:
                rel = (b < a) if strict else (b <= a)
        else:
            rel = (a < b) if strict else (a <= b)
            if desc:
                rel = (a > b) if strict else (a >= b)
        return sorts.forall([i, j], z3.Implies(z3.And(0 <= i, i < j, j < ty.len(L)), rel), patterns=[z3.MultiPattern(a, b)])

    def distinct(self, ty: TList, L):
        i, j = z3.Int("i!dis"), z3.Int("j!dis")
        a, b = z3.Select(ty.arr(L), i), z3.Select(ty.arr(L), j)
        return sorts.forall([i, j], z3.Implies(z3.And(0 <= i, i < j, j < ty.len(L)), a != b), patterns=[z3.MultiPattern(a, b)])

    def enum_set(self, s: SV, ordered) -> SV:
        """A duplicate-free list enumerating set `s` (asc/desc/arbitrary)."""
        ty = TList(s.ty.elem)
        self.ctx.note_ty(ty)
        self.ctx.note_ty(s.ty)
        R = self.ctx.fresh(ty, "enum")
        self.ctx.assume(ty.elems_fn()(R.t) == s.t)
        self.ctx.assume(ty.len(R.t) == s.ty.card_fn()(s.t))
        if ordered in ("asc", "desc"):
            self.ctx.assume(self.ordered(ty, R.t, strict=True, desc=(ordered == "desc")))
        else:
            self.ctx.assume(self.distinct(ty, R.t))
        return R

    def bi_enumerate(self, node):
        (v,) = self.args_of(node)
        kw = self.kw_of(node)
        start = self.as_int(kw["start"], node).t if "start" in kw else 0
        return SV(None, None, py=("enumerate", v, start))

    def bi_reversed(self, node):
        raise Unsupported("reversed", node)

    def bi_any(self, node):
        return self.quant_gen(node, any_=True)

    def bi_all(self, node):
        return self.quant_gen(node, any_=False)

    def quant_gen(self, node, any_: bool):
        g = node.args[0]
        if not isinstance(g, (ast.GeneratorExp, ast.ListComp)) or len(g.generators) != 1:
            raise Unsupported("any/all needs a single generator", node)
        gen = g.generators[0]
        it = self.iter_list(self.eval(gen.iter), gen.iter)
        if it.t is None:
            return mk_bool(not any_)
        ty = it.ty
        j = self.ctx.fresh_term(z3.IntSort(), "q")
        saved = dict(self.ctx.locals)
        sm = self.spec_mode
        self.spec_mode = True  # body must be pure
        try:
            self.bind_target(gen.target, SV(ty.elem, z3.Select(ty.arr(it.t), j)), it)
            conds = [self.truth(self.eval(c), c) for c in gen.ifs]
            body = self.truth(self.eval(g.elt), g.elt)
        finally:
            self.spec_mode = sm
            self.ctx.locals = saved
        rng = z3.And(0 <= j, j < ty.len(it.t), *conds)
        if any_:
            return mk_bool(z3.Exists([j], z3.And(rng, body)))
        return mk_bool(sorts.forall([j], z3.Implies(rng, body)))

    def bi_sum(self, node):
        raise Unsupported("sum", node)

    def bi_hasattr(self, node):
        # attribute presence decided at run time: explored both ways
        return mk_bool(self.ctx.fresh_term(z3.BoolSort(), "hasattr"))

    def bi_print(self, node):
        return mk_none()

    # ------------------------------------------------------------------
    # iteration helper: turn an iterable into a list value
    def iter_list(self, v: SV, node=None) -> SV:
        if v.py is not None:
            k = v.py[0]
            if k == "keys":
                d = v.py[1]
                return self.enum_set(SV(TSet(d.ty.key), d.ty.dom(d.t)), ordered=None)
            if k in ("values", "items", "enumerate"):
                return v  # handled by the loop
        if isinstance(v.ty, TList):
            return v
        if isinstance(v.ty, TSet):
            if v.t is None:
                return SV(_EMPTY_LIST, None)
            return self.enum_set(v, ordered=None)
        if isinstance(v.ty, TDict):
            if v.t is None:
                return SV(_EMPTY_LIST, None)
            return self.enum_set(SV(TSet(v.ty.key), v.ty.dom(v.t)), ordered=None)
        if isinstance(v.ty, TTuple):
            ety = v.ty.elems[0]
            if all(e == ety for e in v.ty.elems):
                L = self.empty_list(TList(ety))
                for i in range(len(v.ty.elems)):
                    L = self.list_append(L, SV(ety, v.ty.get(v.t, i)))
                return L
        if isinstance(v.ty, TOpt):
            self.may_raise("TypeError", z3.Not(v.ty.is_none(v.t)), node, "iterate None")
            return self.iter_list(SV(v.ty.inner, v.ty.get(v.t)), node)
        raise Unsupported(f"iteration over {v.ty}", node)

    # ------------------------------------------------------------------
    # comprehensions
    def ev_ListComp(self, node):
        return self.comprehension(node, node.elt)

    def ev_GeneratorExp(self, node):
        return self.comprehension(node, node.elt)

    def ev_SetComp(self, node):
        L = self.comprehension(node, node.elt)
        if L.t is None:
            return SV(_EMPTY_SET, None)
        return SV(TSet(L.ty.elem), L.ty.elems_fn()(L.t))

    def ev_DictComp(self, node):
        """{k: i for i, k in enumerate(L)} and {k: f(k) for k in L}"""
        if len(node.generators) != 1 or node.generators[0].ifs:
            raise Unsupported("dict comprehension form", node)
        gen = node.generators[0]
        src = self.eval(gen.iter)
        if src.py is not None and src.py[0] == "items" and src.py[1].py is not None and src.py[1].py[0] == "dictlit":
            # comprehension over a literal dict: unroll
            saved = dict(self.ctx.locals)
            pairs = []
            try:
                for k, v in src.py[1].py[1]:
                    tv = TTuple([k.ty, v.ty])
                    self.bind_target(gen.target, SV(tv, tv.mk(k.t, v.t)), None)
                    pairs.append((self.eval(node.key), self.eval(node.value)))
            finally:
                self.ctx.locals = saved
            return self.dict_from_pairs(pairs, node)
        enum = src.py is not None and src.py[0] == "enumerate"
        it = self.iter_list(src.py[1] if enum else src, gen.iter)
        if it.t is None:
            return SV(_EMPTY_DICT, None)
        lty = it.ty
        # evaluate key/value for a symbolic index to learn the types
        j = self.ctx.fresh_term(z3.IntSort(), "dc")
        saved = dict(self.ctx.locals)
        sm = self.spec_mode
        self.spec_mode = True
        try:
            elem = SV(lty.elem, z3.Select(lty.arr(it.t), j))
            if enum:
                tv = TTuple([TInt, lty.elem])
                self.bind_target(gen.target, SV(tv, tv.mk(j, elem.t)), None)
            else:
                self.bind_target(gen.target, elem, None)
            k = self.eval(node.key)
            v = self.eval(node.value)
        finally:
            self.spec_mode = sm
            self.ctx.locals = saved
        dty = TDict(k.ty, v.ty)
        self.ctx.note_ty(dty)
        D = self.ctx.fresh(dty, "dcomp")
        jj = z3.Int("j!dc")
        kk = z3.substitute(k.t, (j, jj))
        vv = z3.substitute(v.t, (j, jj))
        inr = z3.And(0 <= jj, jj < lty.len(it.t))
        # dom == keys produced; last writer wins: for the *last* index with that key
        later = z3.Int("l!dc")
        kl = z3.substitute(k.t, (j, later))
        is_last = z3.Not(z3.Exists([later], z3.And(jj < later, later < lty.len(it.t), kl == kk)))
        self.ctx.assume(sorts.forall([jj], z3.Implies(inr, z3.Select(dty.dom(D.t), kk)), patterns=[kk] if not z3.is_var(kk) and kk.num_args() > 0 else None))
        self.ctx.assume(sorts.forall([jj], z3.Implies(z3.And(inr, is_last), z3.Select(dty.val_(D.t), kk) == vv)))
        # every key in dom comes from some index
        wit = z3.Function(f"dcw!{id(node)}_{self.ctx.path_id}_{len(self.ctx.pc)}", k.ty.sort(), z3.IntSort())
        key = z3.Const("k!dc", k.ty.sort())
        kw = z3.substitute(k.t, (j, wit(key)))
        self.ctx.assume(
            sorts.forall([key], z3.Implies(z3.Select(dty.dom(D.t), key), z3.And(0 <= wit(key), wit(key) < lty.len(it.t), kw == key)), patterns=[z3.Select(dty.dom(D.t), key)])
        )
        return D

    def comprehension(self, node, elt) -> SV:
        """[f(x) for x in L if c(x)] -> order-preserving filtered map."""
        if len(node.generators) != 1:
            raise Unsupported("nested comprehension", node)
        gen = node.generators[0]
        src = self.eval(gen.iter)
        enum = src.py is not None and src.py[0] == "enumerate"
        it = self.iter_list(src.py[1] if enum else src, gen.iter)
        if it.t is None:
            return SV(_EMPTY_LIST, None)
        lty = it.ty
        self.ctx.note_ty(lty)
        j = self.ctx.fresh_term(z3.IntSort(), "lc")
        from . import core as _core0

        start_n = _core0._counter.n
        saved = dict(self.ctx.locals)
        # the element expression may raise (e.g. d[k]): check it for an
        # arbitrary in-range index satisfying the filter
        pc_len = len(self.ctx.pc)
        try:
            self.ctx.pc.append(z3.And(0 <= j, j < lty.len(it.t)))
            elem = SV(lty.elem, z3.Select(lty.arr(it.t), j))
            if enum:
                tv = TTuple([TInt, lty.elem])
                self.bind_target(gen.target, SV(tv, tv.mk(j, elem.t)), None)
            else:
                self.bind_target(gen.target, elem, None)
            conds = []
            for c in gen.ifs:
                ct = self.truth(self.eval(c), c)
                conds.append(ct)
                self.ctx.pc.append(ct)
                self.narrow(c, True)  # `[u for u in L if u is not None]`: u is the inner value in the element expression
            val = self.eval(elt)
        finally:
            extra = self.ctx.pc[pc_len:]
            del self.ctx.pc[pc_len:]
            self.ctx.locals = saved
        # Symbols created while evaluating the element for the arbitrary index j (results of contract calls, fresh
        # strings, ...) are values *per index*: turn each into a function of the index and keep what was assumed
        # about it, universally over the index range.
        from . import core as _core

        fresh = {}
        def collect(e):
            if z3.is_const(e) and e.decl().kind() == z3.Z3_OP_UNINTERPRETED:
                nm = e.decl().name()
                mm = re.search(r"!(\d+)$", nm)
                if mm and int(mm.group(1)) > start_n and not z3.eq(e, j):
                    fresh[nm] = e
            elif z3.is_app(e):
                for ch in e.children():
                    collect(ch)
            elif z3.is_quantifier(e):
                collect(e.body())
        collect(val.t)
        if fresh:
            for a in extra:
                collect(a)
            subs = []
            for nm, c0 in fresh.items():
                F = z3.Function(f"sk_{nm}", z3.IntSort(), c0.sort())
                subs.append((c0, F(j)))
            val = SV(val.ty, z3.substitute(val.t, *subs))
            conds = [z3.substitute(c, *subs) for c in conds]
            jq = z3.Int("j!sk")
            rng_j = z3.And(0 <= jq, jq < lty.len(it.t))
            for a in extra[1:]:  # extra[0] is the range assumption on j itself
                body = z3.substitute(z3.substitute(a, *subs), (j, jq))
                self.ctx.assume(sorts.forall([jq], z3.Implies(rng_j, body), patterns=[z3.Select(lty.arr(it.t), jq)]))
        rty = TList(val.ty)
        self.ctx.note_ty(rty)
        cond = z3.And(*conds) if conds else z3.BoolVal(True)
        jj = z3.Int("j!lc")
        vj = z3.substitute(val.t, (j, jj))
        cj = z3.substitute(cond, (j, jj))
        n = lty.len(it.t)
        if not conds and val.ty == lty.elem and not enum:
            v0 = z3.simplify(val.t)
            e0 = z3.simplify(z3.Select(lty.arr(it.t), j))
            if z3.eq(v0, e0) or (gen.target and isinstance(elt, ast.Call) and dotted(elt.func) == "int" and lty.elem is TInt):
                return SV(lty, it.t)  # identity map: a copy of the source list
        if not conds:
            arr = self.ctx.fresh_term(z3.ArraySort(z3.IntSort(), val.ty.sort()), "map")
            self.ctx.assume(sorts.forall([jj], z3.Implies(z3.And(0 <= jj, jj < n), z3.Select(arr, jj) == vj), patterns=[z3.Select(arr, jj), z3.Select(lty.arr(it.t), jj)]))
            R = rty.mk(n, arr)
            # membership: y in R <=> exists j. y = f(L[j])
            wit = z3.Function(f"mapw!{next(_wcount)}", val.ty.sort(), z3.IntSort())
            y = z3.Const("y!lc", val.ty.sort())
            vw = z3.substitute(val.t, (j, wit(y)))
            el = rty.elems_fn()(R)
            self.ctx.assume(sorts.forall([y], z3.Implies(z3.Select(el, y), z3.And(0 <= wit(y), wit(y) < n, vw == y)), patterns=[z3.Select(el, y)]))
            return SV(rty, R)
        # filtered: src(k) strictly increasing, dst(j) inverse
        R = self.ctx.fresh(rty, "filt")
        k = z3.Int("k!lc")
        k2 = z3.Int("k2!lc")
        srcf = z3.Function(f"src!{next(_wcount)}", z3.IntSort(), z3.IntSort())
        dstf = z3.Function(f"dst!{next(_wcount)}", z3.IntSort(), z3.IntSort())
        rl = rty.len(R.t)
        ra = rty.arr(R.t)
        v_src = z3.substitute(val.t, (j, srcf(k)))
        c_src = z3.substitute(cond, (j, srcf(k)))
        self.ctx.assume(rl <= n)
        self.ctx.assume(
            sorts.forall([k], z3.Implies(z3.And(0 <= k, k < rl), z3.And(0 <= srcf(k), srcf(k) < n, c_src, z3.Select(ra, k) == v_src, dstf(srcf(k)) == k)), patterns=[z3.Select(ra, k)])
        )
        self.ctx.assume(
            sorts.forall([k, k2], z3.Implies(z3.And(0 <= k, k < k2, k2 < rl), srcf(k) < srcf(k2)), patterns=[z3.MultiPattern(srcf(k), srcf(k2))])
        )
        self.ctx.assume(
            sorts.forall([jj], z3.Implies(z3.And(0 <= jj, jj < n, cj), z3.And(0 <= dstf(jj), dstf(jj) < rl, srcf(dstf(jj)) == jj, z3.Select(ra, dstf(jj)) == vj)), patterns=[z3.Select(lty.arr(it.t), jj)])
        )
        return R

    # ------------------------------------------------------------------
    # methods on values
    def call_method(self, base: SV, attr: str, node: ast.Call) -> SV:
        ty = base.ty
        if base.py is not None and base.py[0] == "enumcls":
            raise Unsupported("enum class method", node)
        if isinstance(ty, TOpt) and not isinstance(ty.inner, TRef):
            self.may_raise("AttributeError", z3.Not(ty.is_none(base.t)), node, "None." + attr)
            base = SV(ty.inner, ty.get(base.t), base.place)
            ty = base.ty
        if isinstance(ty, TList):
            return self.list_method(base, attr, node)
        if isinstance(ty, TSet):
            return self.set_method(base, attr, node)
        if isinstance(ty, TDict):
            return self.dict_method(base, attr, node)
        if ty is TStr:
            return self.str_method(base, attr, node)
        if isinstance(ty, TOpaque):
            q = f"{ty._n}.{attr}"
            if q in self.reg.contracts:
                return self.call_contract(self.reg.contracts[q], base, node)
            raise Unsupported(f"no contract for {q}", node)
        if isinstance(ty, TRef) or (isinstance(ty, TOpt) and isinstance(ty.inner, TRef)):
            if isinstance(ty, TOpt):
                self.may_raise("AttributeError", z3.Not(ty.is_none(base.t)), node, "None." + attr)
                base = SV(ty.inner, ty.get(base.t))
                ty = base.ty
            q = self.resolve_method(ty.cls, attr)
            if q is None:
                raise Unsupported(f"no contract for {ty.cls}.{attr}", node)
            return self.call_contract(self.reg.contracts[q], base, node)
        raise Unsupported(f"method {attr} on {ty}", node)

    def resolve_method(self, cls: str, attr: str):
        seen = set()
        while cls and cls not in seen:
            q = f"{cls}.{attr}"
            if q in self.reg.contracts:
                return q
            seen.add(cls)
            cls = self.reg.exc_parents.get(cls)
        return None

    def unopt(self, v: SV, node=None) -> SV:
        if isinstance(v.ty, TOpt):
            self.may_raise("TypeError", z3.Not(v.ty.is_none(v.t)), node, "None operand")
            return SV(v.ty.inner, v.ty.get(v.t), v.place)
        return v

    def need_place(self, base: SV, node):
        if base.place is None:
            raise Unsupported("mutation of a temporary", node)

    def materialize(self, base: SV, elem_ty: Ty, node) -> SV:
        """Give an untyped empty container its element type."""
        if base.t is not None:
            return base
        if isinstance(base.ty, TList):
            nv = self.empty_list(TList(elem_ty))
        elif isinstance(base.ty, TSet):
            nv = SV(TSet(elem_ty), TSet(elem_ty).empty())
            self.ctx.note_ty(nv.ty)
        else:
            raise Unsupported("materialize", node)
        return SV(nv.ty, nv.t, base.place)

    def list_method(self, base: SV, attr: str, node):
        args = self.args_of(node)
        if attr == "append":
            self.need_place(base, node)
            base = self.materialize(base, args[0].ty, node)
            self.write_place(base.place, self.list_append(base, args[0]))
            return mk_none()
        if attr == "extend":
            self.need_place(base, node)
            other = self.iter_list(args[0], node)
            if other.t is None:
                return mk_none()
            base = self.materialize(base, other.ty.elem, node)
            self.write_place(base.place, self.list_concat(base, other, node))
            return mk_none()
        if attr == "index":
            if base.t is None:
                self.may_raise("ValueError", z3.BoolVal(False), node, "index")
                raise PyRaise(SExc("ValueError"))
            ty = base.ty
            x = self.coerce(args[0], ty.elem, node)
            self.may_raise("ValueError", z3.Select(ty.elems_fn()(base.t), x.t), node, "list.index")
            r = self.ctx.fresh_term(z3.IntSort(), "idx")
            j = z3.Int("j!idx")
            self.ctx.assume(z3.And(0 <= r, r < ty.len(base.t), z3.Select(ty.arr(base.t), r) == x.t))
            self.ctx.assume(sorts.forall([j], z3.Implies(z3.And(0 <= j, j < r), z3.Select(ty.arr(base.t), j) != x.t)))
            return SV(TInt, r)
        if attr == "copy":
            return SV(base.ty, base.t)
        if attr == "pop" or attr == "insert" or attr == "remove" or attr == "sort":
            raise Unsupported("list." + attr, node)
        raise Unsupported("list." + attr, node)

    def list_delete(self, base: SV, idx: SV, node):
        ty = base.ty
        ln = ty.len(base.t)
        idx = self.as_int(idx, node)
        self.may_raise("IndexError", z3.And(idx.t >= -ln, idx.t < ln), node, "del index")
        i = z3.If(idx.t < 0, idx.t + ln, idx.t)
        arr = self.ctx.fresh_term(z3.ArraySort(z3.IntSort(), ty.elem.sort()), "del")
        j = z3.Int("j!del")
        self.ctx.assume(
            sorts.forall([j], z3.Select(arr, j) == z3.If(j < i, z3.Select(ty.arr(base.t), j), z3.Select(ty.arr(base.t), j + 1)), patterns=[z3.Select(arr, j)])
        )
        R = ty.mk(z3.simplify(ln - 1), arr)
        el = ty.elems_fn()
        self.ctx.assume(z3.IsSubset(el(R), el(base.t)))
        # if the old list had no duplicates the removed element is gone
        removed = z3.Select(ty.arr(base.t), i)
        self.ctx.assume(z3.Implies(self.distinct(ty, base.t), el(R) == z3.Store(el(base.t), removed, False)))
        self.write_place(base.place, SV(ty, R))

    def set_method(self, base: SV, attr: str, node):
        args = self.args_of(node)
        if attr in ("add", "discard", "remove"):
            self.need_place(base, node)
            base = self.materialize(base, args[0].ty, node)
            ty = base.ty
            x = self.coerce(args[0], ty.elem, node)
            card = ty.card_fn()
            had = z3.Select(base.t, x.t)
            if attr == "remove":
                self.may_raise("KeyError", had, node, "set.remove")
            if attr == "add":
                ns = z3.Store(base.t, x.t, True)
                self.ctx.assume(card(ns) == card(base.t) + z3.If(had, 0, 1))
            else:
                ns = z3.Store(base.t, x.t, False)
                self.ctx.assume(card(ns) == card(base.t) - z3.If(had, 1, 0))
            self.write_place(base.place, SV(ty, ns))
            return mk_none()
        if attr == "update":
            self.need_place(base, node)
            o = args[0]
            if isinstance(o.ty, TList):
                if o.t is None:
                    return mk_none()
                other = SV(TSet(o.ty.elem), o.ty.elems_fn()(o.t))
            elif isinstance(o.ty, TSet):
                other = o
            else:
                raise Unsupported("set.update arg", node)
            base = self.materialize(base, other.ty.elem, node)
            self.write_place(base.place, SV(base.ty, z3.SetUnion(base.t, other.t)))
            return mk_none()
        if attr == "copy":
            return SV(base.ty, base.t)
        if attr == "clear":
            self.need_place(base, node)
            if base.t is not None:
                self.write_place(base.place, SV(base.ty, base.ty.empty()))
            return mk_none()
        if attr in ("union", "intersection", "difference"):
            o = self.unopt(args[0], node)
            if base.t is None and o.t is None:
                return SV(_EMPTY_SET, None)
            a, b = self.unify_sets(base, o if isinstance(o.ty, TSet) else SV(TSet(o.ty.elem), o.ty.elems_fn()(o.t)))
            f = {"union": z3.SetUnion, "intersection": z3.SetIntersect, "difference": z3.SetDifference}[attr]
            return SV(a.ty, f(a.t, b.t))
        if attr == "issubset":
            a, b = self.unify_sets(base, args[0])
            return mk_bool(z3.IsSubset(a.t, b.t))
        if attr == "isdisjoint":
            a, b = self.unify_sets(base, args[0])
            return mk_bool(z3.SetIntersect(a.t, b.t) == a.ty.empty())
        raise Unsupported("set." + attr, node)

    def dict_method(self, base: SV, attr: str, node):
        ty = base.ty
        if attr in ("keys", "values", "items"):
            if base.t is None:
                return SV(_EMPTY_LIST, None)
            return SV(None, None, py=(attr, base))
        args = self.args_of(node)
        if base.t is None:
            if attr == "get":
                return args[1] if len(args) > 1 else mk_none()
            raise Unsupported("method on untyped empty dict", node)
        if attr == "get":
            k = self.coerce(args[0], ty.key, node)
            has = z3.Select(ty.dom(base.t), k.t)
            val = SV(ty.val, z3.Select(ty.val_(base.t), k.t))
            if len(args) > 1:
                dflt = args[1]
                if dflt.t is None and isinstance(dflt.ty, (TList, TSet, TDict)):
                    # untyped empty container as default: only its emptiness matters
                    if isinstance(ty.val, TSet):
                        dflt = SV(ty.val, ty.val.empty())
                    elif isinstance(ty.val, TList):
                        dflt = self.empty_list(ty.val)
                    else:
                        raise Unsupported("dict.get default", node)
                a, b = self.unify(val, dflt, node)
                return SV(a.ty, z3.If(has, a.t, b.t))
            oty = TOpt(ty.val)
            return SV(oty, z3.If(has, oty.some(val.t), oty.none()))
        if attr == "pop":
            self.need_place(base, node)
            k = self.coerce(args[0], ty.key, node)
            has = z3.Select(ty.dom(base.t), k.t)
            if len(args) == 1:
                self.may_raise("KeyError", has, node, "dict.pop")
            val = SV(ty.val, z3.Select(ty.val_(base.t), k.t))
            nb = ty.mk(z3.Store(ty.dom(base.t), k.t, False), ty.val_(base.t))
            self.write_place(base.place, SV(ty, nb))
            if len(args) > 1:
                a, b = self.unify(val, args[1], node)
                return SV(a.ty, z3.If(has, a.t, b.t))
            return val
        if attr == "copy":
            return SV(ty, base.t)
        raise Unsupported("dict." + attr, node)

    def str_method(self, base: SV, attr: str, node):
        args = self.args_of(node)
        s = base.t
        if attr == "startswith":
            return mk_bool(z3.PrefixOf(args[0].t, s))
        if attr == "endswith":
            return mk_bool(z3.SuffixOf(args[0].t, s))
        if attr == "lower" or attr == "upper":
            f = _case_fn(attr)
            r = f(s)
            self.ctx.assume(z3.Length(r) == z3.Length(s))
            return SV(TStr, r)
        if attr == "strip" and not args:
            # a named function of the string (deterministic), with the facts the proofs need
            key = "uf:py_strip"
            if key not in sorts._cache:
                sorts._cache[key] = z3.Function("py_strip", z3.StringSort(), z3.StringSort())
            r = SV(TStr, sorts._cache[key](s))
            self.ctx.assume(z3.Contains(s, r.t))
            self.ctx.assume(z3.Implies(z3.Length(s) == 0, z3.Length(r.t) == 0))
            # text without any white space is returned as it is
            ws = z3.Union(*[z3.Re(c) for c in " \t\n\r\x0b\x0c"])
            self.ctx.assume(z3.Implies(z3.InRe(s, z3.Star(z3.Intersect(z3.Range(chr(0), chr(255)), z3.Complement(ws)))), r.t == s))
            return r
        if attr == "isdigit":
            return mk_bool(z3.InRe(s, z3.Plus(z3.Range("0", "9"))))
        if attr == "encode" and node.args and isinstance(node.args[0], ast.Constant) and \
                str(node.args[0].value).lower().replace("_", "-") in ("latin-1", "latin1", "iso-8859-1"):
            # bytes are modelled as the latin-1 text they decode to: encoding is the identity on code points 0..255
            lat = z3.InRe(s, z3.Star(z3.Range(chr(0), chr(255))))
            errors = None
            if len(node.args) > 1:
                errors = ast.literal_eval(node.args[1])
            for kw in node.keywords:
                if kw.arg == "errors":
                    errors = ast.literal_eval(kw.value)
            if errors in (None, "strict"):
                self.may_raise("UnicodeEncodeError", lat, node, "encode latin-1")
                return SV(TStr, s)
            key = "uf:latin1_" + errors
            if key not in sorts._cache:
                sorts._cache[key] = z3.Function("py_latin1_" + errors, z3.StringSort(), z3.StringSort())
            r = sorts._cache[key](s)
            self.ctx.assume(z3.InRe(r, z3.Star(z3.Range(chr(0), chr(255)))))
            self.ctx.assume(z3.Implies(lat, r == s))
            return SV(TStr, r)
        if attr == "encode" or attr == "decode":
            return SV(TStr, s)
        if attr == "find":
            return SV(TInt, z3.IndexOf(s, args[0].t, 0))
        if attr == "join":
            # level-1: a named function of (separator, list); content is not interpreted
            L = self.iter_list(args[0], node)
            if L.t is None:
                return mk_str("")
            key = "uf:str_join"
            if key not in sorts._cache:
                sorts._cache[key] = z3.Function("py_str_join", z3.StringSort(), TList(TStr).sort(), z3.StringSort())
            return SV(TStr, sorts._cache[key](s, L.t))
        if attr == "split":
            key = "uf:str_split"
            if key not in sorts._cache:
                sorts._cache[key] = z3.Function("py_str_split", z3.StringSort(), z3.StringSort(), TList(TStr).sort())
            sep = args[0].t if args else z3.StringVal(" ")
            r = SV(TList(TStr), sorts._cache[key](s, sep))
            self.ctx.note_ty(r.ty)
            self.ctx.assume_wf(r)
            self.ctx.assume(r.ty.len(r.t) >= 1)
            return r
        if attr == "format":
            return self.ctx.fresh(TStr, "fmt")
        raise Unsupported("str." + attr, node)

    # ------------------------------------------------------------------
    # external library calls
    def ext_call(self, full: str, node) -> SV:
        if full in ("time.time", "time.monotonic"):
            now = self.ctx.fresh(TReal, "now")
            prev = self.ctx.ghost.get("clock:" + full)
            if prev is not None:
                self.ctx.assume(now.t >= prev)
            self.ctx.ghost["clock:" + full] = now.t
            self.ctx.ghost["clock"] = now.t
            self.ctx.assume(now.t >= 0)
            return now
        if full == "asyncio.sleep":
            self.args_of(node)
            self.yield_point(node, "sleep")
            return mk_none()
        if full == "sys.exit":
            raise PyRaise(SExc("SystemExit"))
        if full in ("copy.copy", "copy.deepcopy"):
            (v,) = self.args_of(node)
            return SV(v.ty, v.t)
        if full == "collections.defaultdict":
            return SV(_EMPTY_DICT, None, py=("defaultdict",))
        if full == "typing.cast":
            return self.eval(node.args[1])
        if full in self.reg.contracts:
            return self.call_contract(self.reg.contracts[full], None, node)
        raise Unsupported(f"external call {full} (no trusted contract)", node)

    def construct(self, cls: str, node) -> SV:
        """Class(...) -- exceptions are handled by `raise`; others need contracts."""
        q = f"{cls}.__init__"
        if q in self.reg.contracts:
            return self.call_contract(self.reg.contracts[q], None, node, constructing=cls)
        if cls in self.reg.exc_parents:
            return SV(None, None, py=("excinst", cls, self.args_of(node)))
        raise Unsupported(f"constructor {cls} has no contract", node)

    def enum_construct(self, ety: TEnum, node) -> SV:
        (v,) = self.args_of(node)
        if v.ty == ety:
            return v
        if v.ty is TStr:
            ok = z3.Or(*[v.t == z3.StringVal(str(ety.values[m])) for m in ety.members])
            self.may_raise("ValueError", ok, node, f"{ety.cls}(value)")
            t = ety.member(ety.members[-1])
            for m in reversed(ety.members[:-1]):
                t = z3.If(v.t == z3.StringVal(str(ety.values[m])), ety.member(m), t)
            return SV(ety, t)
        raise Unsupported("enum construct", node)

    # ------------------------------------------------------------------
    # spec vocabulary
    def _quant(self, node, forall: bool):
        lam = node.args[0]
        if not isinstance(lam, ast.Lambda):
            raise Unsupported("forall/exists needs a lambda", node)
        tys = [TInt] * len(lam.args.args)
        if len(node.args) > 1:
            tnames = [ast.literal_eval(a) for a in node.args[1:]]
            tys = [sorts.parse_ty(t) for t in tnames] + tys[len(tnames):]
        saved = dict(self.ctx.locals)
        bvs = []
        try:
            for a, ty in zip(lam.args.args, tys):
                bv = z3.Const(f"{a.arg}!b{next(_wcount)}", ty.sort())
                bvs.append(bv)
                self.ctx.locals[a.arg] = SV(ty, bv)
                self.ctx.note_ty(ty)
            body = self.truth(self.eval(lam.body), lam.body)
        finally:
            self.ctx.locals = saved
        return mk_bool(sorts.forall(bvs, body) if forall else z3.Exists(bvs, body))

    def spec_forall(self, node):
        return self._quant(node, True)

    def spec_exists(self, node):
        return self._quant(node, False)

    def spec_implies(self, node):
        a = self.truth(self.eval(node.args[0]))
        b = self.truth(self.eval(node.args[1]))
        return mk_bool(z3.Implies(a, b))

    def spec_iff(self, node):
        a = self.truth(self.eval(node.args[0]))
        b = self.truth(self.eval(node.args[1]))
        return mk_bool(a == b)

    def spec_ite(self, node):
        c = self.truth(self.eval(node.args[0]))
        a, b = self.unify(self.eval(node.args[1]), self.eval(node.args[2]), node)
        return SV(a.ty, z3.If(c, a.t, b.t))

    def spec_old(self, node):
        saved_heap, saved_glob = self.ctx.heap, self.ctx.globals_
        saved_loc = self.ctx.locals
        try:
            self.ctx.heap = dict(self.ctx.heap_entry)
            self.ctx.globals_ = dict(self.ctx.globals_entry)
            loc = dict(self.ctx.locals)
            loc.update(self.ctx.params_entry)
            self.ctx.locals = loc
            return self.eval(node.args[0])
        finally:
            # new heap arrays may have been created lazily: they are entry arrays
            for k, v in self.ctx.heap.items():
                if k not in self.ctx.heap_entry:
                    self.ctx.heap_entry[k] = v
                    saved_heap.setdefault(k, v)
            self.ctx.heap, self.ctx.globals_ = saved_heap, saved_glob
            self.ctx.locals = saved_loc

    def spec_asc(self, node):
        (v,) = self.args_of(node)
        if v.t is None:
            return mk_bool(True)
        return mk_bool(self.ordered(v.ty, v.t, strict=True))

    def spec_desc(self, node):
        (v,) = self.args_of(node)
        if v.t is None:
            return mk_bool(True)
        return mk_bool(self.ordered(v.ty, v.t, strict=True, desc=True))

    def spec_distinct(self, node):
        (v,) = self.args_of(node)
        return mk_bool(self.distinct(v.ty, v.t))

    def spec_elems(self, node):
        (v,) = self.args_of(node)
        self.ctx.note_ty(v.ty)
        return SV(TSet(v.ty.elem), v.ty.elems_fn()(v.t))

    def spec_dom(self, node):
        (v,) = self.args_of(node)
        return SV(TSet(v.ty.key), v.ty.dom(v.t))

    def spec_card(self, node):
        (v,) = self.args_of(node)
        self.ctx.note_ty(v.ty)
        return SV(TInt, v.ty.card_fn()(v.t))

    def spec_subset(self, node):
        a, b = self.args_of(node)
        return mk_bool(z3.IsSubset(a.t, b.t))

    def spec_empty_set(self, node):
        ty = sorts.parse_ty(ast.literal_eval(node.args[0]))
        return SV(TSet(ty), TSet(ty).empty())

    def spec_is_none(self, node):
        (v,) = self.args_of(node)
        return mk_bool(self.equals(v, mk_none(), node))

    def spec_some(self, node):
        (v,) = self.args_of(node)
        if isinstance(v.ty, TOpt):
            return SV(v.ty.inner, v.ty.get(v.t))
        return v

    def spec_pos(self, node):
        """pos(L, x): a position of x in list L (meaningful when x in L)."""
        L, x = self.args_of(node)
        self.ctx.note_ty(L.ty)
        x = self.coerce(x, L.ty.elem, node)
        return SV(TInt, L.ty.pos_fn()(L.t, x.t))

    def spec_eq_ci(self, node):
        """eq_ci(s, 'Literal'): s equals the literal ignoring ASCII case."""
        s_ = self.eval(node.args[0])
        lit = ast.literal_eval(node.args[1])
        parts = []
        for ch in lit:
            if ch.lower() != ch.upper():
                parts.append(z3.Union(z3.Re(ch.lower()), z3.Re(ch.upper())))
            else:
                parts.append(z3.Re(ch))
        rx = z3.Concat(*parts) if len(parts) > 1 else parts[0]
        return mk_bool(z3.InRe(s_.t, rx))

    def spec_matches(self, node):
        """matches(s, r'regex'): s fully matches the (Python-syntax) regular expression; classes are over code points 0..255."""
        s_ = self.eval(node.args[0])
        return mk_bool(z3.InRe(s_.t, py_regex_to_z3(ast.literal_eval(node.args[1]))))

    def spec_local(self, node):
        """local('n'): value of the function's local variable n at the exit being checked."""
        name = ast.literal_eval(node.args[0])
        exposed = getattr(self, "_callee_exposed", None)
        if exposed is not None:
            if name in exposed:
                return exposed[name]
            raise Unsupported(f"callee contract refers to its local {name!r}: declare it in ghost.exposed_locals", node)
        fl = getattr(self, "final_locals", None) or {}
        if name not in fl:
            if len(node.args) > 1:
                return self.eval(node.args[1])  # default for exits where the local is not bound
            raise Unsupported(f"contract refers to local {name!r} which does not exist at this exit", node)
        v = fl[name]
        if v.place is not None and v.place[0] != "local":
            cur = self.read_place(v.place)
            return SV(cur.ty, cur.t)
        return SV(v.ty, v.t, None, v.py)

    def spec_cur(self, node):
        """cur('x', default): current value of local x (loop invariants), default when it is not bound yet."""
        name = ast.literal_eval(node.args[0])
        if name in self.ctx.locals:
            v = self.lookup(name, node)
            if v.ty is sorts.TNone:
                return self.eval(node.args[1])
            if isinstance(v.ty, sorts.TOpt):
                d = self.eval(node.args[1])
                if d.ty != v.ty.inner:
                    d = self.coerce(d, v.ty.inner, node)
                return SV(v.ty.inner, z3.If(v.ty.is_none(v.t), d.t, v.ty.get(v.t)))
            return v
        return self.eval(node.args[1])

    def spec_cur_path(self, node):
        """cur_path('x', 'a.b', default): x.a.b for the current local x, `default` while x is not bound."""
        name = ast.literal_eval(node.args[0])
        if name not in self.ctx.locals:
            return self.eval(node.args[2])
        v = self.lookup(name, node)
        if v.ty is sorts.TNone:
            return self.eval(node.args[2])  # bound to None: as good as not bound
        opt = v if isinstance(v.ty, sorts.TOpt) else None
        if opt is not None:
            v = SV(opt.ty.inner, opt.ty.get(opt.t))
        for attr in ast.literal_eval(node.args[1]).split("."):
            v = self.get_attr(v, attr, node)
        if opt is not None:
            d = self.eval(node.args[2])
            if d.ty != v.ty:
                d = self.coerce(d, v.ty, node)
            return SV(v.ty, z3.If(opt.ty.is_none(opt.t), d.t, v.t))
        return v

    def spec_cur_path_final(self, node):
        """cur_path over the function's locals at the exit being checked (postconditions)."""
        fl = getattr(self, "final_locals", None) or {}
        saved = self.ctx.locals
        self.ctx.locals = dict(saved)
        name = ast.literal_eval(node.args[0])
        if name in fl:
            self.ctx.locals[name] = fl[name]
        else:
            self.ctx.locals.pop(name, None)
        try:
            return self.spec_cur_path(node)
        finally:
            self.ctx.locals = saved

    def spec_int_of(self, node):
        (v,) = self.args_of(node)
        return self.as_int(v, node)

    def spec_str_of(self, node):
        (v,) = self.args_of(node)
        if v.ty is TStr:
            return v
        i = v.ty.index_of(TStr)
        return SV(TStr, v.ty.project(v.t, i))

    def spec_list_of(self, node):
        (v,) = self.args_of(node)
        if isinstance(v.ty, TList):
            return v
        for i, a in enumerate(v.ty.alts):
            if isinstance(a, TList):
                r = SV(a, v.ty.project(v.t, i))
                self.ctx.assume_wf(r)
                return r
        raise Unsupported("list_of: no list alternative", node)

    def spec_single(self, node):
        (v,) = self.args_of(node)
        return self.list_append(self.empty_list(TList(v.ty)), v)

    def spec_same(self, node):
        """same(a, b): identical value (structural z3 equality) -- the cheap way to say 'untouched'."""
        a, b = self.args_of(node)
        a, b = self.unify(a, b, node)
        return mk_bool(a.t == b.t)

    def spec_is_numeral(self, node):
        (v,) = self.args_of(node)
        return mk_bool(z3.InRe(v.t, z3.Plus(z3.Range("0", "9"))))

    def spec_clock(self, node):
        return SV(TReal, self.ctx.ghost["clock"])

    def spec_raised(self, node):
        """raised('Bad'): is the current exceptional exit of that class?"""
        name = ast.literal_eval(node.args[0])
        cur = self.ctx.ghost.get("raised")
        return mk_bool(cur is not None and self.reg.is_subclass(cur, name))

    def spec_ghost(self, node):
        name = ast.literal_eval(node.args[0])
        return self.ctx.ghost[name]

    def spec_get(self, node):
        """get(d, k): value of dict d at k (total, unspecified outside dom)."""
        d, k = self.args_of(node)
        k = self.coerce(k, d.ty.key)
        if d.ty.default == "set":
            return SV(d.ty.val, z3.If(z3.Select(d.ty.dom(d.t), k.t), z3.Select(d.ty.val_(d.t), k.t), self.default_term(d.ty.val)))
        return SV(d.ty.val, z3.Select(d.ty.val_(d.t), k.t))

    def call_specfn(self, fn, node) -> SV:
        args = self.args_of(node)
        if len(args) != len(fn.params):
            raise Unsupported(f"spec fn {fn.name} arity", node)
        args = [self.coerce(a, ty, node) for a, (_, ty) in zip(args, fn.params)]
        if fn.body is None:
            key = "uf:" + fn.name
            if key not in sorts._cache:
                sorts._cache[key] = z3.Function(fn.name, *[ty.sort() for _, ty in fn.params], fn.ret.sort())
            r = SV(fn.ret, sorts._cache[key](*[a.t for a in args]))
            self.ctx.assume_wf(r)
            return r
        if fn.recursive:
            f = self.rec_fn(fn)
            return SV(fn.ret, f(*[a.t for a in args]))
        saved = self.ctx.locals
        sm = self.spec_mode
        self.spec_mode = True
        try:
            self.ctx.locals = {n: SV(a.ty, a.t) for (n, _), a in zip(fn.params, args)}
            from .registry import parse_expr

            r = self.eval(parse_expr(fn.body))
            if fn.ret is TBool and r.ty is not TBool:
                r = mk_bool(self.truth(r))
            return self.coerce(r, fn.ret, node)
        finally:
            self.ctx.locals = saved
            self.spec_mode = sm

    def rec_fn(self, fn):
        key = "recfn:" + fn.name
        if key in sorts._cache:
            return sorts._cache[key]
        f = z3.RecFunction(fn.name, *[ty.sort() for _, ty in fn.params], fn.ret.sort())
        sorts._cache[key] = f
        formals = [z3.Const(f"{n}!rf", ty.sort()) for n, ty in fn.params]
        saved = self.ctx.locals
        sm = self.spec_mode
        self.spec_mode = True
        try:
            self.ctx.locals = {n: SV(ty, t) for (n, ty), t in zip(fn.params, formals)}
            from .registry import parse_expr

            r = self.eval(parse_expr(fn.body))
            if fn.ret is TBool and r.ty is not TBool:
                r = mk_bool(self.truth(r))
            r = self.coerce(r, fn.ret)
        finally:
            self.ctx.locals = saved
            self.spec_mode = sm
        z3.RecAddDefinition(f, formals, r.t)
        return f


class _EmptyS(TSet):
    def __init__(self):
        self.elem = None
        self.name = "set[?]"


_EMPTY_SET = _EmptyS()

SPEC_FORMS = {
    "forall", "exists", "implies", "iff", "ite", "old", "asc", "desc", "distinct", "elems", "dom", "card",
    "subset", "empty_set", "is_none", "some", "clock", "raised", "ghost", "get", "int_of", "str_of", "lpre", "pos", "eq_ci", "local", "list_of", "single", "same", "is_numeral", "cur", "cur_path", "cur_path_final", "matches",
}

import itertools

_wcount = itertools.count()

INT_RE = z3.Concat(
    z3.Option(z3.Union(z3.Re("-"), z3.Re("+"))),
    z3.Plus(z3.Range("0", "9")),
)

_case_cache: dict = {}


def _case_fn(kind: str):
    if kind not in _case_cache:
        _case_cache[kind] = z3.Function("str_" + kind, z3.StringSort(), z3.StringSort())
    return _case_cache[kind]


def py_regex_to_z3(pattern: str):
    """Python regex (literals, classes, ranges, negated classes, ., |, groups, * + ? {m,n}) -> z3 RegLan, full-match semantics.
    The universe of `.` and of negated classes is code points 0..255 (latin-1 text, i.e. bytes)."""
    import re._parser as sp
    import re._constants as sc

    ALL = z3.Range(chr(0), chr(255))

    def lit(c):
        return z3.Re(chr(c))

    def union(xs):
        xs = list(xs)
        if not xs:
            return z3.Empty(z3.ReSort(z3.StringSort()))
        return xs[0] if len(xs) == 1 else z3.Union(*xs)

    def concat(xs):
        xs = list(xs)
        if not xs:
            return z3.Re("")
        return xs[0] if len(xs) == 1 else z3.Concat(*xs)

    def cls_item(op, av):
        if op is sc.LITERAL:
            return lit(av)
        if op is sc.RANGE:
            return z3.Range(chr(av[0]), chr(av[1]))
        if op is sc.CATEGORY:
            if av is sc.CATEGORY_DIGIT:
                return z3.Range("0", "9")
            if av is sc.CATEGORY_SPACE:
                return union(lit(ord(c)) for c in " \t\n\r\f\v")
        raise ValueError(f"regex class item {op} {av}")

    def conv(seq):
        out = []
        for op, av in seq:
            if op is sc.LITERAL:
                out.append(lit(av))
            elif op is sc.NOT_LITERAL:
                out.append(z3.Intersect(ALL, z3.Complement(lit(av))))
            elif op is sc.ANY:
                out.append(ALL)
            elif op is sc.IN:
                neg = bool(av) and av[0][0] is sc.NEGATE
                items = union(cls_item(o, a) for o, a in (av[1:] if neg else av))
                out.append(z3.Intersect(ALL, z3.Complement(items)) if neg else items)
            elif op is sc.BRANCH:
                out.append(union(conv(b) for b in av[1]))
            elif op is sc.SUBPATTERN:
                out.append(conv(av[3]))
            elif op in (sc.MAX_REPEAT, sc.MIN_REPEAT):
                lo, hi, body = av
                r = conv(body)
                if hi is sc.MAXREPEAT:
                    out.append(z3.Star(r) if lo == 0 else z3.Plus(r) if lo == 1 else z3.Concat(z3.Loop(r, lo, lo), z3.Star(r)))
                else:
                    out.append(z3.Option(r) if (lo, hi) == (0, 1) else z3.Loop(r, lo, hi))
            else:
                raise ValueError(f"regex construct {op}")
        return concat(out)

    return conv(sp.parse(pattern))
