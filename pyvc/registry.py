"""Sidecar registry: class field tables, contracts, spec functions.

Contracts are plain data; expressions are Python source strings that are
parsed with `ast` and evaluated by the *same* symbolic evaluator that executes
the real code (pyvc.symex), in spec mode.
"""
from __future__ import annotations

import ast
from dataclasses import dataclass, field

from . import sorts


@dataclass
class ClassDef:
    name: str
    fields: dict[str, sorts.Ty]
    invariant: dict[str, str] = field(default_factory=dict)  # name -> spec expr over self
    path: str | None = None  # repo file that defines it (for method lookup)


@dataclass
class Contract:
    path: str  # repo-relative file, e.g. "asimap/utils.py"
    qualname: str  # "func" or "Class.method"
    params: dict[str, sorts.Ty]
    ret: sorts.Ty | None = None
    requires: dict[str, str] = field(default_factory=dict)
    ensures: dict[str, str] = field(default_factory=dict)
    # exception class -> condition over the entry state under which it is
    # raised ("iff" unless prefixed "may:"); None = may be raised, unspecified
    raises: dict[str, str | None] = field(default_factory=dict)
    exc_ensures: dict[str, str] = field(default_factory=dict)  # post on exceptional exit
    modifies: list[str] = field(default_factory=list)
    loops: dict[int, dict] = field(default_factory=dict)
    locals_: dict[str, sorts.Ty] = field(default_factory=dict)
    inline: bool = False
    trusted: bool = False  # contract assumed, body not verified (tier T)
    props: list[str] = field(default_factory=list)
    ghost: dict = field(default_factory=dict)
    lemmas: dict[str, list[str]] = field(default_factory=dict)  # obligation-name-prefix -> hint exprs
    known: dict[str, str] = field(default_factory=dict)  # ensures-name -> known finding id
    is_async: bool = False
    yields: bool = False  # trusted callee: awaiting it is a yield point
    uses_invariant: bool = False  # assume class invariant of self at entry; callers on the same object must establish it
    keeps_invariant: bool = False  # prove class invariant of self at exit
    decreases: str | None = None
    note: str = ""

    @property
    def cls(self):
        return self.qualname.split(".")[0] if "." in self.qualname else None

    @property
    def fname(self):
        return self.qualname.split(".")[-1]


@dataclass
class SpecFn:
    name: str
    params: list[tuple[str, sorts.Ty]]
    ret: sorts.Ty
    body: str
    recursive: bool = False
    doc: str = ""


class Registry:
    def __init__(self):
        self.classes: dict[str, ClassDef] = {}
        self.contracts: dict[str, Contract] = {}  # key: qualname (unique across repo)
        self.specfns: dict[str, SpecFn] = {}
        self.module_consts: dict[str, object] = {}
        self.enums: dict[str, sorts.TEnum] = {}
        self.enum_sets: dict[str, tuple[str, list[str]]] = {}  # NAME -> (enum cls, members)
        self.exc_parents: dict[str, str] = dict(BUILTIN_EXC)
        self.dropped_calls = set(DROPPED_CALL_PREFIXES)
        self.context_managers: list[tuple[str, str]] = []  # (regex on source text, kind)
        self.dropped_stmts: list[str] = []  # regexes on statement source text: dropped by the extraction (statistics counters)
        self.opaque_names: dict[str, str] = {}  # module-level names treated as unconstrained values of a declared type
        self.dynamic_dispatch: dict[str, str] = {}  # regex on call source text -> contract qualname
        self.properties: dict[str, dict] = {}  # property id -> {functions:[...], bounded:[...], ...}

    # -- declaration helpers used by sidecar modules -------------------------
    def classdef(self, name, fields: dict[str, str], invariant=None, path=None):
        self.classes[name] = ClassDef(
            name, {k: sorts.parse_ty(v) for k, v in fields.items()}, dict(invariant or {}), path
        )
        return self.classes[name]

    def contract(self, path, qualname, *, params=None, ret=None, **kw):
        ptys = {k: sorts.parse_ty(v) for k, v in (params or {}).items()}
        rty = sorts.parse_ty(ret) if isinstance(ret, str) else ret
        if "locals_" in kw:
            kw["locals_"] = {k: sorts.parse_ty(v) for k, v in kw["locals_"].items()}
        c = Contract(path, qualname, ptys, rty, **kw)
        self.contracts[qualname] = c
        return c

    def specfn(self, name, params: str, ret: str, body: str | None = None, recursive=False, doc=""):
        """body=None declares an uninterpreted function (deterministic but unknown)."""
        ps = []
        for p in sorts._split_top(params):
            n, t = p.split(":", 1)
            ps.append((n.strip(), sorts.parse_ty(t)))
        self.specfns[name] = SpecFn(name, ps, sorts.parse_ty(ret), body.strip() if body else None, recursive, doc)

    def union(self, name, alts: list[str]):
        u = sorts.TUnion(name, [sorts.parse_ty(a) for a in alts])
        sorts.named[name] = u
        return u

    def enum(self, path: str, clsname: str):
        from .extract import enum_members

        members, values = enum_members(path, clsname)
        e = sorts.TEnum(clsname, members, values)
        self.enums[clsname] = e
        sorts.named["enum:" + clsname] = e
        return e

    def record(self, name, fields: dict[str, str]):
        r = sorts.TRecord(name, {k: sorts.parse_ty(v) for k, v in fields.items()})
        sorts.named[name] = r
        return r

    def is_subclass(self, cls: str, parent: str) -> bool:
        seen = set()
        while cls and cls not in seen:
            if cls == parent:
                return True
            seen.add(cls)
            cls = self.exc_parents.get(cls)
        return False


BUILTIN_EXC = {
    "BaseException": None,
    "Exception": "BaseException",
    "CancelledError": "BaseException",
    "KeyboardInterrupt": "BaseException",
    "SystemExit": "BaseException",
    "ArithmeticError": "Exception",
    "ZeroDivisionError": "ArithmeticError",
    "AssertionError": "Exception",
    "AttributeError": "Exception",
    "LookupError": "Exception",
    "IndexError": "LookupError",
    "KeyError": "LookupError",
    "OSError": "Exception",
    "IOError": "Exception",
    "FileNotFoundError": "OSError",
    "TimeoutError": "OSError",
    "ConnectionResetError": "OSError",
    "ConnectionError": "OSError",
    "RuntimeError": "Exception",
    "RecursionError": "RuntimeError",
    "NotImplementedError": "RuntimeError",
    "StopIteration": "Exception",
    "TypeError": "Exception",
    "ValueError": "Exception",
    "UnicodeError": "ValueError",
    "UnicodeEncodeError": "UnicodeError",
    "UnicodeDecodeError": "UnicodeError",
    "NoSuchMailboxError": "Exception",  # mailbox.NoSuchMailboxError -> mailbox.Error -> Exception
    "FormatError": "Exception",
    "IncompleteReadError": "Exception",
    "LimitOverrunError": "Exception",
}

# calls dropped by the extraction (DESIGN 2.1 rule 2)
DROPPED_CALL_PREFIXES = {
    "logger.",
    "self.logger.",
    "self.log.",
    "log.",
    "logging.",
    "self.trace",
    "trace",
}


def parse_expr(src: str) -> ast.expr:
    return ast.parse(src.strip(), mode="eval").body
