"""Type descriptors and their SMT sorts (PyVC).

Every Python value handled by the symbolic executor is a pair (Ty, z3 term).
Containers are *values* (Dafny/Boogie style): a list is a datatype
(len, Array Int T); a set is Array T Bool; a dict is (dom, val).  Objects are
references (Int) into one heap array per field.

Derived functions (elems of a list, card of a set) are uninterpreted and
constrained by (a) global quantified axioms and (b) per-operation lemma
instances emitted by the executor.  The per-operation lemmas are checked
against the global axioms by `pyvc.selfcheck` (they are consequences, not
extra assumptions).
"""
from __future__ import annotations

import z3

_cache: dict = {}


def _has_ite(e) -> bool:
    if z3.is_app(e):
        if e.decl().kind() == z3.Z3_OP_ITE:
            return True
        return any(_has_ite(c) for c in e.children())
    return False


def forall(vs, body, patterns=None, **kw):
    """z3.ForAll that falls back to inferred triggers when a pattern is rejected."""
    if patterns and not any(_has_ite(p) for p in patterns):
        try:
            return z3.ForAll(vs, body, patterns=patterns, **kw)
        except z3.Z3Exception:
            pass
    return z3.ForAll(vs, body, **kw)


class Ty:
    name = "?"

    def sort(self) -> z3.SortRef:
        raise NotImplementedError

    def __repr__(self) -> str:
        return self.name

    def __eq__(self, other) -> bool:
        return isinstance(other, Ty) and self.name == other.name

    def __hash__(self) -> int:
        return hash(self.name)


class _Prim(Ty):
    def __init__(self, name, mk):
        self.name = name
        self._mk = mk

    def sort(self):
        return self._mk()


TInt = _Prim("int", z3.IntSort)
TBool = _Prim("bool", z3.BoolSort)
TReal = _Prim("float", z3.RealSort)
TStr = _Prim("str", z3.StringSort)


class _NoneTy(Ty):
    name = "None"

    def sort(self):
        if "None" not in _cache:
            dt = z3.Datatype("NoneT")
            dt.declare("none")
            _cache["None"] = dt.create()
        return _cache["None"]

    def value(self):
        return self.sort().none


TNone = _NoneTy()


class TList(Ty):
    def __init__(self, elem: Ty):
        self.elem = elem
        self.name = f"list[{elem.name}]"

    def sort(self):
        if self.name not in _cache:
            dt = z3.Datatype(_mangle(self.name))
            dt.declare(
                "mk_" + _mangle(self.name),
                ("len_" + _mangle(self.name), z3.IntSort()),
                ("arr_" + _mangle(self.name), z3.ArraySort(z3.IntSort(), self.elem.sort())),
            )
            _cache[self.name] = dt.create()
        return _cache[self.name]

    def mk(self, ln, arr):
        return self.sort().constructor(0)(ln, arr)

    def len(self, t):
        return self.sort().accessor(0, 0)(t)

    def arr(self, t):
        return self.sort().accessor(0, 1)(t)

    def elems_fn(self):
        key = "elems:" + self.name
        if key not in _cache:
            _cache[key] = z3.Function(
                "elems_" + _mangle(self.name),
                self.sort(),
                z3.ArraySort(self.elem.sort(), z3.BoolSort()),
            )
        return _cache[key]

    def pos_fn(self):
        key = "pos:" + self.name
        if key not in _cache:
            _cache[key] = z3.Function(
                "pos_" + _mangle(self.name), self.sort(), self.elem.sort(), z3.IntSort()
            )
        return _cache[key]


class TSet(Ty):
    def __init__(self, elem: Ty):
        self.elem = elem
        self.name = f"set[{elem.name}]"

    def sort(self):
        return z3.ArraySort(self.elem.sort(), z3.BoolSort())

    def empty(self):
        return z3.K(self.elem.sort(), z3.BoolVal(False))

    def card_fn(self):
        key = "card:" + self.name
        if key not in _cache:
            _cache[key] = z3.Function("card_" + _mangle(self.name), self.sort(), z3.IntSort())
        return _cache[key]


class TDict(Ty):
    def __init__(self, key: Ty, val: Ty, default: str | None = None):
        self.key = key
        self.val = val
        self.default = default  # "set" for defaultdict(set)
        self.name = f"dict[{key.name},{val.name}]" + (f"/{default}" if default else "")
        self._sname = f"dict[{key.name},{val.name}]"

    def sort(self):
        if self._sname not in _cache:
            m = _mangle(self._sname)
            dt = z3.Datatype(m)
            dt.declare(
                "mk_" + m,
                ("dom_" + m, z3.ArraySort(self.key.sort(), z3.BoolSort())),
                ("val_" + m, z3.ArraySort(self.key.sort(), self.val.sort())),
            )
            _cache[self._sname] = dt.create()
        return _cache[self._sname]

    def mk(self, dom, val):
        return self.sort().constructor(0)(dom, val)

    def dom(self, t):
        return self.sort().accessor(0, 0)(t)

    def val_(self, t):
        return self.sort().accessor(0, 1)(t)


class TTuple(Ty):
    def __init__(self, elems: list[Ty]):
        self.elems = list(elems)
        self.name = "tuple[" + ",".join(e.name for e in elems) + "]"

    def sort(self):
        if self.name not in _cache:
            m = _mangle(self.name)
            dt = z3.Datatype(m)
            dt.declare("mk_" + m, *[(f"f{i}_" + m, e.sort()) for i, e in enumerate(self.elems)])
            _cache[self.name] = dt.create()
        return _cache[self.name]

    def mk(self, *ts):
        return self.sort().constructor(0)(*ts)

    def get(self, t, i):
        return self.sort().accessor(0, i)(t)


class TRecord(Ty):
    """Fixed string-keyed record (e.g. IMAPSearch.args)."""

    def __init__(self, name: str, fields: dict):
        self.name = "rec:" + name
        self.fields = dict(fields)
        self.keys = list(fields)

    def sort(self):
        if self.name not in _cache:
            m = _mangle(self.name)
            dt = z3.Datatype(m)
            dt.declare("mk_" + m, *[(f"{k}_" + m, t.sort()) for k, t in self.fields.items()])
            _cache[self.name] = dt.create()
        return _cache[self.name]

    def get(self, t, key):
        return self.sort().accessor(0, self.keys.index(key))(t)


class TOpt(Ty):
    def __init__(self, inner: Ty):
        self.inner = inner
        self.name = f"opt[{inner.name}]"

    def sort(self):
        if self.name not in _cache:
            m = _mangle(self.name)
            dt = z3.Datatype(m)
            dt.declare("none_" + m)
            dt.declare("some_" + m, ("get_" + m, self.inner.sort()))
            _cache[self.name] = dt.create()
        return _cache[self.name]

    def none(self):
        return self.sort().constructor(0)()

    def some(self, t):
        return self.sort().constructor(1)(t)

    def is_none(self, t):
        return self.sort().recognizer(0)(t)

    def get(self, t):
        return self.sort().accessor(1, 0)(t)


class TUnion(Ty):
    """Tagged union of alternatives; created by name in the sidecar."""

    def __init__(self, name: str, alts: list[Ty]):
        self.name = name
        self.alts = list(alts)

    def sort(self):
        if self.name not in _cache:
            m = _mangle(self.name)
            dt = z3.Datatype(m)
            for i, a in enumerate(self.alts):
                if a is TNone:
                    dt.declare(f"alt{i}_" + m)
                else:
                    dt.declare(f"alt{i}_" + m, (f"val{i}_" + m, a.sort()))
            _cache[self.name] = dt.create()
        return _cache[self.name]

    def index_of(self, ty: Ty):
        for i, a in enumerate(self.alts):
            if a == ty:
                return i
        return None

    def inject(self, i, t=None):
        c = self.sort().constructor(i)
        return c() if self.alts[i] is TNone else c(t)

    def is_alt(self, t, i):
        return self.sort().recognizer(i)(t)

    def project(self, t, i):
        return self.sort().accessor(i, 0)(t)


class TEnum(Ty):
    def __init__(self, name: str, members: list[str], values: dict | None = None):
        self.name = "enum:" + name
        self.cls = name
        self.members = list(members)
        self.values = values or {}

    def sort(self):
        if self.name not in _cache:
            m = _mangle(self.name)
            dt = z3.Datatype(m)
            for mem in self.members:
                dt.declare(f"{m}__{mem}")
            _cache[self.name] = dt.create()
        return _cache[self.name]

    def member(self, mem: str):
        return self.sort().constructor(self.members.index(mem))()


class TRef(Ty):
    def __init__(self, cls: str):
        self.cls = cls
        self.name = "ref:" + cls

    def sort(self):
        return z3.IntSort()


class TOpaque(Ty):
    """Uninterpreted value (e.g. an EmailMessage)."""

    def __init__(self, name: str):
        self.name = "opaque:" + name
        self._n = name

    def sort(self):
        if self.name not in _cache:
            _cache[self.name] = z3.DeclareSort(_mangle(self._n))
        return _cache[self.name]


def _mangle(s: str) -> str:
    out = []
    for ch in s:
        if ch.isalnum() or ch == "_":
            out.append(ch)
        elif ch in "[(":
            out.append("_L")
        elif ch in "])":
            out.append("R_")
        elif ch == ",":
            out.append("_c_")
        elif ch == ":":
            out.append("_")
        elif ch == "/":
            out.append("_d_")
        else:
            out.append("_x")
    return "".join(out)


# ---------------------------------------------------------------------------
# Parsing type expressions used in sidecar contracts:  "list[int]", "set[int]",
# "dict[str,set[int]]", "opt[list[int]]", "tuple[int,float]", "ref:Mailbox",
# named unions / enums registered in `named`.

named: dict[str, Ty] = {}


def parse_ty(s: str) -> Ty:
    s = s.strip()
    prim = {"int": TInt, "bool": TBool, "float": TReal, "str": TStr, "None": TNone}
    if s in prim:
        return prim[s]
    if s in named:
        return named[s]
    if s.startswith("ref:"):
        return TRef(s[4:])
    if s.startswith("opaque:"):
        return TOpaque(s[7:])
    if "[" in s and s.endswith("]"):
        head, rest = s.split("[", 1)
        rest = rest[:-1]
        args = _split_top(rest)
        if head == "list":
            return TList(parse_ty(args[0]))
        if head == "set":
            return TSet(parse_ty(args[0]))
        if head == "dict":
            return TDict(parse_ty(args[0]), parse_ty(args[1]))
        if head == "defaultdict":
            return TDict(parse_ty(args[0]), parse_ty(args[1]), default="set")
        if head == "opt":
            return TOpt(parse_ty(args[0]))
        if head == "tuple":
            return TTuple([parse_ty(a) for a in args])
    raise ValueError(f"unknown type expression {s!r}")


def _split_top(s: str) -> list[str]:
    out, depth, cur = [], 0, ""
    for ch in s:
        if ch == "[":
            depth += 1
        elif ch == "]":
            depth -= 1
        if ch == "," and depth == 0:
            out.append(cur)
            cur = ""
        else:
            cur += ch
    if cur.strip():
        out.append(cur)
    return out


# ---------------------------------------------------------------------------
# Global quantified axioms for the derived functions of a type.  They are
# added to every query that mentions the function (collected by the executor).


def list_axioms(ty: TList) -> list:
    L = z3.Const("L!ax", ty.sort())
    j = z3.Int("j!ax")
    x = z3.Const("x!ax", ty.elem.sort())
    el, pos = ty.elems_fn(), ty.pos_fn()
    ax = [
        # every stored element is a member
        forall(
            [L, j],
            z3.Implies(z3.And(0 <= j, j < ty.len(L)), z3.Select(el(L), z3.Select(ty.arr(L), j))),
            patterns=[z3.Select(ty.arr(L), j)],
        ),
        # every member has a position
        forall(
            [L, x],
            z3.Implies(
                z3.Select(el(L), x),
                z3.And(0 <= pos(L, x), pos(L, x) < ty.len(L), z3.Select(ty.arr(L), pos(L, x)) == x),
            ),
            patterns=[z3.Select(el(L), x)],
        ),
        # ... namely the position of its FIRST occurrence (matters for lists with repeated elements, e.g. STORE flag lists)
        forall(
            [L, j],
            z3.Implies(z3.And(0 <= j, j < ty.len(L)), pos(L, z3.Select(ty.arr(L), j)) <= j),
            patterns=[pos(L, z3.Select(ty.arr(L), j))],
        ),
    ]
    return ax


def set_axioms(ty: TSet) -> list:
    S = z3.Const("S!ax", ty.sort())
    card = ty.card_fn()
    return [
        forall([S], z3.And(card(S) >= 0, (card(S) == 0) == (S == ty.empty())), patterns=[card(S)]),
    ]
