"""Per-function driver: explore all paths, collect obligations."""
from __future__ import annotations

import re
import time
import traceback
from dataclasses import dataclass, field

import z3

from .core import (Ctx, Infeasible, Obligation, PathEnd, PyRaise, SV, Unsupported, _Break, _Continue,
                   _Return, mk_none)
from .execs import Exec, OldFrame
from .extract import FuncInfo, get_function, strip_docstring
from .registry import Contract, Registry, parse_expr
from .sorts import TBool, TNone, TRef


@dataclass
class FunctionResult:
    qualname: str
    path: str
    sha256: str
    lineno: int
    obligations: list[Obligation] = field(default_factory=list)
    paths: int = 0
    error: str | None = None  # outside subset / engine error -> undecided
    seconds: float = 0.0
    outcomes: dict = field(default_factory=dict)
    callees: set = field(default_factory=set)


MAX_PATHS = 4000


def weave_ghost(fi: FuncInfo, spec: dict) -> FuncInfo:
    """Ghost code (DESIGN 12.2): statements of the sidecar contract woven into a *copy* of the real function's AST, each right after
    every real statement whose source text matches a regular expression ("after"), or in front of it ("before").  Ghost statements may
    only assign to, or call a method on, a local whose name starts with `ghost_`; they cannot change what the real code computes.
    The sha256 / source recorded for the function stay those of the real text."""
    import ast as _ast, copy as _copy, dataclasses as _dc

    def parse_ghost(src):
        body = _ast.parse(src).body
        for st in body:
            for n in _ast.walk(st):
                tg = []
                if isinstance(n, _ast.Assign):
                    tg = n.targets
                elif isinstance(n, (_ast.AugAssign, _ast.AnnAssign)):
                    tg = [n.target]
                elif isinstance(n, _ast.Expr) and isinstance(n.value, _ast.Call) and isinstance(n.value.func, _ast.Attribute):
                    tg = [n.value.func.value]
                elif isinstance(n, (_ast.Expr, _ast.Delete, _ast.Global, _ast.Nonlocal, _ast.Return, _ast.Raise, _ast.Break, _ast.Continue, _ast.Await, _ast.Yield)):
                    raise Unsupported(f"ghost statement not allowed: {_ast.unparse(st)}")
                for t in tg:
                    while isinstance(t, (_ast.Subscript, _ast.Attribute)):
                        t = t.value
                    if not (isinstance(t, _ast.Name) and t.id.startswith("ghost_")):
                        raise Unsupported(f"ghost statement writes a non-ghost location: {_ast.unparse(st)}")
        return body

    node = _copy.deepcopy(fi.node)
    hits = {k: 0 for k in list(spec.get("after", {})) + list(spec.get("before", {}))}

    def weave(stmts):
        out = []
        for st in stmts:
            for fld in ("body", "orelse", "finalbody"):
                if isinstance(getattr(st, fld, None), list) and not isinstance(st, (_ast.FunctionDef, _ast.AsyncFunctionDef, _ast.ClassDef)):
                    setattr(st, fld, weave(getattr(st, fld)))
            for h in getattr(st, "handlers", []) or []:
                h.body = weave(h.body)
            src = _ast.unparse(st) if not isinstance(st, (_ast.For, _ast.AsyncFor, _ast.While, _ast.If, _ast.Try, _ast.With, _ast.AsyncWith)) else None
            if src is not None:
                for pat, g in spec.get("before", {}).items():
                    if re.fullmatch(pat, src, re.S):
                        hits[pat] += 1
                        for gs in parse_ghost(g):
                            out.append(_ast.copy_location(gs, st)); _ast.fix_missing_locations(gs)
            out.append(st)
            if src is not None:
                for pat, g in spec.get("after", {}).items():
                    if re.fullmatch(pat, src, re.S):
                        hits[pat] += 1
                        for gs in parse_ghost(g):
                            out.append(_ast.copy_location(gs, st)); _ast.fix_missing_locations(gs)
        return out

    node.body = weave(node.body)
    missing = [k for k, v in hits.items() if v == 0]
    if missing:
        raise Unsupported(f"ghost code anchor not found in the real function: {missing}")
    return _dc.replace(fi, node=node)


def verify_function(reg: Registry, qualname: str, feas: bool = True) -> FunctionResult:
    ct = reg.contracts[qualname]
    t0 = time.time()
    try:
        fi = get_function(ct.path, ct.qualname)
    except (LookupError, FileNotFoundError, SyntaxError) as e:
        return FunctionResult(qualname, ct.path, "", 0, error=f"function missing: {e}")
    if ct.ghost.get("ghost_code"):
        try:
            fi = weave_ghost(fi, ct.ghost["ghost_code"])
        except Unsupported as e:
            return FunctionResult(qualname, ct.path, fi.sha256, fi.lineno, error=f"outside subset: {e}")
    res = FunctionResult(qualname, ct.path, fi.sha256, fi.lineno)
    worklist: list[list[int]] = [[]]
    pid = 0
    ncov: dict[str, int] = {}
    while worklist:
        trail = worklist.pop()
        pid += 1
        if pid > MAX_PATHS:
            res.error = f"more than {MAX_PATHS} paths"
            break
        ctx = Ctx(trail, worklist, pid, feas=feas)
        ex = Exec(reg, ct, fi, ctx)
        try:
            outcome = run_path(ex, ct, fi)
        except Unsupported as e:
            # an unsupported construct on a path that cannot be taken is irrelevant: decide feasibility of the path
            # condition properly (the per-branch pruning uses a short budget and may have let an infeasible path through)
            chk = z3.Solver()
            chk.set("rlimit", 20000 * 1700)
            chk.set("timeout", 160000)
            for a in ctx.pc:
                chk.add(a)
            for a in ctx.axioms():
                chk.add(a)
            if chk.check() == z3.unsat:
                res.outcomes["infeasible"] = res.outcomes.get("infeasible", 0) + 1
                res.obligations += [o for o in ctx.obligations]
                res.paths += 1
                continue
            res.error = f"outside subset: {e}"
            break
        except Exception as e:  # engine bug -> undecided, never a violation
            res.error = f"engine error: {type(e).__name__}: {e}\n{traceback.format_exc()}"
            break
        res.outcomes[outcome] = res.outcomes.get(outcome, 0) + 1
        res.callees |= ctx.used_contracts
        for ob in ctx.obligations:
            if ob.cover:
                ncov[ob.name] = ncov.get(ob.name, 0) + 1
                if ncov[ob.name] > 2:
                    continue
            res.obligations.append(ob)
        res.paths += 1
    res.seconds = time.time() - t0
    return res


def setup_entry(ex: Exec, ct: Contract, fi: FuncInfo):
    ctx = ex.ctx
    params = {}
    for name, ty in ct.params.items():
        v = ctx.fresh(ty, "p_" + name)
        params[name] = v
        ctx.inputs.append((name, str(v.t), ty.name))
        if name == "self":
            ex.self_sv = v
    for name, tys in ct.ghost.get("ghost_params", {}).items():
        from . import sorts as _s

        v = ctx.fresh(_s.parse_ty(tys), "gp_" + name)
        params[name] = v
        ctx.inputs.append((name, str(v.t), v.ty.name))
    for name, tys in ct.ghost.get("globals", {}).items():
        from . import sorts

        ty = sorts.parse_ty(tys)
        g = ctx.fresh(ty, "g_" + name)
        ctx.globals_[name] = g
        ctx.inputs.append((name, str(g.t), ty.name))
    ctx.locals = {k: SV(v.ty, v.t) for k, v in params.items()}
    frame = OldFrame({}, dict(ctx.globals_), dict(params))
    ex.frames.append(frame)
    ex.entry_frame = frame
    ex.params_entry = params
    # preconditions
    ex.spec_mode = True
    try:
        for k, e in ct.requires.items():
            ctx.assume(ex.truth(ex.eval(parse_expr(e))))
        if ct.uses_invariant and "self" in params and ct.cls in ex.reg.classes:
            for k, e in ex.reg.classes[ct.cls].invariant.items():
                if k in ct.ghost.get("inv_except", []):
                    continue
                ctx.assume(ex.truth(ex.eval(parse_expr(e))))
    finally:
        ex.spec_mode = False


def run_path(ex: Exec, ct: Contract, fi: FuncInfo) -> str:
    ctx = ex.ctx
    q = ct.qualname
    try:
        setup_entry(ex, ct, fi)
        if not ctx.trail:
            ctx.cover(f"cover:{q}:pre-sat", line=fi.lineno)
        try:
            body = strip_docstring(fi.node.body)
            start = ct.ghost.get("start_at")
            if start:
                # suffix verification: skip the statements before the first top-level statement whose
                # source starts with the given text; locals named in locals_ are unconstrained inputs
                import ast as _ast

                idx = next((i for i, st in enumerate(body) if (_ast.get_source_segment(fi.module.source, st) or "").lstrip().startswith(start)), None)
                if idx is None:
                    raise Unsupported(f"start_at statement {start!r} not found")
                body = body[idx:]
                for lname, lty in ct.locals_.items():
                    v = ctx.fresh(lty, "l_" + lname)
                    ctx.locals[lname] = v
                    ex.params_entry[lname] = v
                    ex.entry_frame.params[lname] = v
                ex.spec_mode = True
                try:
                    for k, e in ct.ghost.get("start_requires", {}).items():
                        ctx.assume(ex.truth(ex.eval(parse_expr(e))))
                finally:
                    ex.spec_mode = False
            ex.exec_block(body)
            result = mk_none()
        except _Return as r:
            result = r.val if r.val is not None else mk_none()
        check_normal_exit(ex, ct, fi, result)
        return "return"
    except PyRaise as e:
        try:
            check_exceptional_exit(ex, ct, fi, e.exc)
        except PathEnd:
            pass  # the exit itself is the (recorded) failed obligation: nothing further to check on this path
        return "raise:" + e.exc.cls
    except PathEnd:
        return "end"
    except Infeasible:
        return "infeasible"
    except (_Break, _Continue):
        raise Unsupported("break/continue outside loop")


def _with_entry_params(ex: Exec, extra=None):
    loc = {k: SV(v.ty, v.t) for k, v in ex.params_entry.items()}
    for k, v in ex.ctx.locals.items():
        if k.startswith("ghost_"):
            loc[k] = v
    if extra:
        loc.update(extra)
    return loc


def check_normal_exit(ex: Exec, ct: Contract, fi: FuncInfo, result: SV):
    ctx = ex.ctx
    q = ct.qualname
    if ct.ret is not None and result.py is None:
        result = ex.coerce(result, ct.ret)
    final_locals = ctx.locals
    ex.final_locals = final_locals
    ctx.locals = _with_entry_params(ex, {"result": result})
    ex.spec_mode = True
    try:
        for cls, cond in ct.raises.items():
            if cond is not None and not cond.startswith("may:"):
                # "iff": returning normally means the condition was false at entry
                t = ex.truth(ex.spec_old_expr(cond))
                ex.spec_mode = False
                ctx.oblige(f"raises-if:{q}:{cls}", z3.Not(t), kind="raises", line=fi.lineno)
                ex.spec_mode = True
        for k, e in ct.ensures.items():
            t = ex.truth(ex.eval(parse_expr(e)))
            ex.spec_mode = False
            ctx.oblige(f"post:{q}:{k}", t, kind="post", line=fi.lineno, hints=ex.hints_for("post:" + k))
            ex.spec_mode = True
        if ct.keeps_invariant and "self" in ct.params and ct.cls in ex.reg.classes:
            for k, e in ex.reg.classes[ct.cls].invariant.items():
                if k in ct.ghost.get("inv_except", []):
                    continue
                t = ex.truth(ex.eval(parse_expr(e)))
                ex.spec_mode = False
                ctx.oblige(f"inv:{q}:{k}", t, kind="inv", line=fi.lineno)
                ex.spec_mode = True
    finally:
        ex.spec_mode = False
    check_frame(ex, ct, fi)
    ctx.cover(f"cover:{q}:return", line=fi.lineno)
    ctx.locals = final_locals


def check_exceptional_exit(ex: Exec, ct: Contract, fi: FuncInfo, exc):
    ctx = ex.ctx
    q = ct.qualname
    match = None
    for cls in ct.raises:
        if ex.reg.is_subclass(exc.cls, cls):
            match = cls
            break
    if match is None:
        ctx.oblige(f"exc-escape:{q}:{exc.cls}" + (f":{exc.note}" if exc.note else ""), z3.BoolVal(False), kind="exc", line=fi.lineno)
        return
    ex.final_locals = ctx.locals
    ctx.locals = _with_entry_params(ex)
    ex.spec_mode = True
    try:
        cond = ct.raises[match]
        if cond is not None and not cond.startswith("may:"):
            t = ex.truth(ex.spec_old_expr(cond))
            ex.spec_mode = False
            ctx.oblige(f"raises-only-if:{q}:{match}", t, kind="raises", line=fi.lineno)
            ex.spec_mode = True
        ctx.ghost["raised"] = exc.cls
        for k, e in ct.exc_ensures.items():
            t = ex.truth(ex.eval(parse_expr(e)))
            ex.spec_mode = False
            ctx.oblige(f"exc-post:{q}:{k}", t, kind="post", line=fi.lineno)
            ex.spec_mode = True
    finally:
        ex.spec_mode = False
        ctx.ghost.pop("raised", None)
    # no reachability demand on exceptional exits: defensive raises may be unreachable under the invariant


def check_frame(ex: Exec, ct: Contract, fi: FuncInfo):
    """Every heap field written must be covered by `modifies`."""
    ctx = ex.ctx
    q = ct.qualname
    allowed_all, allowed_self = set(), set()
    for m in ct.modifies:
        tgt, f = m.split(".", 1)
        if tgt == "self" and ct.cls:
            allowed_self.add(f"{ct.cls}.{f}")
        elif tgt == "*":
            for cls, cd in ex.reg.classes.items():
                if f in cd.fields:
                    allowed_all.add(f"{cls}.{f}")
        elif tgt in ct.params and isinstance(ct.params[tgt], TRef):
            allowed_all.add(f"{ct.params[tgt].cls}.{f}")  # conservatively: any object of that class
        elif tgt in ex.reg.classes:
            allowed_all.add(f"{tgt}.{f}")
    for key in sorted(ctx.written):
        if key in allowed_all:
            continue
        cur = ctx.heap[key]
        h0 = ctx.heap0[key]
        if key in allowed_self and ex.self_sv is not None:
            goal = cur == z3.Store(h0, ex.self_sv.t, z3.Select(cur, ex.self_sv.t))
        else:
            goal = cur == h0
        ctx.oblige(f"frame:{q}:{key}", goal, kind="frame", line=fi.lineno)
    # module globals
    for name, g in ctx.globals_.items():
        if f"global.{name}" in ct.modifies:
            continue
        g0 = ex.entry_frame.globals_.get(name)
        if g0 is not None and not z3.eq(g.t, g0.t):
            ctx.oblige(f"frame:{q}:global.{name}", ex.eq_same(g.ty, g.t, g0.t), kind="frame", line=fi.lineno)


# ---------------------------------------------------------------------------------------------------------------
# Isolation: every function is symbolically executed in its own child process, forked from a parent that has only built the
# registry.  The solver-visible text of an obligation (names, declaration order) and the path pruning therefore do not depend on
# which other functions were verified before it in the same run: `./check C08`, `./check C15` and `./check floor` produce the same
# obligations for a function they share.  The child hands back plain data (SMT-LIB text), not z3 objects.
_REG = None


def _isolated(q):
    from .solve import to_records

    fr = verify_function(_REG, q)
    fr.obligations = to_records(fr.obligations)
    return fr


def verify_many(reg: Registry, qualnames: list[str], procs: int | None = None) -> dict:
    import multiprocessing as mp
    import os

    global _REG
    _REG = reg
    if not qualnames:
        return {}
    procs = procs or min(16, os.cpu_count() or 4, len(qualnames))
    with mp.get_context("fork").Pool(procs, maxtasksperchild=1) as pool:
        res = pool.map(_isolated, list(qualnames), chunksize=1)
    return dict(zip(qualnames, res))
