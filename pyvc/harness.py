"""Concrete side: run the real code from /repo against executable oracles.

Used for (1) replaying solver counterexamples, (2) searching a concrete failing
input when an obligation is no longer discharged, (3) the bounded tier, and
(4) replaying known-finding witnesses.  Always runs in a child process.
"""
from __future__ import annotations

import importlib
import json
import os
import sys
import traceback


class Harness:
    """Subclass and provide inputs()/check().  Inputs must be JSON-serialisable."""

    scope = ""
    exhaustive = False
    known: dict = {}  # finding id -> predicate(input) describing the characterised input class

    def inputs(self, tier: str, seed: int):
        raise NotImplementedError

    def check(self, inp):
        """Return None if the real code meets the contract on `inp`, else a dict
        {"observed": ..., "clause": ...}."""
        raise NotImplementedError

    def from_model(self, model):
        """Turn a solver model into an input (or None)."""
        return None

    def setup(self):
        pass

    def teardown(self):
        pass

    # ------------------------------------------------------------------
    def run(self, kind: str, payload: dict) -> dict:
        self.setup()
        try:
            if kind == "known":
                bad = self.check(payload["witness"])
                if bad:
                    return {"status": "violation", "input": payload["witness"], **bad}
                return {"status": "ok", "cases": 1}
            skip = set(payload.get("known") or []) | set(self.known)
            cases = 0
            known_hits = set()
            cands = []
            if kind == "search" and payload.get("model"):
                m = self.from_model(payload["model"])
                if m is not None:
                    cands.append(m)
            import itertools

            for inp in itertools.chain(cands, self.inputs(payload.get("tier", "quick"), payload.get("seed", 0))):
                cases += 1
                try:
                    bad = self.check(inp)
                except Exception as e:  # noqa: BLE001
                    # an exception that comes out of the code under test is an observation about that code, not a harness failure
                    tb = traceback.extract_tb(e.__traceback__)
                    inner = [f for f in tb if "/asimap/" in f.filename and "/asimap/test/" not in f.filename]
                    if not inner or "/harness/" in tb[-1].filename:
                        raise
                    f = inner[-1]
                    bad = {"observed": f"{type(e).__name__}: {e} at {f.filename.split('/')[-1]}:{f.lineno} in {f.name}", "clause": "the real code raised while the oracle exercised it"}
                hit = []
                if bad:
                    # a known finding is identified by the input class AND, where the predicate takes two arguments, by the clause
                    # that fails: a different violation on the same input is still reported
                    import inspect

                    for k, pred in self.known.items():
                        if len(inspect.signature(pred).parameters) >= 2:
                            if pred(inp, bad):
                                hit.append(k)
                        elif pred(inp):
                            hit.append(k)
                if bad:
                    if hit:
                        known_hits.update(hit)
                        continue
                    return {"status": "violation", "input": inp, "cases": cases, **bad}
            return {"status": "ok", "cases": cases, "scope": self.scope, "exhaustive": self.exhaustive, "known_hits": sorted(known_hits)}
        finally:
            self.teardown()


def run_entry():
    req = json.loads(sys.stdin.read())
    import logging

    logging.disable(logging.CRITICAL)
    try:
        mod = importlib.import_module(req["module"])
        obj = getattr(mod, req["func"])
        h = obj() if isinstance(obj, type) else obj
        res = h.run(req["kind"], req["payload"]) if hasattr(h, "run") else h(req["kind"], req["payload"])
    except Exception:
        res = {"status": "error", "detail": traceback.format_exc()[-3000:]}
    sys.stdout.write("\nRESULT " + json.dumps(res, default=str) + "\n")
    sys.stdout.flush()
    os._exit(0)
