"""Discharge obligations: z3 (API, worker processes) then cvc5 for unknowns."""
from __future__ import annotations

import multiprocessing as mp
import os
import subprocess
import tempfile
import time
from dataclasses import dataclass

import z3

from .core import Obligation


@dataclass
class Verdict:
    name: str
    status: str  # "unsat" (discharged) | "sat" (refuted) | "unknown"
    seconds: float
    backend: str
    model: dict | None = None
    kind: str = "post"
    path_id: int = 0
    line: int | None = None
    cover: bool = False
    detail: str = ""


@dataclass
class ObRec:
    """An obligation as plain data (SMT-LIB text + metadata): what a symbolic-execution child process hands back."""
    name: str
    kind: str
    path_id: int
    line: int | None
    cover: bool
    inputs: list
    trace: str
    smt2: str | None          # None: the goal simplified to true
    smt2_ground: str | None   # quantifier-free slice (string obligations only)
    has_assumptions: bool = False


def to_records(obligations) -> list:
    out = []
    for ob in obligations:
        if isinstance(ob, ObRec):
            out.append(ob)
            continue
        if not ob.cover and z3.is_true(ob.goal):
            out.append(ObRec(ob.name, ob.kind, ob.path_id, ob.line, False, list(ob.inputs), getattr(ob, "trace", ""), None, None, bool(ob.assumptions)))
            continue
        full = to_smt2(ob)
        ground = to_smt2(ob, ground_only=True) if (not ob.cover and ("String" in full or "str." in full)) else None
        out.append(ObRec(ob.name, ob.kind, ob.path_id, ob.line, ob.cover, list(ob.inputs), getattr(ob, "trace", ""), full, ground, bool(ob.assumptions)))
    return out


def to_smt2(ob, ground_only: bool = False) -> str:
    """ground_only: keep only the quantifier-free assumptions (a weaker hypothesis: `unsat` is still a proof)."""
    if isinstance(ob, ObRec):
        return (ob.smt2_ground if ground_only else ob.smt2) or ""
    from .core import _has_quant

    s = z3.Solver()
    for a in ob.assumptions:
        if ground_only and _has_quant(a):
            continue
        s.add(a)
    if not ob.cover:
        s.add(z3.Not(ob.goal))
    return s.to_smt2()


RLIMIT_PER_MS = 1700


def _budget_scale() -> float:
    """Only cvc5 (an external process with a wall-clock limit) still needs a load allowance; z3 budgets are resource counts."""
    return 1.0


def _cvc5_scale() -> float:
    try:
        return 3.0 if os.getloadavg()[0] > 12 else 1.0
    except OSError:
        return 1.0


def _extract_model(m: z3.ModelRef, inputs) -> dict:
    out = {}
    decls = {d.name(): d for d in m.decls()}
    for pname, cname, tyname in inputs:
        d = decls.get(cname)
        if d is None:
            continue
        try:
            out[pname] = {"ty": tyname, "val": concretize(m, d(), tyname)}
        except Exception as e:  # best effort
            out[pname] = {"ty": tyname, "val": None, "raw": str(m[d])[:400], "err": str(e)}
    # heap entry arrays
    for name, d in decls.items():
        if name.startswith("H0_"):
            out[name] = {"raw": str(m[d])[:2000]}
    return out


def concretize(m: z3.ModelRef, term, tyname: str, depth=0):
    """Structural decoding of a model value using the sort's accessors."""
    srt = term.sort()
    v = m.eval(term, model_completion=True)
    if tyname == "int" or (tyname.startswith("ref:")):
        return v.as_long()
    if tyname == "bool":
        return z3.is_true(v)
    if tyname == "str":
        return v.as_string()
    if tyname == "float":
        return float(v.as_fraction()) if z3.is_rational_value(v) else str(v)
    if tyname.startswith("list["):
        inner = tyname[5:-1]
        ln = m.eval(srt.accessor(0, 0)(term), model_completion=True).as_long()
        arr = srt.accessor(0, 1)(term)
        ln = max(0, min(ln, 64))
        return [concretize(m, z3.Select(arr, i), inner, depth + 1) for i in range(ln)]
    if tyname.startswith("opt["):
        inner = tyname[4:-1]
        if z3.is_true(m.eval(srt.recognizer(0)(term), model_completion=True)):
            return None
        return concretize(m, srt.accessor(1, 0)(term), inner, depth + 1)
    if tyname.startswith("tuple["):
        from .sorts import _split_top

        inners = _split_top(tyname[6:-1])
        return tuple(concretize(m, srt.accessor(0, i)(term), t.strip(), depth + 1) for i, t in enumerate(inners))
    if tyname.startswith("enum:"):
        return str(v)
    from . import sorts

    if tyname in sorts.named and isinstance(sorts.named[tyname], sorts.TUnion):
        u = sorts.named[tyname]
        for i, a in enumerate(u.alts):
            if z3.is_true(m.eval(srt.recognizer(i)(term), model_completion=True)):
                if a is sorts.TNone:
                    return None
                return concretize(m, srt.accessor(i, 0)(term), a.name, depth + 1)
    return {"raw": str(v)[:400]}


def _solve_z3(text: str, timeout_ms: int, inputs, want_model: bool, params: dict | None = None):
    ctx = z3.Context()
    s = z3.Solver(ctx=ctx)
    # The budget is z3's deterministic resource counter (about 1.7 million units per second on an idle core), so a verdict does not
    # depend on how busy the machine is; the wall-clock limit is only a safety net, eight times the nominal time.
    s.set("rlimit", int(timeout_ms * RLIMIT_PER_MS))
    s.set("timeout", int(timeout_ms * 8))
    for k, v in (params or {}).items():
        s.set(k, v)
    s.from_string(text)
    r = s.check()
    if r == z3.unsat:
        return "unsat", None, ""
    if r == z3.sat:
        model = None
        if want_model:
            try:
                model = _extract_model(s.model(), inputs)
            except Exception as e:
                model = {"error": str(e)}
        return "sat", model, ""
    return "unknown", None, s.reason_unknown()


def _solve_cvc5(text: str, timeout_ms: int):
    with tempfile.NamedTemporaryFile("w", suffix=".smt2", delete=False, dir=os.environ.get("PYVC_TMP", "/tmp")) as f:
        f.write("(set-logic ALL)\n" + text + "\n(check-sat)\n" if "(check-sat)" not in text else "(set-logic ALL)\n" + text)
        fn = f.name
    try:
        p = subprocess.run(
            ["/usr/bin/cvc5", "--strings-exp", f"--tlimit={int(timeout_ms * _cvc5_scale())}", fn], capture_output=True, text=True, timeout=timeout_ms * _cvc5_scale() / 1000 + 5
        )
        out = p.stdout.strip().splitlines()
        if out and out[0] in ("unsat", "sat"):
            return out[0], (p.stderr or "")[:200]
        return "unknown", (p.stdout + p.stderr)[:200]
    except Exception as e:
        return "unknown", str(e)[:200]
    finally:
        os.unlink(fn)


def solve_one(job):
    """Escalating budgets: an obligation is first given the every-change budget (10 s nominal per configuration); only if that does not
    decide it is the whole portfolio repeated with the larger budget asked for (thorough tier, confirmation pass)."""
    timeout_ms = job[2]
    if timeout_ms > 10000 and job[1] is not None and not job[4]:
        first = _solve_one(job[:2] + (10000,) + job[3:])
        if first.status in ("unsat", "sat"):
            return first
    return _solve_one(job)


def solve_retry(name, text, timeout_ms, inputs, kind, path_id, line):
    """Second look at one failed instance, alone: the five z3 configurations at the given budget (no escalation ladder, no cvc5) --
    bounded at five times the budget, so that a genuinely failing obligation does not cost minutes per instance."""
    t0 = time.time()
    last = ("unknown", None, "")
    for nm, params in (("z3", {}), ("z3-ematch", {"smt.mbqi": False, "smt.random_seed": 7}), ("z3-mbqi", {"smt.ematching": False}),
                       ("z3-seed3", {"smt.random_seed": 3}), ("z3-ematch-seed11", {"smt.mbqi": False, "smt.random_seed": 11})):
        try:
            st, model, why = _solve_z3(text, timeout_ms, inputs, True, params)
        except z3.Z3Exception as e:
            st, model, why = "unknown", None, f"z3 error: {e}"
        if st in ("unsat", "sat"):
            return Verdict(name, st, time.time() - t0, nm, model, kind, path_id, line, False, why)
        last = (st, model, why)
    return Verdict(name, "unknown", time.time() - t0, "z3", None, kind, path_id, line, False, last[2])


def _solve_one(job):
    name, text, timeout_ms, inputs, cover, kind, path_id, line, use_cvc5 = job[:9]
    text_ground = job[9] if len(job) > 9 else None
    t0 = time.time()
    if text is None:
        return Verdict(name, "unsat", 0.0, "simplifier", kind=kind, path_id=path_id, line=line)
    scale = _budget_scale()
    if cover:
        # reachability: unsat = vacuous; sat/unknown = not refuted (2 s is enough to find contradictions)
        try:
            st, _, why = _solve_z3(text, int(2000 * scale), inputs, False)
        except z3.Z3Exception as e:
            st, why = "unknown", str(e)
        status = "sat" if st == "unsat" else "unsat"
        return Verdict(name, status, time.time() - t0, "z3", None, "cover", path_id, line, True, "vacuous: unreachable" if status == "sat" else st)
    # portfolio: short slices of each configuration first (the configurations are complementary on quantified and
    # string obligations), then the full budget
    has_str = "String" in text or "str." in text
    quick = int(min(2500, timeout_ms) * scale)
    full = int(timeout_ms * scale)
    EM = {"smt.mbqi": False, "smt.random_seed": 7}
    MB = {"smt.ematching": False}
    stages = [("z3", {}, quick), ("z3-ematch", EM, quick), ("z3-mbqi", MB, quick),
              ("z3-seed3", {"smt.random_seed": 3}, quick), ("z3-ematch-seed11", {"smt.mbqi": False, "smt.random_seed": 11}, quick)]
    cvc5_ok = use_cvc5 and "define-fun" not in text and "(_ map" not in text  # z3-only syntax
    if cvc5_ok and has_str:
        stages.append(("cvc5", None, 2 * quick))
    if text_ground is not None:
        stages.append(("ground", None, full))
    stages += [("z3", {}, full), ("z3-ematch", EM, full), ("z3-mbqi", MB, full)]
    # (E-matching is sensitive to the order in which terms happen to be created: two more fixed seeds per configuration, quick ones
    # early and full ones last; still deterministic, the seeds are constants)
    stages += [("z3-seed23", {"smt.random_seed": 23}, full), ("z3-ematch-seed31", {"smt.mbqi": False, "smt.random_seed": 31}, full)]
    if cvc5_ok:
        stages.append(("cvc5", None, 2 * full))
    st, model, why, backend = "unknown", None, "", "z3"
    if text_ground is not None:
        # quantifier-free slice first: decides most string obligations at once; only `unsat` is conclusive
        try:
            st_, _, _ = _solve_z3(text_ground, quick, inputs, False)
        except z3.Z3Exception:
            st_ = "unknown"
        if st_ == "unsat":
            return Verdict(name, "unsat", time.time() - t0, "z3-ground", None, kind, path_id, line, False, "")
        if use_cvc5 and has_str and "define-fun" not in text_ground and "(_ map" not in text_ground:
            st_, _ = _solve_cvc5(text_ground, quick)
            if st_ == "unsat":
                return Verdict(name, "unsat", time.time() - t0, "cvc5-ground", None, kind, path_id, line, False, "")
    for name_, params, budget in stages:
        if name_ == "ground":
            try:
                st_, _, _ = _solve_z3(text_ground, budget, inputs, False)
            except z3.Z3Exception:
                st_ = "unknown"
            if st_ == "unsat":
                st, model, why, backend = "unsat", None, "", "z3-ground"
                break
            continue
        if name_ == "cvc5":
            st_, why_ = _solve_cvc5(text, budget)
            model_ = None
        else:
            try:
                st_, model_, why_ = _solve_z3(text, budget, inputs, True, params)
            except z3.Z3Exception as e:
                st_, model_, why_ = "unknown", None, f"z3 error: {e}"
        if st_ in ("unsat", "sat"):
            st, model, why, backend = st_, model_, why_, name_
            break
        why = why_ or why
    if cover:
        # cover queries must be satisfiable; "unknown" counts as reachable-not-refuted
        status = "unsat" if st in ("sat", "unknown") else "sat"
        return Verdict(name, status, time.time() - t0, backend, None, "cover", path_id, line, True, "vacuous: unreachable" if status == "sat" else "")
    return Verdict(name, st, time.time() - t0, backend, model, kind, path_id, line, False, why)


def discharge(obligations: list[Obligation], timeout_ms=10000, procs=None, use_cvc5=True) -> list[Verdict]:
    jobs = []
    for ob in to_records(obligations):
        if ob.smt2 is None:
            jobs.append((ob.name, None, timeout_ms, ob.inputs, False, ob.kind, ob.path_id, ob.line, use_cvc5))
        else:
            jobs.append((ob.name, ob.smt2, timeout_ms, ob.inputs, ob.cover, ob.kind, ob.path_id, ob.line, use_cvc5, ob.smt2_ground))
    procs = procs or min(16, os.cpu_count() or 4)
    if len(jobs) <= 2 or procs == 1:
        return [solve_one(j) for j in jobs]
    with mp.get_context("fork").Pool(procs) as pool:
        return pool.map(solve_one, jobs, chunksize=1)
