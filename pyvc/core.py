"""Path context: symbolic values, decision trail, obligations."""
from __future__ import annotations

import itertools
from dataclasses import dataclass, field

import os

import z3

from . import sorts
from .sorts import TBool, TInt, TList, TNone, TOpt, TReal, TSet, TStr, Ty

class _Counter:
    """fresh-name counter whose current value can be read (used to recognise symbols created inside a sub-evaluation)"""

    def __init__(self):
        self.n = 0

    def __next__(self):
        self.n += 1
        return self.n


_counter = _Counter()


class SV:
    """Symbolic value: type descriptor + z3 term (+ optional place)."""

    __slots__ = ("ty", "t", "place", "py")

    def __init__(self, ty: Ty | None, t, place=None, py=None):
        self.ty = ty
        self.t = t
        self.place = place
        self.py = py  # python-level payload (e.g. pending empty list, class object)

    def __repr__(self):
        return f"SV({self.ty}, {self.t})"


class SExc:
    def __init__(self, cls: str, args: list[SV] | None = None, note: str = ""):
        self.cls = cls
        self.args = args or []
        self.note = note

    def __repr__(self):
        return f"SExc({self.cls})"


# control flow -----------------------------------------------------------
class PyRaise(Exception):
    def __init__(self, exc: SExc):
        self.exc = exc


class _Return(Exception):
    def __init__(self, val: SV | None):
        self.val = val


class _Break(Exception):
    pass


class _Continue(Exception):
    pass


class PathEnd(Exception):
    """Path ends here (loop body iteration finished, or assumption false)."""


class Infeasible(Exception):
    pass


class Unsupported(Exception):
    def __init__(self, msg, node=None):
        super().__init__(msg)
        self.node = node

    def __str__(self):
        ln = getattr(self.node, "lineno", None)
        return f"{self.args[0]}" + (f" (line {ln})" if ln else "")


@dataclass
class Obligation:
    name: str
    assumptions: list
    goal: object
    path_id: int
    kind: str = "post"
    line: int | None = None
    inputs: list = field(default_factory=list)  # (name, ty-name) for model extraction
    hints: list = field(default_factory=list)
    cover: bool = False  # cover query: must be SAT
    trace: str = ""


class Ctx:
    """State of one execution path."""

    FEAS_TIMEOUT_MS = 1500

    def __init__(self, trail: list[int], worklist: list, path_id: int, feas: bool = True):
        self.trail = list(trail)
        self.pos = 0
        self.worklist = worklist
        self.path_id = path_id
        self.pc: list = []
        self.locals: dict[str, SV] = {}
        self.heap: dict[str, object] = {}
        self.globals_: dict[str, SV] = {}
        self.obligations: list[Obligation] = []
        self.axiom_tys: dict[str, Ty] = {}
        self.events: list = []
        self.ghost: dict = {}
        self.feas = feas
        self.inputs: list = []
        self.decisions_desc: list[str] = []
        self.yield_count = 0
        self.held_locks: list[str] = []
        self.heap0: dict[str, object] = {}
        self.written: set[str] = set()
        self._wf_done: set = set()
        self._assumed_goals: set = set()
        self.used_contracts: set = set()

    # -- fresh symbols -----------------------------------------------------
    def fresh(self, ty: Ty, hint: str = "v") -> SV:
        self.note_ty(ty)
        v = SV(ty, z3.Const(f"{hint}!{next(_counter)}", ty.sort()))
        self.assume_wf(v)
        return v

    def assume_wf(self, v: SV):
        """Representation facts true of every python value of this type
        (list lengths are non-negative)."""
        ty, t = v.ty, v.t
        if t is None:
            return
        if isinstance(ty, TList):
            key = t.get_id()
            if key in self._wf_done:
                return
            self._wf_done.add(key)
            self.pc.append(ty.len(t) >= 0)
        elif isinstance(ty, TOpt) and isinstance(ty.inner, TList):
            key = t.get_id()
            if key in self._wf_done:
                return
            self._wf_done.add(key)
            self.pc.append(z3.Or(ty.is_none(t), ty.inner.len(ty.get(t)) >= 0))

    def fresh_term(self, sort, hint="t"):
        return z3.Const(f"{hint}!{next(_counter)}", sort)

    def note_ty(self, ty: Ty):
        """Remember container types so their axioms are added to queries."""
        if isinstance(ty, (TList, TSet)):
            self.axiom_tys.setdefault(ty.name, ty)
            self.note_ty(ty.elem)
        elif isinstance(ty, sorts.TDict):
            self.note_ty(ty.key)
            self.note_ty(ty.val)
            self.note_ty(TSet(ty.key))
        elif isinstance(ty, TOpt):
            self.note_ty(ty.inner)
        elif isinstance(ty, sorts.TTuple):
            for e in ty.elems:
                self.note_ty(e)
        elif isinstance(ty, sorts.TUnion):
            for e in ty.alts:
                self.note_ty(e)

    def axioms(self) -> list:
        out = []
        for ty in self.axiom_tys.values():
            if isinstance(ty, TList):
                out += sorts.list_axioms(ty)
            elif isinstance(ty, TSet):
                out += sorts.set_axioms(ty)
        return out

    # -- assumptions / obligations ----------------------------------------
    def assume(self, b):
        b = z3.simplify(b) if z3.is_expr(b) else z3.BoolVal(bool(b))
        if z3.is_false(b):
            raise PathEnd()
        if not z3.is_true(b):
            self.pc.append(b)

    def oblige(self, name: str, goal, kind="post", line=None, hints=None):
        goal = z3.simplify(goal) if z3.is_expr(goal) else z3.BoolVal(bool(goal))
        if z3.is_true(goal):
            # still count it: trivially discharged
            self.obligations.append(Obligation(name, [], z3.BoolVal(True), self.path_id, kind, line, list(self.inputs)))
            return
        self.obligations.append(
            Obligation(name, list(self.pc) + self.axioms(), goal, self.path_id, kind, line, list(self.inputs), list(hints or []), trace=" ".join(self.decisions_desc))
        )
        # assume it from here on so one failure is reported once
        if not z3.is_false(goal):
            self.pc.append(goal)
            self._assumed_goals.add(goal.get_id())
        else:
            raise PathEnd()

    def cover(self, name: str, line=None):
        self.obligations.append(
            Obligation(name, [a for a in self.pc if a.get_id() not in self._assumed_goals] + self.axioms(), z3.BoolVal(True), self.path_id, "cover", line, list(self.inputs), cover=True)
        )

    # -- decisions ---------------------------------------------------------
    def _feasible(self, extra) -> bool:
        if not self.feas:
            return True
        # quantifier-free part of the path condition only: an over-approximation
        # of feasibility (sound: at worst an infeasible path is explored and its
        # obligations hold vacuously)
        s = z3.Solver()
        s.set("rlimit", int(os.environ.get("PYVC_FEAS_RLIMIT", "200000")))  # deterministic (load-independent) budget; wall clock only as a safety net
        s.set("timeout", self.FEAS_TIMEOUT_MS * 8)
        for a in self.pc:
            if not _has_quant(a):
                s.add(a)
        s.add(extra)
        return s.check() != z3.unsat

    def branch(self, cond, desc: str = "") -> bool:
        cond = z3.simplify(cond) if z3.is_expr(cond) else z3.BoolVal(bool(cond))
        if z3.is_true(cond):
            return True
        if z3.is_false(cond):
            return False
        if self.pos < len(self.trail):
            d = self.trail[self.pos]
            self.pos += 1
        else:
            ft = self._feasible(cond)
            ff = self._feasible(z3.Not(cond))
            if ft and ff:
                self.worklist.append(self.trail + [0])
                d = 1
            elif ft:
                d = 1
            elif ff:
                d = 0
            else:
                raise Infeasible()
            self.trail.append(d)
            self.pos += 1
        self.decisions_desc.append(f"{desc}={'T' if d else 'F'}")
        self.pc.append(cond if d else z3.Not(cond))
        return bool(d)

    def choose(self, n: int, desc: str = "") -> int:
        """n-way nondeterministic choice (no condition attached)."""
        if n == 1:
            return 0
        if self.pos < len(self.trail):
            d = self.trail[self.pos]
            self.pos += 1
        else:
            for alt in range(1, n):
                self.worklist.append(self.trail + [alt])
            d = 0
            self.trail.append(d)
            self.pos += 1
        self.decisions_desc.append(f"{desc}#{d}")
        return d


_hq_cache: dict = {}


def _has_quant(e) -> bool:
    k = e.get_id()
    r = _hq_cache.get(k)
    if r is not None:
        return r
    if z3.is_quantifier(e):
        r = True
    elif z3.is_app(e):
        r = any(_has_quant(c) for c in e.children())
        if not r and e.decl().kind() == z3.Z3_OP_RECURSIVE:
            r = True
    else:
        r = False
    _hq_cache[k] = r
    return r


def mk_int(n: int) -> SV:
    return SV(TInt, z3.IntVal(n))


def mk_bool(b) -> SV:
    return SV(TBool, z3.BoolVal(b) if isinstance(b, bool) else b)


def mk_str(s: str) -> SV:
    return SV(TStr, z3.StringVal(s))


def mk_none() -> SV:
    return SV(TNone, TNone.value())
