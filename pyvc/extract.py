"""Mechanical extraction of the real code from /repo on every run."""
from __future__ import annotations

import ast
import hashlib
import os
from dataclasses import dataclass
from functools import lru_cache

REPO = os.environ.get("PYVC_REPO", "/repo")


@dataclass
class FuncInfo:
    path: str
    qualname: str
    node: ast.FunctionDef | ast.AsyncFunctionDef
    source: str
    sha256: str
    lineno: int
    is_async: bool
    module: "ModuleInfo"


@dataclass
class ModuleInfo:
    path: str
    tree: ast.Module
    source: str
    consts: dict  # NAME -> python literal (int/str/float/bool/tuple/...)
    const_nodes: dict  # NAME -> ast node of the value (for non-literals)
    classes: dict  # name -> ClassDef node
    funcs: dict  # qualname -> node
    imports: dict  # local name -> (repo-relative path or None, original name, dotted module)


@lru_cache(maxsize=None)
def load_module(path: str) -> ModuleInfo:
    full = os.path.join(REPO, path)
    with open(full, encoding="utf-8") as f:
        src = f.read()
    tree = ast.parse(src, filename=full)
    consts, const_nodes, classes, funcs, imports = {}, {}, {}, {}, {}
    pkgdir = os.path.dirname(path)
    for node in ast.walk(tree):
        if isinstance(node, ast.ImportFrom):
            modname = node.module or ""
            rel = None
            if node.level >= 1:
                base = pkgdir
                for _ in range(node.level - 1):
                    base = os.path.dirname(base)
                cand = os.path.join(base, *modname.split(".")) + ".py" if modname else None
                if cand and os.path.exists(os.path.join(REPO, cand)):
                    rel = cand
            elif modname.startswith("asimap."):
                cand = modname.replace(".", "/") + ".py"
                if os.path.exists(os.path.join(REPO, cand)):
                    rel = cand
            for a in node.names:
                imports[a.asname or a.name] = (rel, a.name, modname)
        elif isinstance(node, ast.Import):
            for a in node.names:
                imports[(a.asname or a.name).split(".")[0]] = (None, None, a.name if a.asname else a.name.split(".")[0])
    for node in tree.body:
        if isinstance(node, (ast.Assign, ast.AnnAssign)):
            targets = node.targets if isinstance(node, ast.Assign) else [node.target]
            val = node.value
            if val is None:
                continue
            for t in targets:
                if isinstance(t, ast.Name):
                    const_nodes[t.id] = val
                    try:
                        consts[t.id] = ast.literal_eval(val)
                    except Exception:
                        pass
        elif isinstance(node, ast.ClassDef):
            classes[node.name] = node
            for sub in node.body:
                if isinstance(sub, (ast.FunctionDef, ast.AsyncFunctionDef)):
                    funcs[f"{node.name}.{sub.name}"] = sub
        elif isinstance(node, (ast.FunctionDef, ast.AsyncFunctionDef)):
            funcs[node.name] = node
            # helper functions defined directly inside a module-level function: "outer.inner"
            # (their free variables must be declared to the verifier, e.g. as opaque names)
            for sub in node.body:
                if isinstance(sub, (ast.FunctionDef, ast.AsyncFunctionDef)):
                    funcs[f"{node.name}.{sub.name}"] = sub
    return ModuleInfo(path, tree, src, consts, const_nodes, classes, funcs, imports)


def get_function(path: str, qualname: str) -> FuncInfo:
    qualname = qualname.split("#")[0]  # "Class.method#part": a second contract on another part of the same function
    mod = load_module(path)
    if qualname not in mod.funcs:
        raise LookupError(f"function {qualname} not found in {path}")
    node = mod.funcs[qualname]
    seg = ast.get_source_segment(mod.source, node) or ""
    return FuncInfo(
        path,
        qualname,
        node,
        seg,
        hashlib.sha256(seg.encode()).hexdigest(),
        node.lineno,
        isinstance(node, ast.AsyncFunctionDef),
        mod,
    )


def enum_members(path: str, clsname: str) -> tuple[list[str], dict]:
    """Members of an Enum/StrEnum class, read from the repo source."""
    mod = load_module(path)
    node = mod.classes[clsname]
    members, values = [], {}
    for sub in node.body:
        if isinstance(sub, ast.Assign) and len(sub.targets) == 1 and isinstance(sub.targets[0], ast.Name):
            name = sub.targets[0].id
            if name.startswith("_"):
                continue
            members.append(name)
            try:
                values[name] = ast.literal_eval(sub.value)
            except Exception:
                values[name] = None
    return members, values


def exception_classes(path: str) -> dict[str, str]:
    """class -> first base, for every class in the module."""
    mod = load_module(path)
    out = {}
    for name, node in mod.classes.items():
        base = None
        if node.bases:
            b = node.bases[0]
            base = b.id if isinstance(b, ast.Name) else (b.attr if isinstance(b, ast.Attribute) else None)
        out[name] = base or "object"
    return out


def strip_docstring(body: list[ast.stmt]) -> list[ast.stmt]:
    if body and isinstance(body[0], ast.Expr) and isinstance(body[0].value, ast.Constant) and isinstance(body[0].value.value, str):
        return body[1:]
    return body


def dotted(node: ast.AST) -> str | None:
    if isinstance(node, ast.Name):
        return node.id
    if isinstance(node, ast.Attribute):
        b = dotted(node.value)
        return f"{b}.{node.attr}" if b else None
    return None
