"""./check <property> --tier quick|thorough   and   ./check replay <file>

Exit codes: 0 held, 1 violation (a VIOLATION line is printed), 2 undecided,
3 checker error (vacuous / engine failure).  Only exit 1 prints VIOLATION.
"""
from __future__ import annotations

import argparse
import hashlib
import json
import os
import subprocess
import sys
import time
import traceback

ROOT = os.path.dirname(os.path.dirname(os.path.abspath(__file__)))
sys.path.insert(0, ROOT)

from pyvc import extract  # noqa: E402
from pyvc.solve import Verdict, discharge, solve_one, solve_retry, to_smt2  # noqa: E402
from pyvc.verify import verify_function, verify_many  # noqa: E402

import re

FLOOR_FILE = os.path.join(ROOT, "obligation_floor.json")


def norm(name: str) -> str:
    """Obligation identity that survives harmless edits: statement ordinals and line numbers are dropped."""
    return re.sub(r"@[A-Za-z]+#\d+|@L?\d+", "", name)
KNOWN_FILE = os.path.join(ROOT, "known_findings.json")


def load_json(path, default):
    try:
        with open(path) as f:
            return json.load(f)
    except FileNotFoundError:
        return default


def start_concrete(kind: str, module: str, func: str, payload: dict):
    """Start a concrete harness function in a child interpreter against /repo (non-blocking, no threads:
    worker pools are forked later and must not inherit running threads)."""
    env = dict(os.environ)
    env["PYTHONPATH"] = extract.REPO + os.pathsep + ROOT
    env["PYVC_REPO"] = extract.REPO
    code = "from pyvc.harness import run_entry\nrun_entry()\n"
    req = json.dumps({"kind": kind, "module": module, "func": func, "payload": payload})
    import tempfile

    fin = tempfile.TemporaryFile("w+")
    fin.write(req)
    fin.seek(0)
    fout = tempfile.TemporaryFile("w+")
    p = subprocess.Popen([sys.executable, "-u", "-c", code], stdin=fin, stdout=fout, stderr=subprocess.STDOUT, text=True, env=env, cwd=ROOT)
    p._fout = fout
    p._fin = fin
    return p


def finish_concrete(p, timeout=1800) -> dict:
    try:
        p.wait(timeout=timeout)
    except subprocess.TimeoutExpired:
        p.kill()
        return {"status": "error", "detail": "harness timeout"}
    p._fout.seek(0)
    out = p._fout.read()
    p._fout.close()
    p._fin.close()
    for line in reversed(out.splitlines()):
        if line.startswith("RESULT "):
            return json.loads(line[7:])
    return {"status": "error", "detail": out[-3000:]}


def run_concrete(kind: str, module: str, func: str, payload: dict, timeout=300) -> dict:
    return finish_concrete(start_concrete(kind, module, func, payload), timeout)


class PropertyRun:
    def __init__(self, reg, pid: str, tier: str, seed: int):
        self.reg = reg
        self.pid = pid
        self.tier = tier
        self.seed = seed
        self.lines: list[str] = []
        self.violations: list[dict] = []
        self.undecided: list[str] = []
        self.checker_errors: list[str] = []
        self.known_lines: list[str] = []
        self.lemma_checks: list[dict] = []
        self.functions: list[dict] = []
        self.bounded: list[dict] = []
        self.samples: list = []
        self.n_obl = 0
        self.n_dis = 0
        self.solver_time: dict[str, float] = {}
        self.trusted: set[str] = set()

    def say(self, s: str):
        print(s, flush=True)
        self.lines.append(s)

    # ------------------------------------------------------------------
    def run(self) -> int:
        t0 = time.time()
        floor = load_json(FLOOR_FILE, {})
        known = load_json(KNOWN_FILE, {"open": [], "fixed": []})
        pinfo = self.reg.properties.get(self.pid, {})
        funcs = [q for q, c in self.reg.contracts.items() if self.pid in c.props and not c.trusted]
        timeout_ms = 10000 if self.tier == "quick" else 60000
        bfuts = [(b, start_concrete("bounded", b["module"], b["func"], {"tier": self.tier, "seed": self.seed})) for b in pinfo.get("bounded", [])]
        frs = verify_many(self.reg, funcs)  # one pristine child process per function (deterministic obligations, parallel symex)
        for q in funcs:
            self.verify_one(q, floor, known, timeout_ms, frs[q])
        for q, c in self.reg.contracts.items():
            used = any(q in (f.get("callees") or []) for f in self.functions)
            if c.trusted and (self.pid in c.props or used):
                self.trusted.add(f"assumed contract: {q} -- {c.note or c.path}")
            elif used and not c.trusted and self.pid not in c.props:
                self.trusted.add(f"contract of {q} used at call sites (its body is verified under {','.join(c.props) or 'no property'})")
        for f in self.functions:
            if f.get("assumed_preconditions_of"):
                ap = f["assumed_preconditions_of"]
                txt = ", ".join(ap) if isinstance(ap, list) else "; ".join(f"{k}: {', '.join(v)}" for k, v in ap.items())
                self.trusted.add(f"{f['function']}: preconditions assumed at call sites -- {txt}")
            if f.get("scope_note"):
                self.trusted.add(f"{f['function']}: {f['scope_note']}")
        for b, proc in bfuts:
            self.run_bounded(b, finish_concrete(proc, b.get("timeout", 1800)))
        # facts of finite arithmetic that contracts state as preconditions (SMT solvers do not derive them) are proved in Lean 4 + Mathlib
        for rel in pinfo.get("lean", []):
            self.run_lean(rel)
        self.replay_known(known)
        if not funcs and not pinfo.get("bounded"):
            self.checker_errors.append("no function under contract for this property")
        wall = time.time() - t0
        self.write_evidence(wall, pinfo)
        if self.violations:
            for v in self.violations:
                tail = "" if v.get("input_found") else " no-failing-input-found"
                self.say(f"VIOLATION property={self.pid} replay={v['replay']}{tail}")
            return 1
        if self.checker_errors:
            for e in self.checker_errors:
                self.say(f"CHECKER-ERROR property={self.pid} {e}")
            return 3
        if self.undecided:
            for u in self.undecided:
                self.say(f"UNDECIDED property={self.pid} obligation={u}")
            return 2
        self.say(f"HELD property={self.pid} obligations={self.n_obl} discharged={self.n_dis} functions={len(self.functions)} bounded={len(self.bounded)} wall={wall:.1f}s")
        return 0

    # ------------------------------------------------------------------
    def verify_one(self, q: str, floor: dict, known: dict, timeout_ms: int, fr=None):
        ct = self.reg.contracts[q]
        if fr is None:
            fr = verify_many(self.reg, [q])[q]
        base = floor.get(q, {})
        entry = {
            "function": q, "file": ct.path, "line": fr.lineno, "sha256": fr.sha256, "paths": fr.paths,
            "obligations": 0, "discharged": 0, "symex_s": round(fr.seconds, 2), "solver_s": 0.0, "backends": {},
            "inline": ct.inline,
            "callees": sorted(fr.callees),
            "scope_note": ct.note,
            "assumed_preconditions_of": ct.ghost.get("assume_pre_of", []),
        }
        self.functions.append(entry)
        if fr.error:
            entry["error"] = fr.error
            # engine could not process the (changed) function: try to find a concrete failure
            if base and self.concrete_search(q, f"engine:{q}", fr.error):
                return
            self.undecided.append(f"{q} reason={fr.error.splitlines()[0]}")
            return
        verdicts = discharge(fr.obligations, timeout_ms=timeout_ms)
        by_name: dict[str, list[Verdict]] = {}
        for v in verdicts:
            by_name.setdefault(v.name, []).append(v)
            entry["solver_s"] += v.seconds
            entry["backends"][v.backend] = entry["backends"].get(v.backend, 0) + 1
            self.solver_time[v.backend] = self.solver_time.get(v.backend, 0.0) + v.seconds
        entry["solver_s"] = round(entry["solver_s"], 2)
        entry["obligations"] = len(by_name)
        ob_by_name = {}
        for ob in fr.obligations:
            ob_by_name.setdefault(ob.name, []).append(ob)
        names_ok = []
        for name, vs in sorted(by_name.items()):
            self.n_obl += 1
            if vs[0].cover:
                ok = any(v.status == "unsat" for v in vs)  # some instance reachable
                if ok:
                    self.n_dis += 1
                    entry["discharged"] += 1
                    names_ok.append(name)
                else:
                    self.checker_errors.append(f"vacuous: {name} unreachable")
                continue
            bad = [v for v in vs if v.status != "unsat"]
            if not bad:
                self.n_dis += 1
                entry["discharged"] += 1
                names_ok.append(name)
                continue
            # retry the failing instances alone with a 6x budget before deciding
            still = []
            self._retries = getattr(self, "_retries", 0)
            on_floor = norm(name) in set(base.get("names_ok", []))
            for v in bad:
                if on_floor:
                    # decided by the confirmation pass below (a second, larger budget), not by this retry
                    still.append(([o for o in ob_by_name[name] if o.path_id == v.path_id][0], v))
                    continue
                if self._retries >= 3:
                    # enough evidence that this run has failing obligations; do not spend minutes per instance
                    still.append(([o for o in ob_by_name[name] if o.path_id == v.path_id][0], v))
                    continue
                self._retries += 1
                ob = [o for o in ob_by_name[name] if o.path_id == v.path_id][0]
                v2 = solve_retry(ob.name, to_smt2(ob), min(timeout_ms, 10000) * 2, ob.inputs, ob.kind, ob.path_id, ob.line)
                self.solver_time[v2.backend] = self.solver_time.get(v2.backend, 0.0) + v2.seconds
                if v2.status != "unsat":
                    still.append((ob, v2))
            if still and on_floor:
                # Confirmation pass for an obligation that was discharged on the committed tree: the failing instances are solved
                # again one at a time (nothing else of this check running) with three times the budget, so that a verdict lost to
                # machine load or to an unlucky solver configuration is not reported as a violation.
                confirmed = []
                for ob, v in still[:3]:
                    v3 = solve_retry(ob.name, to_smt2(ob), min(timeout_ms, 10000) * 3, ob.inputs, ob.kind, ob.path_id, ob.line)
                    self.solver_time[v3.backend] = self.solver_time.get(v3.backend, 0.0) + v3.seconds
                    if v3.status != "unsat":
                        confirmed.append((ob, v3))
                        break
                if not confirmed and len(still) <= 3:
                    entry.setdefault("confirmed_on_second_pass", []).append(name)
                    still = []
                elif confirmed:
                    still = confirmed + [x for x in still if x[0] is not confirmed[0][0]]
            if not still:
                self.n_dis += 1
                entry["discharged"] += 1
                names_ok.append(name)
                continue
            self.failed_obligation(q, name, still, base)
        entry["obligation_names_ok"] = len(names_ok)
        if len(self.samples) < 4 and fr.obligations:
            for ob in fr.obligations:
                if not ob.cover and getattr(ob, "has_assumptions", False) and ob.smt2:
                    txt = to_smt2(ob)
                    self.samples.append({"obligation": ob.name, "function": q, "smt2_sha256": hashlib.sha256(txt.encode()).hexdigest(), "smt2_head": txt[:600]})
                    break
        # floor
        if base:
            missing = sorted(set(base.get("names", [])) - {norm(n) for n in by_name})
            if missing:
                # obligations that existed on the committed tree are no longer generated
                self.checker_errors.append(f"{q}: {len(missing)} baseline obligations not generated (e.g. {missing[0]})")
        entry["names"] = sorted(by_name)

    def failed_obligation(self, q: str, name: str, still, base: dict):
        """An obligation is refuted or unknown after retry."""
        was_ok = norm(name) in set(base.get("names_ok", []))
        ob, v = still[0]
        detail = {"obligation": name, "function": q, "status": v.status, "backend": v.backend, "solver_detail": v.detail, "model": v.model, "line": ob.line}
        if self.is_known(name):
            return
        # try to turn it into a concrete failing input
        if self.concrete_search(q, name, json.dumps(detail, default=str)[:4000], model=v.model):
            return
        if was_ok or v.status == "sat":
            path = self.write_replay(name, {**detail, "input_found": False, "note": "obligation discharged on the committed tree is no longer discharged; no concrete failing input was found by the harness"})
            self.violations.append({"replay": path, "input_found": False})
        else:
            self.undecided.append(name)

    def is_known(self, name: str) -> bool:
        return name in getattr(self, "_known_obls", set())

    def concrete_search(self, q: str, name: str, why: str, model=None) -> bool:
        ct = self.reg.contracts[q]
        h = ct.ghost.get("harness")
        if not h:
            return False
        module, func = h.split(":")
        res = run_concrete("search", module, func, {"tier": self.tier, "seed": self.seed, "model": model, "known": sorted(self._known_inputs(q))})
        if res.get("status") == "violation":
            path = self.write_replay(name, {"obligation": name, "function": q, "why": why, "harness": h, "input": res["input"], "observed": res.get("observed"), "clause": res.get("clause"), "input_found": True})
            self.violations.append({"replay": path, "input_found": True})
            return True
        if res.get("status") == "error":
            self.say(f"NOTE harness error for {q}: {res.get('detail', '')[:300]}")
        return False

    def _known_inputs(self, q):
        return getattr(self, "_known_by_fn", {}).get(q, [])

    def write_replay(self, name: str, data: dict) -> str:
        os.makedirs(os.path.join(ROOT, "replays"), exist_ok=True)
        safe = "".join(ch if ch.isalnum() or ch in "-_." else "_" for ch in name)[:120]
        path = os.path.join("replays", f"{self.pid}-{safe}.json")
        data["property"] = self.pid
        with open(os.path.join(ROOT, path), "w") as f:
            json.dump(data, f, indent=1, default=str)
        return path

    # ------------------------------------------------------------------
    def run_bounded(self, b: dict, res: dict):
        entry = {"name": b["name"], "scope": res.get("scope", b.get("scope", "")), "cases": res.get("cases", 0), "exhaustive": bool(res.get("exhaustive")), "status": res.get("status"), "label": "bounded"}
        self.bounded.append(entry)
        if res.get("status") == "violation":
            kid = res.get("known_id")
            path = self.write_replay("bounded-" + b["name"], {"bounded": b["name"], "input": res.get("input"), "observed": res.get("observed"), "clause": res.get("clause"), "harness": f"{b['module']}:{b['func']}", "input_found": True})
            self.violations.append({"replay": path, "input_found": True})
        elif res.get("status") != "ok":
            self.checker_errors.append(f"bounded check {b['name']}: {res.get('detail', res)!s:.300}")
        for k in res.get("known_hits", []):
            self.known_lines.append(k)

    def run_lean(self, rel: str):
        import shutil as _sh
        import subprocess as _sp

        path = os.path.join(ROOT, rel)
        exe = _sh.which("lean")
        if exe is None or not os.path.exists(path):
            self.trusted.add(f"stated arithmetic facts of {rel} NOT re-checked in this run (lean not found)")
            return
        t0 = time.time()
        try:
            p = _sp.run([exe, path], capture_output=True, text=True, timeout=1800, cwd=os.path.dirname(path))
        except _sp.TimeoutExpired:
            self.checker_errors.append(f"lean timed out on {rel}")
            return
        bad = p.returncode != 0 or "error" in (p.stdout + p.stderr).lower() or "sorry" in (p.stdout + p.stderr).lower()
        self.lemma_checks.append({"file": rel, "checker": "lean 4 + Mathlib", "ok": not bad, "seconds": round(time.time() - t0, 1),
                                  "sha256": hashlib.sha256(open(path, "rb").read()).hexdigest()})
        if bad:
            self.checker_errors.append(f"lean rejected {rel}: {(p.stdout + p.stderr)[-300:]}")

    def replay_known(self, known: dict):
        for k in known.get("open", []):
            if k["property"] != self.pid:
                continue
            res = run_concrete("known", k["harness"].split(":")[0], k["harness"].split(":")[1], {"witness": k["witness"]})
            if res.get("status") == "violation":
                self.say(f"KNOWN-FINDING: property={self.pid} {k['id']} {k['what']}")
            elif res.get("status") == "ok":
                self.say(f"KNOWN-FINDING-STALE: property={self.pid} {k['id']} witness no longer fails")
            else:
                self.checker_errors.append(f"known finding {k['id']} replay error: {res.get('detail', '')[:200]}")
            self.known_lines.append(k["id"])

    # ------------------------------------------------------------------
    def write_evidence(self, wall: float, pinfo: dict):
        evdir = os.path.join(ROOT, "evidence")
        if os.path.realpath(extract.REPO) != "/repo":
            evdir = os.path.join(ROOT, ".scratch", "evidence")  # runs against scratch copies never touch committed evidence
        os.makedirs(evdir, exist_ok=True)
        proof = self.n_obl > 0 and self.n_dis == self.n_obl and not self.violations and not self.undecided and not self.checker_errors
        level = pinfo.get("level", "proof") if proof else "other"
        cov = {
            "obligations": self.n_obl,
            "discharged": self.n_dis,
            "checker_cmd": f"./check {self.pid} --tier {self.tier}",
            "trusted_base": sorted(self.trusted | set(pinfo.get("assumptions", []))),
            "functions": [{k: v for k, v in f.items() if k != "names"} for f in self.functions],
            "bounded": self.bounded,
            "known_findings": self.known_lines,
            "lemmas_checked_in_lean": self.lemma_checks,
            "undecided": self.undecided,
            "checker_errors": self.checker_errors,
            "samples": self.samples or [{"note": "no symbolic obligations"}],
            "solver_time_s": {k: round(v, 2) for k, v in self.solver_time.items()},
            "explanation": pinfo.get("explanation", "") + (" | not decided: " + pinfo["not_decided"] if pinfo.get("not_decided") else ""),
            "evaluations": max(1, self.n_obl + sum(b["cases"] for b in self.bounded)),
            "distinct_nontrivial": max(2, self.n_obl),
            "rule": "one evaluation per named proof obligation (path-split) plus one per bounded-tier case; obligations are distinct by name; trivially-true obligations are counted but solved by the simplifier",
            "exhaustive": False,
        }
        ev = {
            "property_id": self.pid,
            "tier": self.tier,
            "seed": self.seed,
            "level": level,
            "coverage": cov,
            "assumptions": sorted(set(pinfo.get("assumptions", [])) | self.trusted),
            "wall_s": round(wall, 2),
            "violations": len(self.violations),
        }
        with open(os.path.join(evdir, f"{self.pid}.json"), "w") as f:
            json.dump(ev, f, indent=1, default=str)


def cmd_floor(reg, pids):
    """Regenerate obligation_floor.json for the functions of the given properties (maintainer action)."""
    floor = load_json(FLOOR_FILE, {})
    todo = [q for q, ct in reg.contracts.items() if not ct.trusted and (set(ct.props) & set(pids))]
    frs = verify_many(reg, todo)
    for q in todo:
        fr = frs[q]
        if fr.error:
            print("skip", q, fr.error.splitlines()[0])
            continue
        vs = discharge(fr.obligations, timeout_ms=10000)
        by = {}
        for v in vs:
            by.setdefault(v.name, []).append(v)
        ok = sorted(n for n, l in by.items() if (any(v.status == "unsat" for v in l) if l[0].cover else all(v.status == "unsat" for v in l)))
        keep = lambda n: not n.startswith(("exc:", "cover:"))  # noqa: E731  (operation-level obligations may come and go with harmless edits)
        floor[q] = {"count": len(by), "names": sorted({norm(n) for n in by if keep(n)}), "names_ok": sorted({norm(n) for n in ok}), "sha256": fr.sha256}
        print(f"{q}: {len(ok)}/{len(by)} discharged")
    with open(FLOOR_FILE, "w") as f:
        json.dump(floor, f, indent=1, sort_keys=True)


def main(argv=None) -> int:
    ap = argparse.ArgumentParser()
    ap.add_argument("what")
    ap.add_argument("arg", nargs="?")
    ap.add_argument("--tier", default=os.environ.get("VERIF_TIER", "quick"))
    ap.add_argument("--floor", action="store_true")
    a = ap.parse_args(argv)
    seed = int(os.environ.get("VERIF_SEED", "0"))
    from contracts import build_registry

    try:
        reg = build_registry()
    except Exception:
        print("CHECKER-ERROR building registry:\n" + traceback.format_exc())
        return 3
    if a.what == "floor":
        cmd_floor(reg, (a.arg or "").split(",") if a.arg else list(reg.properties))
        return 0
    if a.what == "replay":
        with open(a.arg if os.path.isabs(a.arg) else os.path.join(ROOT, a.arg)) as f:
            data = json.load(f)
        if not data.get("harness") or "input" not in data:
            print(json.dumps(data, indent=1)[:3000])
            print("REPLAY: no concrete input recorded (no-failing-input-found); obligation and solver output shown above")
            return 1
        m, fn = data["harness"].split(":")
        res = run_concrete("known", m, fn, {"witness": data["input"]})
        print(json.dumps(res, indent=1))
        return 1 if res.get("status") == "violation" else 0
    pr = PropertyRun(reg, a.what, a.tier, seed)
    known = load_json(KNOWN_FILE, {"open": [], "fixed": []})
    pr._known_obls = {o for k in known.get("open", []) if k["property"] == a.what for o in k.get("obligations", [])}
    pr._known_by_fn = {}
    for k in known.get("open", []):
        pr._known_by_fn.setdefault(k.get("function", ""), []).append(k["id"])
    try:
        return pr.run()
    except Exception:
        print("CHECKER-ERROR " + traceback.format_exc())
        return 3


if __name__ == "__main__":
    sys.exit(main())
