#!/bin/sh
# Build the tool venv offline. Idempotent.
set -e
cd "$(dirname "$0")"
PY=/root/.pyenv/versions/3.13.0/bin/python
[ -x "$PY" ] || PY=/venv/bin/python
if [ ! -x .venv/bin/python ] || ! .venv/bin/python -c "import z3, cvc5, jsonschema" 2>/dev/null; then
  rm -rf .venv
  "$PY" -m venv .venv
  PIP_NO_INDEX=1 .venv/bin/python -m pip install -q --no-index --find-links /opt/veriftools/wheels \
      z3-solver cvc5 crosshair-tool deal icontract jsonschema
  SP=$(.venv/bin/python -c "import sysconfig; print(sysconfig.get_paths()['purelib'])")
  echo "import site; site.addsitedir('/venv/lib/python3.13/site-packages')" > "$SP/zz_repo_deps.pth"
fi
PYTHONPATH=/repo .venv/bin/python -c "import z3, cvc5, jsonschema, asimap.mbox; print('venv ok', z3.get_version_string())"
.venv/bin/python -m compileall -q pyvc contracts >/dev/null 2>&1 || true
if [ -f lean/History.lean ]; then (cd lean && lean History.lean) && echo "lean ok"; fi
